"""C02 — queue, relay and boolean events complete exactly once and in order.

Queue events: specs/QueueEvents.  Relay/boolean semantics: specs/EventBus (shared with C01), driven
here with relay/boolean-heavy schedules.
"""
import asyncio
import random

from lib import tlc, harness
from drivers import c01

LEVEL = 'model_checking'
_H = {}
HIDS = ['h1', 'h2', 'h3', 'h4']
TRACE_HIDS = '{' + ', '.join('"%s_%d"' % (h, n) for h in HIDS for n in range(1, 14)) + ', "h1", "h2"}'


def cfg_text(spec, evs, hids, maxtasks, maxops, extra='', hk='{FALSE}', cond='NoCondSet', cs='{0}'):
    neg = '  CondSet <- %s\n' % cond if not cond.startswith('{') else '  CondSet = %s\n' % cond
    return """SPECIFICATION %s
CONSTANTS
  Ev = %s
  Hid = %s
  Prio = {1, 2, 3}
  MaxTasks = %d
  MaxOps = %d
  HkSet = %s
%s  CSet = %s
%sCHECK_DEADLOCK FALSE
""" % (spec, evs, hids, maxtasks, maxops, hk, neg, cs, extra)


MC_INV = 'INVARIANT CallbackOnce\nINVARIANT CallbackAfterAll\nINVARIANT NoOverlap\nINVARIANT PrioOrder\nPROPERTY CallbackAfterHandlers\n'


def _machine():
    if _H.get('dirty'):
        # a dispatcher task was left wedged by the previous execution: abandon that machine
        _H.pop('h', None)
        _H['dirty'] = False
    if 'h' not in _H:
        _H['h'] = harness.boot('base')
    return _H['h']


class QRun:
    def __init__(self, sched, fwd, asyncs, falsers=()):
        self.falsers = set(falsers)   # handler ids that return False (which must not stop a queue event)
        self.h = _machine()
        self.m = self.h.machine
        self.evm = self.m.events
        self.sched = sched
        self.fwd = fwd              # nested posts forward the handler's queue kwarg (as Mode.start does)
        self.asyncs = set(asyncs)   # handler ids registered with add_async_handler
        self.ev = []
        self.consumed = set()
        self.ntask = 0
        self.keys = {}
        self.gen = {}       # schedule handler id -> number of registrations so far
        self.waits = {}     # (k, h) -> queue object or future
        self.deferred = []

    def program(self, k, hid):
        hid = hid.split('_')[0]
        for i, s in enumerate(self.sched):
            if i in self.consumed or s['op'] != 'qinvoke' or s['k'] != k or s['h'] != hid:
                continue
            self.consumed.add(i)
            j = i + 1
            prog = []
            while j < len(self.sched) and self.sched[j]['op'] in ('wait', 'clear', 'qpost', 'qadd', 'qremove'):
                s2 = self.sched[j]
                if s2['op'] == 'clear' and not (s2['k'] == k and s2['h'] == hid):
                    break
                if s2['op'] == 'wait' and not (s2['k'] == k and s2['h'] == hid):
                    break
                self.consumed.add(j)
                prog.append(s2)
                j += 1
            return prog
        return []

    def cur_id(self, hid):
        return '%s_%d' % (hid, self.gen.get(hid, 0))

    def post(self, e, queue=None, c=0):
        self.ntask += 1
        k = self.ntask
        self.ev.append({'op': 'qpost', 'ev': e, 'c': c})
        kw = {'a': 'p', 'c': c}
        if queue is not None:
            kw['queue'] = queue
        self.evm.post_queue('vq_' + e, callback=self.mk_cb(k), inst=k, **kw)

    def mk_cb(self, k):
        def cb(**kwargs):
            self.ev.append({'op': 'qcallback', 'k': k})
        return cb

    def mk_handler(self, hid):
        def hnd(queue, **kwargs):
            k = kwargs.get('inst', -1)
            self.ev.append({'op': 'qinvoke', 'k': k, 'h': hid, 'a': str(kwargs.get('a', 'MISSING'))})
            waited = False
            for s in self.program(k, hid):
                if s['op'] == 'wait':
                    queue.wait()
                    waited = True
                    self.waits[(k, hid)] = queue
                    self.ev.append({'op': 'wait', 'k': k, 'h': hid})
                elif s['op'] == 'clear':
                    self.ev.append({'op': 'clear', 'k': k, 'h': hid})
                    self.waits.pop((k, hid)).clear()
                    waited = False
                elif s['op'] == 'qpost':
                    self.post(s['ev'], queue if (self.fwd and waited) else None, s.get('c', 0))
                else:
                    self.env(s)
            self.ev.append({'op': 'qret'})
            if hid.split('_')[0] in self.falsers:
                return False
            return None
        return hnd

    def mk_async(self, hid):
        async def coro(**kwargs):
            k = kwargs.get('inst', -1)
            self.ev.append({'op': 'qinvoke', 'k': k, 'h': hid, 'a': str(kwargs.get('a', 'MISSING'))})
            # add_async_handler registered the wait before this coroutine started
            self.ev.append({'op': 'wait', 'k': k, 'h': hid})
            hold = False
            for s in self.program(k, hid):
                if s['op'] == 'wait':
                    hold = True
                elif s['op'] == 'clear':
                    hold = False
                elif s['op'] == 'qpost':
                    self.post(s['ev'], None, s.get('c', 0))
                else:
                    self.env(s)
            self.ev.append({'op': 'qret'})
            if hold:
                fut = asyncio.get_event_loop().create_future()
                self.waits[(k, hid)] = fut
                await fut
            else:
                self.ev.append({'op': 'clear', 'k': k, 'h': hid})
        return coro

    def do_clear(self, k, hid):
        w = self.waits.pop((k, hid), None)
        if w is None:
            return False
        self.ev.append({'op': 'clear', 'k': k, 'h': hid})
        if isinstance(w, asyncio.Future):
            # the coroutine handler ends normally, or is ended by the cancellation of what it awaits: either way its
            # wait on the queue event is over
            if (k + len(self.ev)) % 3 == 0:
                w.cancel()
            else:
                w.set_result(None)
        else:
            w.clear()
        return True

    def env(self, s):
        op = s['op']
        if op == 'qadd':
            if s['h'] in self.keys:
                return
            self.gen[s['h']] = self.gen.get(s['h'], 0) + 1
            rid = self.cur_id(s['h'])       # every registration gets a fresh id (as the real uuid keys are)
            hk, cond = bool(s.get('hk', False)), s.get('cond', -1)
            name = 'vq_' + s['ev'] + ('{c==%d}' % cond if cond != -1 else '')
            kw = {'a': 'h'} if hk else {}
            if s['h'] in self.asyncs:
                key = self.evm.add_async_handler(name, self.mk_async(rid), priority=s['prio'], **kw)
            else:
                key = self.evm.add_handler(name, self.mk_handler(rid), priority=s['prio'], **kw)
            self.keys[s['h']] = key
            self.ev.append({'op': 'qadd', 'h': rid, 'ev': s['ev'], 'prio': s['prio'], 'hk': hk, 'cond': cond})
        elif op == 'qremove':
            if s['h'] in self.keys:
                self.evm.remove_handler_by_key(self.keys.pop(s['h']))
                self.ev.append({'op': 'qremove', 'h': self.cur_id(s['h'])})
        elif op == 'qpost':
            self.post(s['ev'], None, s.get('c', 0))
        elif op == 'clear':
            hit = [w for w in self.waits if w[0] == s['k'] and w[1].split('_')[0] == s['h']]
            if hit:
                self.do_clear(*hit[0])
            else:
                self.deferred.append((s['k'], s['h']))

    def settle(self):
        for _ in range(4):
            self.h.advance_time_and_run(0)

    def run(self):
        try:
            for i, s in enumerate(self.sched):
                if i in self.consumed or s['op'] not in ('qadd', 'qremove', 'qpost', 'clear'):
                    continue
                self.consumed.add(i)
                self.env(s)
                self.settle()
                for d in list(self.deferred):
                    hit = [w for w in self.waits if w[0] == d[0] and w[1].split('_')[0] == d[1]]
                    if hit:
                        self.do_clear(*hit[0])
                        self.deferred.remove(d)
                        self.settle()
            # the environment eventually clears every wait it was asked to hold
            guard = 0
            while self.waits and guard < 50:
                guard += 1
                k, hid = sorted(self.waits)[0]
                self.do_clear(k, hid)
                self.settle()
            self.settle()
            self.ev.append({'op': 'rest'})
        finally:
            for k in list(self.keys.values()):
                self.evm.remove_handler_by_key(k)
            self.keys.clear()
            for w in self.waits.values():
                try:
                    w.set_result(None) if isinstance(w, asyncio.Future) else w.clear()
                except Exception:  # pylint: disable=broad-except
                    pass
            # a wedged dispatcher task must not leak into the next schedule
            if self.evm._queue_tasks:
                _H['dirty'] = True
            else:
                self.settle()
        return self.ev


def exec_schedule(job):
    sched, fwd, asyncs = job[0], job[1], job[2]
    falsers = job[3] if len(job) > 3 else []
    try:
        return {'ev': QRun(sched, fwd, asyncs, falsers).run(), '_fwd': fwd, '_async': list(asyncs), '_false': list(falsers)}
    except Exception as ex:  # pylint: disable=broad-except
        import traceback
        _H['dirty'] = True
        return {'ev': [{'op': 'crash', 'what': repr(ex)[:300]}], '_tb': traceback.format_exc()[-2000:]}


def exec_mode_scenario(job):
    """A use_wait_queue mode started from a queue event while a handler listens on its starting event."""
    variant = job
    h = _machine()
    m = h.machine
    evm = m.events
    ev = []
    mode = m.modes['m2']

    def settle():
        for _ in range(4):
            h.advance_time_and_run(0)
    keys = []
    try:
        ev.append({'op': 'qadd', 'h': 'h1', 'ev': 'start_m2', 'prio': 2})   # the mode's own start handler (Mode.start)
        if variant != 'no_listener':
            def listener(queue, **kwargs):
                ev.append({'op': 'qinvoke', 'k': 2, 'h': 'h2'})
                ev.append({'op': 'qret'})
            keys.append(evm.add_handler('mode_m2_starting', listener, priority=1))
            ev.append({'op': 'qadd', 'h': 'h2', 'ev': 'm2_starting', 'prio': 1})

        def cb(**kwargs):
            ev.append({'op': 'qcallback', 'k': 1})
        ev.append({'op': 'qpost', 'ev': 'start_m2'})
        evm.post_queue('vq_start_m2', callback=cb)
        # Mode.start runs as handler h1 of task 1: registers the wait, posts the inner queue event
        ev.append({'op': 'qinvoke', 'k': 1, 'h': 'h1'})
        ev.append({'op': 'wait', 'k': 1, 'h': 'h1'})
        ev.append({'op': 'qpost', 'ev': 'm2_starting'})
        ev.append({'op': 'qret'})
        n0 = len(ev)
        settle()
        h.advance_time_and_run(0.01)
        # inner task 2 (mode_m2_starting) must complete: observable as the mode becoming active
        inner = ev[n0:]
        del ev[n0:]
        ev.extend([e for e in inner if e['op'] != 'qcallback'])
        if mode.active:
            ev.append({'op': 'qcallback', 'k': 2})
        ev.extend([e for e in inner if e['op'] == 'qcallback'])
        ev.append({'op': 'rest'})
        if mode.active:
            stopped = mode.stop()
            if stopped:
                ev.append({'op': 'clear', 'k': 1, 'h': 'h1'})
            settle()
            h.advance_time_and_run(0.01)
            ev.append({'op': 'rest'})
    finally:
        for k in keys:
            evm.remove_handler_by_key(k)
        if mode.active:
            mode.stop()
        if evm._queue_tasks or mode._starting:
            _H['dirty'] = True
        else:
            settle()
    # the clear happens inside Mode._stopped before the outer callback: order the log accordingly
    out = []
    pend_cb = None
    for e in ev:
        if e['op'] == 'qcallback' and e['k'] == 1 and not any(x['op'] == 'clear' for x in out):
            pend_cb = e
            continue
        out.append(e)
        if e['op'] == 'clear' and pend_cb:
            out.append(pend_cb)
            pend_cb = None
    if pend_cb:
        out.append(pend_cb)
    dflt = {'qadd': {'hk': False, 'cond': -1}, 'qpost': {'c': 0}, 'qinvoke': {'a': 'p'}}
    out = [dict(dflt.get(e['op'], {}), **e) for e in out]       # kwargs are not part of this scenario
    return {'ev': out, '_variant': variant}


def handmade():
    A = lambda h, e, p: {'op': 'qadd', 'h': h, 'ev': e, 'prio': p}
    P = lambda e: {'op': 'qpost', 'ev': e}
    I = lambda k, h: {'op': 'qinvoke', 'k': k, 'h': h}
    W = lambda k, h: {'op': 'wait', 'k': k, 'h': h}
    C = lambda k, h: {'op': 'clear', 'k': k, 'h': h}
    R = {'op': 'qret'}
    return [
        # nested queue event posted by a waiting handler; outer cleared after the inner completes
        [A('h1', 'q1', 2), A('h2', 'q1', 1), A('h3', 'q2', 1), P('q1'), I(1, 'h1'), W(1, 'h1'), P('q2'), R,
         I(2, 'h3'), R, C(1, 'h1')],
        # inner handler waits too; clears in adversarial order
        [A('h1', 'q1', 2), A('h2', 'q1', 1), A('h3', 'q2', 2), A('h4', 'q2', 1), P('q1'), I(1, 'h1'), W(1, 'h1'), P('q2'), R,
         I(2, 'h3'), W(2, 'h3'), R, C(1, 'h1'), C(2, 'h3')],
        # two queue events in flight, waits cleared in the opposite order
        [A('h1', 'q1', 1), A('h2', 'q2', 1), P('q1'), P('q2'), I(1, 'h1'), W(1, 'h1'), R, I(2, 'h2'), W(2, 'h2'), R,
         C(2, 'h2'), C(1, 'h1')],
        # wait cleared before the handler returns
        [A('h1', 'q1', 2), A('h2', 'q1', 1), P('q1'), I(1, 'h1'), W(1, 'h1'), C(1, 'h1'), R, I(1, 'h2'), R],
        # no handlers at all
        [P('q3'), P('q3')],
    ]


def queue_traces(ctx, wd, check_args, prefix, num, depth, with_modes=True):
    """Queue-event schedules from the spec executed on the real EventManager and validated by QueueEventsTrace.
    check_args: also judge the kwarg a handler sees (handler-registered over posted) - part of C01's statement."""
    with open(wd + '/Gen.cfg', 'w') as f:
        f.write(cfg_text('Spec', '{"q1", "q2", "q3"}', '{"h1", "h2", "h3", "h4"}', 6, 12, '', '{TRUE, FALSE}', 'FullCondSet', '{0, 1}'))
    behs, _ = tlc.simulate(wd, 'QueueEvents', 'Gen.cfg', num=num, depth=depth,
                           seed=ctx.seed)
    rnd = random.Random(ctx.seed)
    jobs = []
    for b in behs:
        asyncs = [x for x in HIDS if rnd.random() < 0.25]
        falsers = [x for x in HIDS if x not in asyncs and rnd.random() < 0.3]
        jobs.append(([s['act'] for s in b], rnd.random() < 0.5, asyncs, falsers))
    for s in handmade():
        jobs += [(s, False, [], []), (s, True, [], ['h1']), (s, False, ['h1', 'h3'], ['h2']), (s, True, ['h2'], ['h1', 'h3'])]
    traces = harness.pmap(exec_schedule, jobs, chunk=8)
    mjobs = ['listener', 'no_listener'] if with_modes else []
    mtraces = [exec_mode_scenario(j) for j in mjobs]
    all_traces = traces + mtraces
    with open(wd + '/Trace.cfg', 'w') as f:
        f.write(cfg_text('TSpec', '{}', TRACE_HIDS, 10 ** 6, 10 ** 6, '  CheckArgs = %s\nINVARIANT Reporter\n' % ('TRUE' if check_args else 'FALSE'), '{}', '{}', '{}'))
    v = tlc.validate_traces(wd, 'QueueEventsTrace', 'Trace.cfg', all_traces)
    ctx.add_trace_verdict('QueueEventsTrace', v, len(all_traces))
    ctx.sample({'kind': 'queue-event-trace', 'trace': traces[0]['ev'][:16]})
    if mtraces:
        ctx.sample({'kind': 'use_wait_queue mode started from a queue event, listener on mode_m2_starting', 'trace': mtraces[0]['ev']})
    tlc.finish_diagnosis(wd, 'QueueEventsTrace', 'Trace.cfg', all_traces, v)
    for i, info in sorted(v.rejected.items()):
        if info.get('line') is None:
            continue
        fe = info.get('failing_event') or {}
        pe = info.get('prev_event') or {}
        if i >= len(traces):
            sig = prefix + ':mode-wait-queue:%s' % fe.get('op', 'end')
            rp = {'kind': 'mode', 'variant': mjobs[i - len(traces)], 'trace': all_traces[i], 'info': info}
        else:
            sig = prefix + ':queue:%s-after-%s%s' % (fe.get('op', 'end'), pe.get('op', 'start'), ':fwd' if jobs[i][1] else '')
            rp = {'kind': 'queue', 'job': list(jobs[i]), 'trace': all_traces[i], 'info': info}
        ctx.violation(sig, 'queue event execution not explained by QueueEvents spec at line %s: %s (prev %s)' % (
            info.get('line'), fe, pe), rp)


def run(ctx):
    wd = tlc.prepare(ctx.scratch, 'QueueEvents', 'queueevents')
    evs = '{"q1"}' if ctx.quick else '{"q1", "q2"}'
    with open(wd + '/MC.cfg', 'w') as f:
        f.write(cfg_text('MCSpec', evs, '{"h1", "h2"}', 2, 4, MC_INV).replace('Prio = {1, 2, 3}', 'Prio = {1, 2}'))
    r = tlc.expect_ok(tlc.check(wd, 'QueueEventsMC', 'MC.cfg', timeout=3000), 'QueueEvents design check')
    ctx.add_tlc('QueueEventsMC', r, {'Ev': evs, 'Hid': 2, 'MaxTasks': 2, 'MaxOps': 4})
    with open(wd + '/Live.cfg', 'w') as f:
        f.write(cfg_text('LiveSpec', '{"q1", "q2"}', '{"h1", "h2"}', 2, 4, 'PROPERTY AllComplete\n')
                .replace('Prio = {1, 2, 3}', 'Prio = {1, 2}'))
    r = tlc.expect_ok(tlc.check(wd, 'QueueEvents', 'Live.cfg', timeout=1200), 'QueueEvents liveness check')
    ctx.add_tlc('QueueEvents liveness (AllComplete under weak fairness)', r)
    ctx.coverage['monitors'] += ['CallbackOnce', 'CallbackAfterAll', 'NoOverlap', 'PrioOrder', 'AllComplete(liveness)', 'Rest']
    queue_traces(ctx, wd, False, 'C02', 350 if ctx.quick else 5000, 50 if ctx.quick else 80)
    # ---- relay / boolean events through the EventBus spec
    rnd = random.Random(ctx.seed + 11)
    wd2 = tlc.prepare(ctx.scratch, 'EventBus', 'eventbus_rb')
    with open(wd2 + '/Gen.cfg', 'w') as f:
        f.write(c01.cfg_text('Spec', '{"e1", "e2"}', '{"h1", "h2", "h3", "h4"}', 6, 16, '{}',
                             '{"boolean", "relay"}', '{TRUE, FALSE}', 'FullCondSet', '{0, 1}', invs=False))
    behs, _ = tlc.simulate(wd2, 'EventBus', 'Gen.cfg', num=250 if ctx.quick else 4000, depth=60, seed=ctx.seed + 3)
    jobs2 = [([s['act'] for s in b], rnd.choice(c01.CTXS), 'direct') for b in behs]
    # the hand-written EventBus schedules too (relay chains, relay events posted without any kwargs, boolean stops)
    jobs2 += [(s, cx, 'direct') for s in c01.handmade() for cx in ('direct', 'delay')]
    tr2 = harness.pmap(c01.exec_schedule, jobs2, chunk=8)
    with open(wd2 + '/Trace.cfg', 'w') as f:
        f.write(c01.cfg_text('TSpec', '{}', '{}', 10 ** 6, 10 ** 6, '{"FastPathDrop"}', '{}', '{}', 'DefaultCondSet', '{}',
                             invs=False, trace=True))
    v2 = tlc.validate_traces(wd2, 'EventBusTrace', 'Trace.cfg', tr2)
    ctx.add_trace_verdict('EventBusTrace(relay/boolean schedules)', v2, len(tr2))
    tlc.finish_diagnosis(wd2, 'EventBusTrace', 'Trace.cfg', tr2, v2)
    for i, info in sorted(v2.rejected.items()):
        if info.get('line') is None:
            continue
        fe = info.get('failing_event') or {}
        pe = info.get('prev_event') or {}
        ctx.violation('C02:relay-boolean:%s-after-%s' % (fe.get('op', 'end'), pe.get('op', 'start')),
                      'relay/boolean execution not explained by EventBus spec at line %s: %s (prev %s)' % (
                          info.get('line'), fe, pe), {'kind': 'bus', 'job': list(jobs2[i]), 'trace': tr2[i], 'info': info})
    ctx.assumptions += ['every wait the schedule registers is eventually cleared by the driver (environment fairness)',
                        'relay/boolean traces are validated with the recorded C01 deviation FastPathDrop enabled']


def replay(ctx, data):
    d = data['replay']
    if d['kind'] == 'queue':
        tr = exec_schedule(tuple(d['job']))
    elif d['kind'] == 'mode':
        tr = exec_mode_scenario(d['variant'])
    else:
        return c01.replay(ctx, data)
    print('replay trace:', tr['ev'])
    wd = tlc.prepare(ctx.scratch, 'QueueEvents', 'queueevents')
    with open(wd + '/Trace.cfg', 'w') as f:
        f.write(cfg_text('TSpec', '{}', TRACE_HIDS, 10 ** 6, 10 ** 6, '  CheckArgs = %s\nINVARIANT Reporter\n' % ('TRUE' if data['sig'].startswith('C01') else 'FALSE'), '{}', '{}', '{}'))
    v = tlc.validate_traces(wd, 'QueueEventsTrace', 'Trace.cfg', [tr])
    for i, info in v.rejected.items():
        ctx.violation(data['sig'], 'replayed: %s' % info, d)
