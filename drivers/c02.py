"""C02 — queue, relay and boolean events complete exactly once and in order.

Queue events: specs/QueueEvents.  Relay/boolean semantics: specs/EventBus (shared with C01), driven
here with relay/boolean-heavy schedules.

Modes as queue-event handlers (machines/c02q): the start event of a real Mode (with / without use_wait_queue) is posted
as a queue event any number of times - while the mode is idle, still starting (a handler of its mode_<name>_starting
queue event holds a wait), active, stopping (a handler of mode_<name>_stopping holds a wait) or stopped again - mixed
with direct start()/stop() calls and all the other queue-event traffic.  The spec decides which requests the mode
accepts, which queue events it holds and when they complete.
"""
import asyncio
import concurrent.futures
import random

from lib import tlc, harness
from drivers import c01

LEVEL = 'model_checking'
_H = {}
HIDS = ['h1', 'h2', 'h3', 'h4']
TRACE_HIDS = '{' + ', '.join('"%s_%d"' % (h, n) for h in HIDS for n in range(1, 14)) + ', "h1", "h2"}'


MODE_NAMES = {'wq': 'mw', 'nowq': 'mn'}      # model kind -> mode of machines/c02q


def cfg_text(spec, evs, hids, maxtasks, maxops, extra='', hk='{FALSE}', cond='NoCondSet', cs='{0}', kinds='{"none"}'):
    neg = '  CondSet <- %s\n' % cond if not cond.startswith('{') else '  CondSet = %s\n' % cond
    return """SPECIFICATION %s
CONSTANTS
  Ev = %s
  Hid = %s
  Prio = {1, 2, 3}
  MaxTasks = %d
  MaxOps = %d
  HkSet = %s
%s  CSet = %s
  ModeKinds = %s
%sCHECK_DEADLOCK FALSE
""" % (spec, evs, hids, maxtasks, maxops, hk, neg, cs, kinds, extra)


MC_INV = 'INVARIANT CallbackOnce\nINVARIANT CallbackAfterAll\nINVARIANT NoOverlap\nINVARIANT PrioOrder\nPROPERTY CallbackAfterHandlers\n'
MODE_INV = 'INVARIANT StarterAfterStop\nINVARIANT ModeHoldsOnlyStarter\nINVARIANT StarterHeld\nPROPERTY RefusedNoWait\n'


def _machine():
    if _H.get('dirty'):
        # a dispatcher task was left wedged by the previous execution: abandon that machine
        _H.pop('h', None)
        _H['dirty'] = False
    if 'h' not in _H:
        _H['h'] = harness.boot('c02q')
    return _H['h']


class QRun:
    def __init__(self, sched, fwd, asyncs, falsers=(), kind='none', sticky=0):
        self.kind = kind
        # sticky: the driver's handlers of the mode's own queue events (starting / stopping) hold a wait even where the
        # schedule does not ask for one, released at some later step: start requests meet the mode in every state
        self.sticky = random.Random(sticky) if sticky else None
        self.stuck = []
        self.falsers = set(falsers)   # handler ids that return False (which must not stop a queue event)
        self.h = _machine()
        self.m = self.h.machine
        self.evm = self.m.events
        self.sched = sched
        self.fwd = fwd              # nested posts forward the handler's queue kwarg (as Mode.start does)
        self.asyncs = set(asyncs)   # handler ids registered with add_async_handler
        self.ev = []
        self.consumed = set()
        self.ntask = 0
        self.keys = {}
        self.gen = {}       # schedule handler id -> number of registrations so far
        self.waits = {}     # (k, h) -> queue object or future
        self.deferred = []
        # the mode whose start event is "qm" (None: no mode in this run)
        self.mode = self.m.modes[MODE_NAMES[kind]] if kind != 'none' else None
        self.mtask = {}     # 'ms' / 'mp' -> task number of the mode's current starting / stopping queue event
        self.seen_q = []    # QueuedEvents which the mode's start handler was handed
        self.direct = False
        self.last_acc = False

    def evname(self, e):
        """Real name of a model event."""
        if self.mode is not None:
            if e == 'qm':
                return 'vq_start_' + self.mode.name
            if e == 'ms':
                return 'mode_%s_starting' % self.mode.name
            if e == 'mp':
                return 'mode_%s_stopping' % self.mode.name
        return 'vq_' + e

    def task_of(self, ev, kwargs):
        """Number of the queue event a handler of event ev is called for.  The driver's posts carry it (inst); the mode's
        starting event carries the kwargs of the request which started it and its stopping event none: at most one of
        each is in flight, numbered when the mode posted it."""
        if self.mode is not None and ev in ('ms', 'mp'):
            return self.mtask.get(ev, -1)
        return kwargs.get('inst', -1)

    def mst(self):
        """State of the mode, from its public attributes."""
        mode = self.mode
        if mode is None:
            return 'idle'
        if mode.stopping:
            return 'stopping'
        if mode.active:
            return 'active'
        return 'starting' if mode.starting else 'idle'

    # ---- calls of Mode.start, reported by drivers/c02_mode.ProbedMode
    def m_enter(self, mode, kwargs):
        return bool(mode.starting)

    def m_exit(self, mode, kwargs, was_starting):
        acc = bool(mode.starting) and not was_starting and not mode.active
        if acc:
            # the mode posted its mode_<name>_starting queue event
            self.ntask += 1
            self.mtask['ms'] = self.ntask
        if self.direct:
            self.last_acc = acc
            return
        q = kwargs.get('queue')
        if q is None or any(q is x for x in self.seen_q):
            # not called as the handler of a queue event: a start which the mode put off and runs now by itself
            self.ev.append({'op': 'mdeferred', 'acc': acc})
            return
        self.seen_q.append(q)
        # what the statement talks about: did this handler leave a wait on the queue event it was called for
        self.ev.append({'op': 'mreq', 'k': kwargs.get('inst', -1), 'acc': acc, 'w': bool(q.waiter)})

    def mstart(self, c):
        self.direct, self.last_acc = True, False
        try:
            self.mode.start(a='p', c=c)
        finally:
            self.direct = False
        self.ev.append({'op': 'mstart', 'c': c, 'acc': self.last_acc})

    def mstop(self):
        was_stopping = bool(self.mode.stopping)
        r = bool(self.mode.stop())
        if r and not was_stopping:
            # the mode posted its mode_<name>_stopping queue event
            self.ntask += 1
            self.mtask['mp'] = self.ntask
        self.ev.append({'op': 'mstop', 'r': r})

    def program(self, k, hid):
        hid = hid.split('_')[0]
        for i, s in enumerate(self.sched):
            if i in self.consumed or s['op'] != 'qinvoke' or s['k'] != k or s['h'] != hid:
                continue
            self.consumed.add(i)
            j = i + 1
            prog = []
            while j < len(self.sched) and self.sched[j]['op'] in ('wait', 'clear', 'qpost', 'qadd', 'qremove', 'mstop', 'mstart'):
                s2 = self.sched[j]
                if s2['op'] == 'clear' and not (s2['k'] == k and s2['h'] == hid):
                    break
                if s2['op'] == 'wait' and not (s2['k'] == k and s2['h'] == hid):
                    break
                self.consumed.add(j)
                prog.append(s2)
                j += 1
            return prog
        return []

    def cur_id(self, hid):
        return '%s_%d' % (hid, self.gen.get(hid, 0))

    def post(self, e, queue=None, c=0):
        self.ntask += 1
        k = self.ntask
        self.ev.append({'op': 'qpost', 'ev': e, 'c': c})
        kw = {'a': 'p', 'c': c}
        if queue is not None:
            kw['queue'] = queue
        self.evm.post_queue(self.evname(e), callback=self.mk_cb(k), inst=k, **kw)

    def mk_cb(self, k):
        def cb(**kwargs):
            self.ev.append({'op': 'qcallback', 'k': k})
        return cb

    def mk_handler(self, hid, ev):
        def hnd(queue, **kwargs):
            k = self.task_of(ev, kwargs)
            self.ev.append({'op': 'qinvoke', 'k': k, 'h': hid, 'a': str(kwargs.get('a', 'MISSING'))})
            waited = did_wait = False
            for s in self.program(k, hid):
                if s['op'] == 'wait':
                    queue.wait()
                    waited = did_wait = True
                    self.waits[(k, hid)] = queue
                    self.ev.append({'op': 'wait', 'k': k, 'h': hid})
                elif s['op'] == 'clear':
                    self.ev.append({'op': 'clear', 'k': k, 'h': hid})
                    self.waits.pop((k, hid)).clear()
                    waited = False
                elif s['op'] == 'qpost':
                    self.post(s['ev'], queue if (self.fwd and waited) else None, s.get('c', 0))
                else:
                    self.env(s)
            if self.sticky and ev in ('ms', 'mp') and not did_wait and self.sticky.random() < 0.7:
                queue.wait()
                self.waits[(k, hid)] = queue
                self.stuck.append((k, hid))
                self.ev.append({'op': 'wait', 'k': k, 'h': hid})
            self.ev.append({'op': 'qret'})
            if hid.split('_')[0] in self.falsers:
                return False
            return None
        return hnd

    def mk_async(self, hid, ev):
        async def coro(**kwargs):
            k = self.task_of(ev, kwargs)
            self.ev.append({'op': 'qinvoke', 'k': k, 'h': hid, 'a': str(kwargs.get('a', 'MISSING'))})
            # add_async_handler registered the wait before this coroutine started
            self.ev.append({'op': 'wait', 'k': k, 'h': hid})
            hold = False
            for s in self.program(k, hid):
                if s['op'] == 'wait':
                    hold = True
                elif s['op'] == 'clear':
                    hold = False
                elif s['op'] == 'qpost':
                    self.post(s['ev'], None, s.get('c', 0))
                else:
                    self.env(s)
            self.ev.append({'op': 'qret'})
            if hold:
                fut = asyncio.get_event_loop().create_future()
                self.waits[(k, hid)] = fut
                await fut
            else:
                self.ev.append({'op': 'clear', 'k': k, 'h': hid})
        return coro

    def do_clear(self, k, hid):
        w = self.waits.pop((k, hid), None)
        if w is None:
            return False
        self.ev.append({'op': 'clear', 'k': k, 'h': hid})
        if isinstance(w, asyncio.Future):
            # the coroutine handler ends normally, or is ended by the cancellation of what it awaits: either way its
            # wait on the queue event is over
            if (k + len(self.ev)) % 3 == 0:
                w.cancel()
            else:
                w.set_result(None)
        else:
            w.clear()
        return True

    def env(self, s):
        op = s['op']
        if op == 'qadd':
            if s['h'] in self.keys:
                return
            self.gen[s['h']] = self.gen.get(s['h'], 0) + 1
            rid = self.cur_id(s['h'])       # every registration gets a fresh id (as the real uuid keys are)
            hk, cond = bool(s.get('hk', False)), s.get('cond', -1)
            name = self.evname(s['ev']) + ('{c==%d}' % cond if cond != -1 else '')
            kw = {'a': 'h'} if hk else {}
            # (model priority 2 is the priority of the modes' start handlers)
            if s['h'] in self.asyncs:
                key = self.evm.add_async_handler(name, self.mk_async(rid, s['ev']), priority=100 * s['prio'], **kw)
            else:
                key = self.evm.add_handler(name, self.mk_handler(rid, s['ev']), priority=100 * s['prio'], **kw)
            self.keys[s['h']] = key
            self.ev.append({'op': 'qadd', 'h': rid, 'ev': s['ev'], 'prio': s['prio'], 'hk': hk, 'cond': cond})
        elif op == 'qremove':
            if s['h'] in self.keys:
                self.evm.remove_handler_by_key(self.keys.pop(s['h']))
                self.ev.append({'op': 'qremove', 'h': self.cur_id(s['h'])})
        elif op == 'qpost':
            if not (self.mode is not None and s['ev'] in ('ms', 'mp')):
                self.post(s['ev'], None, s.get('c', 0))
        elif op == 'mstart':
            if self.mode is not None:
                self.mstart(s.get('c', 0))
        elif op == 'mstop':
            if self.mode is not None:
                self.mstop()
        elif op == 'clear':
            hit = [w for w in self.waits if w[0] == s['k'] and w[1].split('_')[0] == s['h']]
            if hit:
                self.do_clear(*hit[0])
            else:
                self.deferred.append((s['k'], s['h']))

    def settle(self):
        """Run the loop (no time passes) until nothing moves any more."""
        for _ in range(10):
            n, st = len(self.ev), self.mst()
            for _ in range(4):
                self.h.advance_time_and_run(0)
            if n == len(self.ev) and st == self.mst() and not self.evm.event_queue and not self.evm.callback_queue:
                break

    def rest(self):
        """The loop has run dry: every queue event must be complete or held by an outstanding wait."""
        self.ev.append({'op': 'rest', 'mst': self.mst()})

    def run(self):
        if self.mode is not None:
            self.mode.probe = self
        try:
            for i, s in enumerate(self.sched):
                if i in self.consumed or s['op'] not in ('qadd', 'qremove', 'qpost', 'clear', 'mstop', 'mstart'):
                    continue
                self.consumed.add(i)
                self.env(s)
                nxt = self.sched[i + 1] if i + 1 < len(self.sched) else None
                if (s['op'] == 'qpost' and nxt is not None and nxt['op'] == 'qremove' and (i + 1) not in self.consumed
                        and nxt['h'] in self.keys and (i + len(self.sched)) % 2 == 0):
                    # the removal that follows the post is made by a handler of a PLAIN event dispatched in the same run of
                    # the event queue, right after the queue event had its turn: its dispatcher exists, but has not taken
                    # its snapshot yet (in the model: RemoveQ between PostQ and QBegin)
                    self.consumed.add(i + 1)
                    key = self.evm.add_handler('vq_rmplain', lambda **kwargs: self.env(nxt))
                    self.evm.post('vq_rmplain')
                    self.settle()
                    self.evm.remove_handler_by_key(key)
                self.settle()
                for d in list(self.deferred):
                    hit = [w for w in self.waits if w[0] == d[0] and w[1].split('_')[0] == d[1]]
                    if hit:
                        self.do_clear(*hit[0])
                        self.deferred.remove(d)
                        self.settle()
                self.rest()
                self.stuck = [w for w in self.stuck if w in self.waits]
                if self.stuck and self.sticky.random() < 0.35:
                    self.do_clear(*self.stuck.pop(0))
                    self.settle()
                    self.rest()
            # the environment eventually clears every wait it was asked to hold, and stops the mode
            guard = 0
            while guard < 80:
                guard += 1
                if self.waits:
                    k, hid = sorted(self.waits)[0]
                    self.do_clear(k, hid)
                elif self.mode is not None and self.mode.active and not self.mode.stopping:
                    self.mstop()
                else:
                    break
                self.settle()
                self.rest()
            self.settle()
            self.rest()
        finally:
            for k in list(self.keys.values()):
                self.evm.remove_handler_by_key(k)
            self.keys.clear()
            for w in self.waits.values():
                try:
                    w.set_result(None) if isinstance(w, asyncio.Future) else w.clear()
                except Exception:  # pylint: disable=broad-except
                    pass
            if self.mode is not None:
                self.mode.probe = None
                try:
                    if self.mode.active:
                        self.mode.stop()
                        self.settle()
                except Exception:  # pylint: disable=broad-except
                    _H['dirty'] = True
                if self.mst() != 'idle':
                    _H['dirty'] = True
            # a wedged dispatcher task must not leak into the next schedule
            if self.evm._queue_tasks:
                _H['dirty'] = True
            elif not _H.get('dirty'):
                self.settle()
        return self.ev


def exec_schedule(job):
    sched, fwd, asyncs = job[0], job[1], job[2]
    falsers = job[3] if len(job) > 3 else []
    kind = job[4] if len(job) > 4 else 'none'
    sticky = job[5] if len(job) > 5 else 0
    meta = {'kind': kind, '_fwd': fwd, '_async': list(asyncs), '_false': list(falsers), '_sticky': sticky}
    q = None
    try:
        q = QRun(sched, fwd, asyncs, falsers, kind, sticky)
        return dict(meta, ev=q.run())
    except Exception as ex:  # pylint: disable=broad-except
        import traceback
        _H['dirty'] = True
        # what was observed up to the exception stays part of the trace
        return dict(meta, ev=(q.ev if q is not None else []) + [{'op': 'crash', 'what': repr(ex)[:300]}],
                    _tb=traceback.format_exc()[-2000:])


def handmade():
    A = lambda h, e, p: {'op': 'qadd', 'h': h, 'ev': e, 'prio': p}
    P = lambda e: {'op': 'qpost', 'ev': e}
    I = lambda k, h: {'op': 'qinvoke', 'k': k, 'h': h}
    W = lambda k, h: {'op': 'wait', 'k': k, 'h': h}
    C = lambda k, h: {'op': 'clear', 'k': k, 'h': h}
    R = {'op': 'qret'}
    return [
        # nested queue event posted by a waiting handler; outer cleared after the inner completes
        [A('h1', 'q1', 2), A('h2', 'q1', 1), A('h3', 'q2', 1), P('q1'), I(1, 'h1'), W(1, 'h1'), P('q2'), R,
         I(2, 'h3'), R, C(1, 'h1')],
        # inner handler waits too; clears in adversarial order
        [A('h1', 'q1', 2), A('h2', 'q1', 1), A('h3', 'q2', 2), A('h4', 'q2', 1), P('q1'), I(1, 'h1'), W(1, 'h1'), P('q2'), R,
         I(2, 'h3'), W(2, 'h3'), R, C(1, 'h1'), C(2, 'h3')],
        # two queue events in flight, waits cleared in the opposite order
        [A('h1', 'q1', 1), A('h2', 'q2', 1), P('q1'), P('q2'), I(1, 'h1'), W(1, 'h1'), R, I(2, 'h2'), W(2, 'h2'), R,
         C(2, 'h2'), C(1, 'h1')],
        # wait cleared before the handler returns
        [A('h1', 'q1', 2), A('h2', 'q1', 1), P('q1'), I(1, 'h1'), W(1, 'h1'), C(1, 'h1'), R, I(1, 'h2'), R],
        # no handlers at all
        [P('q3'), P('q3')],
        # the only handler is removed after the queue event had its turn in the bus and before its dispatcher started
        # (the driver realises a removal that directly follows a post that way): the callback must still run
        [A('h1', 'q1', 1), P('q1'), {'op': 'qremove', 'h': 'h1'}],
        [A('h1', 'q1', 2), A('h2', 'q1', 1), P('q1'), {'op': 'qremove', 'h': 'h1'}, P('q1'), {'op': 'qremove', 'h': 'h2'}],
    ]


def handmade_mode():
    """Start requests of a mode posted as queue events ("qm"), refused ones in every placement, and the stop.
    Task numbers: the driver's posts and the mode's own queue events ("ms" starting, "mp" stopping) in posting order."""
    A = lambda h, e, p: {'op': 'qadd', 'h': h, 'ev': e, 'prio': p}
    P = lambda e: {'op': 'qpost', 'ev': e}
    I = lambda k, h: {'op': 'qinvoke', 'k': k, 'h': h}
    W = lambda k, h: {'op': 'wait', 'k': k, 'h': h}
    C = lambda k, h: {'op': 'clear', 'k': k, 'h': h}
    R = {'op': 'qret'}
    STOP = {'op': 'mstop'}
    START = {'op': 'mstart', 'c': 0}
    return [
        # one request, one stop; nobody listens to the mode's own queue events
        [P('qm'), STOP],
        # a handler on the starting event (does not wait)
        [A('h1', 'ms', 1), P('qm'), I(2, 'h1'), R, STOP],
        # second request while the mode is still starting: a handler of its starting event holds a wait
        [A('h1', 'ms', 1), P('qm'), I(2, 'h1'), W(2, 'h1'), R, P('qm'), C(2, 'h1'), STOP],
        # second (and third) request while the mode is active
        [P('qm'), P('qm'), P('qm'), STOP],
        # second request while the mode is stopping: a handler of its stopping event holds a wait
        [A('h1', 'mp', 1), P('qm'), STOP, I(3, 'h1'), W(3, 'h1'), R, P('qm'), C(3, 'h1')],
        # second request after the stop: the mode starts again and holds that one
        [P('qm'), STOP, P('qm'), P('qm'), STOP],
        # requests in all placements in one run, handlers before and after the mode's on the start event itself
        [A('h1', 'ms', 1), A('h2', 'qm', 3), A('h3', 'qm', 1), P('qm'), I(1, 'h2'), R, I(2, 'h1'), W(2, 'h1'), R,
         P('qm'), I(3, 'h2'), R, I(3, 'h3'), R, C(2, 'h1'), P('qm'), I(4, 'h2'), R, I(4, 'h3'), R, STOP, I(1, 'h3'), R,
         P('qm'), I(6, 'h2'), R, I(7, 'h1'), R, STOP, I(6, 'h3'), R],
        # a waiting handler above the mode's: the LATER request reaches the mode first and is the one it holds
        [A('h1', 'qm', 3), P('qm'), I(1, 'h1'), W(1, 'h1'), R, P('qm'), I(2, 'h1'), R, C(1, 'h1'), STOP],
        # started directly (nothing to hold), then requested by queue events; a stop while it is starting is ignored
        [A('h1', 'ms', 1), START, I(1, 'h1'), W(1, 'h1'), R, P('qm'), STOP, C(1, 'h1'), P('qm'), STOP, START, P('qm')],
        # stop and the next request from inside handlers
        [A('h1', 'q1', 1), A('h2', 'qm', 3), P('qm'), I(1, 'h2'), R, P('q1'), I(3, 'h1'), STOP, P('qm'), R, I(5, 'h2'), R],
        # a request which arrives after the mode's stopping event has completed but before the mode has cleaned up (its
        # dispatcher was created in the same batch as the stopping event's): not held, the mode starts afterwards by itself
        [A('h2', 'mp', 1), A('h1', 'qm', 3), START, P('qm'), I(2, 'h1'), STOP, P('qm'), R, I(3, 'h2'), R, I(4, 'h1'), R, P('qm'), STOP],
        [A('h2', 'mp', 1), A('h1', 'qm', 3), P('qm'), I(1, 'h1'), R, P('qm'), I(3, 'h1'), STOP, P('qm'), START, R, I(4, 'h2'), R,
         I(5, 'h1'), R, STOP],
        # the refused request's own handler waits: it completes when THAT wait is cleared, not when the mode stops
        [A('h1', 'qm', 1), P('qm'), P('qm'), I(3, 'h1'), W(3, 'h1'), R, STOP, I(1, 'h1'), W(1, 'h1'), R, C(1, 'h1'), C(3, 'h1')],
    ]


def _sig(prefix, job, fe, pe):
    name = lambda e: (e or {}).get('op') if e else None
    if len(job) > 4 and job[4] != 'none':
        def nm(e, dflt):
            if not e:
                return dflt
            if e.get('op') == 'mreq':
                return 'mreq(%s,%s)' % ('accepted' if e.get('acc') else 'refused', 'waits' if e.get('w') else 'no-wait')
            if e.get('op') == 'rest':
                return 'rest(mode-%s)' % e.get('mst')
            return e.get('op')
        return prefix + ':mode-%s:%s-after-%s%s' % (job[4], nm(fe, 'end'), nm(pe, 'start'), ':fwd' if job[1] else '')
    return prefix + ':queue:%s-after-%s%s' % (name(fe) or 'end', name(pe) or 'start', ':fwd' if job[1] else '')


def _what(job, info, fe, pe):
    t = 'queue event execution not explained by QueueEvents spec at line %s: %s (prev %s)' % (info.get('line'), fe, pe)
    if fe and fe.get('op') == 'mreq':
        t += '; start request (queue event %s) of a %s mode: the mode %s it and %s on that queue event' % (
            fe.get('k'), 'use_wait_queue' if job[4] == 'wq' else 'plain', 'accepted' if fe.get('acc') else 'refused',
            'left a wait' if fe.get('w') else 'left no wait')
    elif fe and fe.get('op') == 'rest' and len(job) > 4 and job[4] != 'none':
        t += '; at rest (mode %s) some queue event is neither complete nor held by an outstanding wait, or the mode is ' \
             'not in the state its queue events imply' % fe.get('mst')
    return t


def queue_traces(ctx, wd, check_args, prefix, num, depth, with_modes=True):
    """Queue-event schedules from the spec executed on the real EventManager and validated by QueueEventsTrace.
    check_args: also judge the kwarg a handler sees (handler-registered over posted) - part of C01's statement.
    with_modes: also schedules with a real mode (with / without use_wait_queue) listening on the start event "qm"."""
    with open(wd + '/Gen.cfg', 'w') as f:
        f.write(cfg_text('Spec', '{"q1", "q2", "q3"}', '{"h1", "h2", "h3", "h4"}', 6, 12, '', '{TRUE, FALSE}', 'FullCondSet', '{0, 1}'))
    nmode = (num * 3) // 7 if with_modes else 0
    wdm = tlc.prepare(ctx.scratch, 'QueueEvents', wd.rstrip('/').split('/')[-1] + '_genmode')
    with open(wdm + '/GenMode.cfg', 'w') as f:
        f.write(cfg_text('Spec', '{"qm", "ms", "mp"}', '{"h1", "h2", "h3", "h4"}', 8, 14, '', '{FALSE}', 'FullCondSet',
                         '{0, 1}', '{"wq", "nowq"}'))
    with concurrent.futures.ThreadPoolExecutor(2) as ex:
        f1 = ex.submit(tlc.simulate, wd, 'QueueEvents', 'Gen.cfg', num=num, depth=depth, seed=ctx.seed)
        f2 = ex.submit(tlc.simulate, wdm, 'QueueEvents', 'GenMode.cfg', num=nmode, depth=depth + 20, seed=ctx.seed + 5) if nmode else None
        behs, _ = f1.result()
        mbehs = f2.result()[0] if f2 else []
    rnd = random.Random(ctx.seed)
    jobs = []
    for b in behs:
        asyncs = [x for x in HIDS if rnd.random() < 0.25]
        falsers = [x for x in HIDS if x not in asyncs and rnd.random() < 0.3]
        jobs.append(([s['act'] for s in b], rnd.random() < 0.5, asyncs, falsers, 'none'))
    for s in handmade():
        jobs += [(s, False, [], [], 'none'), (s, True, [], ['h1'], 'none'), (s, False, ['h1', 'h3'], ['h2'], 'none'),
                 (s, True, ['h2'], ['h1', 'h3'], 'none')]
    nplain = len(jobs)
    for b in mbehs:
        asyncs = [x for x in HIDS if rnd.random() < 0.2]
        falsers = [x for x in HIDS if x not in asyncs and rnd.random() < 0.2]
        sticky = rnd.randrange(1, 10 ** 6) if rnd.random() < 0.5 else 0
        sched = [s['act'] for s in b]
        if sticky:
            # listeners on the mode's own queue events from the beginning
            sched = [{'op': 'qadd', 'h': 'h4', 'ev': 'ms', 'prio': 1}, {'op': 'qadd', 'h': 'h3', 'ev': 'mp', 'prio': 1}] + sched
        jobs.append((sched, rnd.random() < 0.5, [x for x in asyncs if not (sticky and x in ('h3', 'h4'))], falsers, b[0]['md']['kind'], sticky))
    if with_modes:
        for s in handmade_mode():
            jobs += [(s, False, [], [], 'wq'), (s, True, [], ['h1'], 'wq'), (s, False, ['h1'], ['h2'], 'wq'), (s, False, [], [], 'nowq'),
                     (s, True, ['h2'], ['h1', 'h3'], 'nowq')]
    traces = harness.pmap(exec_schedule, jobs, chunk=8)
    with open(wd + '/Trace.cfg', 'w') as f:
        f.write(cfg_text('TSpec', '{}', TRACE_HIDS, 10 ** 6, 10 ** 6, '  CheckArgs = %s\nINVARIANT Reporter\n' % ('TRUE' if check_args else 'FALSE'), '{}', '{}', '{}',
                         '{"none", "wq", "nowq"}'))
    v = tlc.validate_traces(wd, 'QueueEventsTrace', 'Trace.cfg', traces, batch=1200 if ctx.quick else 400)
    ctx.add_trace_verdict('QueueEventsTrace', v, len(traces))
    ctx.sample({'kind': 'queue-event-trace', 'trace': traces[0]['ev'][:16]})
    if with_modes:
        nreq = sum(1 for t in traces for e in t['ev'] if e['op'] == 'mreq')
        nref = sum(1 for t in traces for e in t['ev'] if e['op'] == 'mreq' and not e['acc'])
        ctx.coverage.setdefault('mode_start_requests', {}).update({'traces_with_mode': len(jobs) - nplain, 'requests': nreq, 'refused': nref})
        ctx.sample({'kind': 'use_wait_queue mode: second start request (queue event) while the mode is still starting, then stop',
                    'trace': traces[nplain + len(mbehs) + 5 * 2]['ev']})
    tlc.finish_diagnosis(wd, 'QueueEventsTrace', 'Trace.cfg', traces, v)
    for i, info in sorted(v.rejected.items()):
        if info.get('line') is None:
            continue
        fe = info.get('failing_event') or {}
        pe = info.get('prev_event') or {}
        rp = {'kind': 'queue', 'job': list(jobs[i]), 'trace': traces[i], 'info': info}
        ctx.violation(_sig(prefix, jobs[i], fe, pe), _what(jobs[i], info, fe, pe), rp)


def run(ctx):
    wd = tlc.prepare(ctx.scratch, 'QueueEvents', 'queueevents')
    evs = '{"q1"}' if ctx.quick else '{"q1", "q2"}'
    p12 = lambda t: t.replace('Prio = {1, 2, 3}', 'Prio = {1, 2}')
    with open(wd + '/MC.cfg', 'w') as f:
        f.write(p12(cfg_text('MCSpec', evs, '{"h1", "h2"}', 2, 4, MC_INV)))
    with open(wd + '/Live.cfg', 'w') as f:
        f.write(p12(cfg_text('LiveSpec', '{"q1", "q2"}', '{"h1", "h2"}', 2, 4, 'PROPERTY AllComplete\n')))
    # a mode on the start event "qm": one other handler (on the start event or on the mode's starting event, above or
    # below the mode's), up to MaxOps requests/handlers/direct starts, any number of effective stops
    mops = 3
    mkinds = '{"wq"}' if ctx.quick else '{"wq", "nowq"}'
    p13 = lambda t: t.replace('Prio = {1, 2, 3}', 'Prio = {1}' if ctx.quick else 'Prio = {1, 3}')
    with open(wd + '/MCMode.cfg', 'w') as f:
        f.write(p13(cfg_text('MCSpec', '{"qm", "ms"}', '{"h1"}', 2, mops, MC_INV + MODE_INV, kinds=mkinds)))
    with open(wd + '/LiveMode.cfg', 'w') as f:
        f.write(p13(cfg_text('LiveSpec', '{"qm", "ms"}', '{"h1"}', 2, 2 if ctx.quick else 3, 'PROPERTY AllComplete\n', kinds='{"wq"}')))
    # four independent small models: checked side by side
    with concurrent.futures.ThreadPoolExecutor(4) as ex:
        fs = [ex.submit(tlc.check, wd, 'QueueEventsMC', 'MC.cfg', workers=8, timeout=3000),
              ex.submit(tlc.check, wd, 'QueueEvents', 'Live.cfg', workers=4, timeout=1200),
              ex.submit(tlc.check, wd, 'QueueEventsMC', 'MCMode.cfg', workers=4, timeout=3000),
              ex.submit(tlc.check, wd, 'QueueEvents', 'LiveMode.cfg', workers=4, timeout=1200)]
        rs = [x.result() for x in fs]
    r = tlc.expect_ok(rs[0], 'QueueEvents design check')
    ctx.add_tlc('QueueEventsMC', r, {'Ev': evs, 'Hid': 2, 'MaxTasks': 2, 'MaxOps': 4})
    r = tlc.expect_ok(rs[1], 'QueueEvents liveness check')
    ctx.add_tlc('QueueEvents liveness (AllComplete under weak fairness)', r)
    r = tlc.expect_ok(rs[2], 'QueueEvents design check with a mode on the start event')
    ctx.add_tlc('QueueEventsMC (mode start requests)', r, {'Ev': '{"qm", "ms"}', 'Hid': 1, 'MaxTasks': 2, 'MaxOps': mops, 'ModeKinds': mkinds})
    r = tlc.expect_ok(rs[3], 'QueueEvents liveness check with a mode')
    ctx.add_tlc('QueueEvents liveness with a use_wait_queue mode (AllComplete: weak fairness, an active mode is eventually stopped)', r)
    ctx.coverage['monitors'] += ['CallbackOnce', 'CallbackAfterAll', 'NoOverlap', 'PrioOrder', 'AllComplete(liveness)', 'Rest',
                                 'StarterAfterStop', 'ModeHoldsOnlyStarter', 'StarterHeld', 'RefusedNoWait',
                                 'trace: mreq.acc/w, mstop.r, rest.mst equal the model\'s']
    queue_traces(ctx, wd, False, 'C02', 350 if ctx.quick else 5000, 50 if ctx.quick else 80)
    # ---- relay / boolean events through the EventBus spec
    rnd = random.Random(ctx.seed + 11)
    wd2 = tlc.prepare(ctx.scratch, 'EventBus', 'eventbus_rb')
    with open(wd2 + '/Gen.cfg', 'w') as f:
        f.write(c01.cfg_text('Spec', '{"e1", "e2"}', '{"h1", "h2", "h3", "h4"}', 6, 16, '{}',
                             '{"boolean", "relay"}', '{TRUE, FALSE}', 'FullCondSet', '{0, 1}', invs=False))
    behs, _ = tlc.simulate(wd2, 'EventBus', 'Gen.cfg', num=250 if ctx.quick else 4000, depth=60, seed=ctx.seed + 3)
    jobs2 = [([s['act'] for s in b], rnd.choice(c01.CTXS), 'direct') for b in behs]
    # the hand-written EventBus schedules too (relay chains, relay events posted without any kwargs, boolean stops)
    jobs2 += [(s, cx, 'direct') for s in c01.handmade() for cx in ('direct', 'delay')]
    tr2 = harness.pmap(c01.exec_schedule, jobs2, chunk=8)
    with open(wd2 + '/Trace.cfg', 'w') as f:
        f.write(c01.cfg_text('TSpec', '{}', '{}', 10 ** 6, 10 ** 6, '{"FastPathDrop"}', '{}', '{}', 'DefaultCondSet', '{}',
                             invs=False, trace=True))
    v2 = tlc.validate_traces(wd2, 'EventBusTrace', 'Trace.cfg', tr2)
    ctx.add_trace_verdict('EventBusTrace(relay/boolean schedules)', v2, len(tr2))
    tlc.finish_diagnosis(wd2, 'EventBusTrace', 'Trace.cfg', tr2, v2)
    for i, info in sorted(v2.rejected.items()):
        if info.get('line') is None:
            continue
        fe = info.get('failing_event') or {}
        pe = info.get('prev_event') or {}
        ctx.violation('C02:relay-boolean:%s-after-%s' % (fe.get('op', 'end'), pe.get('op', 'start')),
                      'relay/boolean execution not explained by EventBus spec at line %s: %s (prev %s)' % (
                          info.get('line'), fe, pe), {'kind': 'bus', 'job': list(jobs2[i]), 'trace': tr2[i], 'info': info})
    ctx.assumptions += ['every wait the schedule registers is eventually cleared by the driver (environment fairness)',
                        'relay/boolean traces are validated with the recorded C01 deviation FastPathDrop enabled']
    from drivers import c02_suite
    c02_suite.suite_traces(ctx)


def replay(ctx, data):
    d = data['replay']
    if d['kind'] == 'suite':
        from drivers import c02_suite
        return c02_suite.suite_traces(ctx, modules=[d['src'].split('::')[0].split('/')[-1][:-3]])
    if d['kind'] == 'queue':
        tr = exec_schedule(tuple(d['job']))
    elif d['kind'] == 'mode':
        # (recorded by an earlier version of this driver)
        tr = exec_schedule((handmade_mode()[1 if d.get('variant') == 'listener' else 0], False, [], [], 'wq'))
    else:
        return c01.replay(ctx, data)
    print('replay trace:', tr['ev'])
    wd = tlc.prepare(ctx.scratch, 'QueueEvents', 'queueevents')
    with open(wd + '/Trace.cfg', 'w') as f:
        f.write(cfg_text('TSpec', '{}', TRACE_HIDS, 10 ** 6, 10 ** 6, '  CheckArgs = %s\nINVARIANT Reporter\n' % ('TRUE' if data['sig'].startswith('C01') else 'FALSE'), '{}', '{}', '{}',
                         '{"none", "wq", "nowq"}'))
    v = tlc.validate_traces(wd, 'QueueEventsTrace', 'Trace.cfg', [tr])
    for i, info in v.rejected.items():
        ctx.violation(data['sig'], 'replayed: %s' % info, d)
