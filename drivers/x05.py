"""X05 - drop targets and drop target banks (specs/DropTargets): flags follow switches outside ignore windows, events once
per change, coils pulsed only when needed / once per bank reset, retries bounded, reset_on_complete, ball search."""
import os
import random

from lib import tlc, harness
from lib.tlaval import to_tla

LEVEL = 'model_checking'
EPS = 1e-6
U = 50              # ms per abstract time unit
BSDELAY = 2         # the 100 ms between the two pulses of a target's ball search phase 2 / 3, in units
KEYS = ('id', 'n', 'bank', 'tRc', 'tKc', 'tIgn', 'tMax', 'bCoils', 'bIgn', 'bMax', 'roc')
DEVIATION = 'reconcile_skips_bank'


def L(i, n, bank, tRc, tKc, tIgn=2, tMax=0, bCoils=(), bIgn=0, bMax=0, roc=0, single=False):
    # tRc / tKc: reset / knockdown coil (number within the layout, 0 = none) of every target; tIgn / bIgn: ignore_switch_ms of
    # the targets / the bank in units; tMax / bMax: max_reset_attempts (0 = not configured); bCoils: the bank's own coils
    # (single: the first one is configured as reset_coil, the others as reset_coils); roc: reset_on_complete in units
    return dict(id=i, n=n, bank=bank, tRc=list(tRc), tKc=list(tKc), tIgn=tIgn, tMax=tMax, bCoils=list(bCoils), bIgn=bIgn,
                bMax=bMax, roc=roc, single=single)


TABLE = [
    L(1, 1, False, [1], [2]),
    L(2, 1, False, [1], [0], tMax=2),
    L(3, 2, True, [0, 0], [0, 0], bCoils=[1], bIgn=3),
    L(4, 2, True, [1, 2], [0, 0], bIgn=3, bMax=2, roc=5),
    L(5, 2, True, [1, 1], [2, 3], tMax=2, bIgn=3),
    L(6, 2, True, [0, 0], [0, 0], bCoils=[1, 2], bIgn=0, roc=4, single=True),
    L(7, 3, True, [1, 1, 0], [0, 0, 2], bCoils=[3], bIgn=3, bMax=3, roc=6, single=True),
    L(8, 2, True, [1, 0], [2, 3], tIgn=3, tMax=3, bCoils=[4], bIgn=2, bMax=2, roc=3),
]
BY_ID = {c['id']: c for c in TABLE}


def cfg_rec(c):
    return {k: c[k] for k in KEYS}


def ncoils(c):
    return max([0] + c['tRc'] + c['tKc'] + c['bCoils'])


def write_machine(scratch):
    d = os.path.join(scratch, 'machines', 'droptargets')
    os.makedirs(d + '/config', exist_ok=True)
    sw, co, dt, db = [], [], [], []
    num = 0
    for c in TABLE:
        p = 'L%d' % c['id']
        for t in range(1, c['n'] + 1):
            num += 1
            sw.append('  %s_s%d:\n    number: %d\n' % (p, t, num))
        for k in range(1, ncoils(c) + 1):
            num += 1
            co.append('  %s_c%d:\n    number: %d\n    default_pulse_ms: 10\n    allow_enable: true\n' % (p, k, num))
        for t in range(1, c['n'] + 1):
            n = '%s_t%d' % (p, t)
            x = '  %s:\n    switch: %s_s%d\n' % (n, p, t)
            if c['tRc'][t - 1]:
                x += '    reset_coil: %s_c%d\n' % (p, c['tRc'][t - 1])
            if c['tKc'][t - 1]:
                x += '    knockdown_coil: %s_c%d\n' % (p, c['tKc'][t - 1])
            x += ('    reset_events: %s_reset\n    knockdown_events: %s_knock\n    enable_keep_up_events: %s_keepon\n'
                  '    disable_keep_up_events: %s_keepoff\n' % (n, n, n, n))
            x += '    ignore_switch_ms: %dms\n    reset_coil_max_wait_ms: 0\n    knockdown_coil_max_wait_ms: 0\n' % (c['tIgn'] * U)
            if c['tMax']:
                x += '    max_reset_attempts: %d\n' % c['tMax']
            dt.append(x)
        if c['bank']:
            x = '  %s_b:\n    drop_targets: %s\n' % (p, ', '.join('%s_t%d' % (p, t) for t in range(1, c['n'] + 1)))
            bc = list(c['bCoils'])
            if bc and c['single']:
                x += '    reset_coil: %s_c%d\n' % (p, bc.pop(0))
            if bc:
                x += '    reset_coils: %s\n' % ', '.join('%s_c%d' % (p, k) for k in bc)
            x += '    reset_events: %s_b_reset\n    ignore_switch_ms: %dms\n    reset_coil_max_wait_ms: 0\n' % (p, c['bIgn'] * U)
            if c['bMax']:
                x += '    max_reset_attempts: %d\n' % c['bMax']
            if c['roc']:
                x += '    reset_on_complete: %dms\n' % (c['roc'] * U)
            db.append(x)
    with open(d + '/config/config.yaml', 'w') as f:
        f.write('#config_version=6\nswitches:\n%scoils:\n%sdrop_targets:\n%sdrop_target_banks:\n%s'
                % (''.join(sw), ''.join(co), ''.join(dt), ''.join(db)))
    return d


def mc_modules(wd, ids):
    body = 'MCConfigs == {%s}\nMCNoDev == {}\nMCDev == {"%s"}\n' % (
        ',\n   '.join(to_tla(cfg_rec(BY_ID[i])) for i in ids), DEVIATION)
    with open(wd + '/DropTargetsMC.tla', 'w') as f:
        f.write('----------------------------- MODULE DropTargetsMC -----------------------------\nEXTENDS DropTargets\n%s'
                '=============================================================================\n' % body)
    with open(wd + '/DropTargetsGenMC.tla', 'w') as f:
        f.write('----------------------------- MODULE DropTargetsGenMC -----------------------------\nEXTENDS DropTargetsGen\n%s'
                '=============================================================================\n' % body)


INVARIANTS = ['TypeOK', 'CompleteIsSwitch', 'WindowEnds', 'CountsMatch', 'BankCompleteIsDown', 'AttemptsBounded']
PROPERTIES = ['TargetEventOncePerChange', 'NothingInsideWindow', 'ResetOnlyWhenDown', 'KnockdownOnlyWhenUp', 'RetryOnlyAfterFailure',
              'BankEventOncePerTransition', 'BankResetPulsesEachCoilOnce', 'BankRetryOnlyAfterFailure']


def mc_cfg(wd, name, spec, dev, maxtime, maxops, props=True, bank_state=False):
    with open(wd + '/' + name, 'w') as f:
        f.write('SPECIFICATION %s\nCONSTANTS\n  Configs <- MCConfigs\n  Deviations <- %s\n  BsDelay = %d\n  MaxTime = %d\n  MaxOps = %d\n'
                % (spec, 'MCDev' if dev else 'MCNoDev', BSDELAY, maxtime, maxops))
        if props:
            for i in INVARIANTS + (['BankStateOK'] if bank_state else []):
                f.write('INVARIANT %s\n' % i)
            for p in PROPERTIES:
                f.write('PROPERTY %s\n' % p)
        f.write('CHECK_DEADLOCK FALSE\n')


# ------------------------------------------------------------------------------------------------ execution on real mpf
_H = {}


class RecDriver:
    """Wraps the platform driver object of a coil and records every command that reaches it."""

    def __init__(self, inner, log, key):
        self._inner = inner
        self._log = log
        self._key = key

    def pulse(self, pulse_settings):
        self._log.append(('cmd', 'pulse') + self._key)
        return self._inner.pulse(pulse_settings)

    def enable(self, pulse_settings, hold_settings):
        self._log.append(('cmd', 'enable') + self._key)
        return self._inner.enable(pulse_settings, hold_settings)

    def timed_enable(self, pulse_settings, hold_settings):
        self._log.append(('cmd', 'timed_enable') + self._key)
        return self._inner.timed_enable(pulse_settings, hold_settings)

    def disable(self):
        self._log.append(('cmd', 'disable') + self._key)
        return self._inner.disable()

    def __getattr__(self, item):
        return getattr(self._inner, item)


def _mk(log, e, lid, t):
    def hnd(**kwargs):
        log.append(('ev', e, lid, t))
    return hnd


def _boot(mdir):
    h = harness.boot(None, machine_dir=mdir)
    log = []
    m = h.machine
    for c in TABLE:
        p = 'L%d' % c['id']
        for k in range(1, ncoils(c) + 1):
            coil = m.coils['%s_c%d' % (p, k)]
            coil.hw_driver = RecDriver(coil.hw_driver, log, (c['id'], k))
        for t in range(1, c['n'] + 1):
            for e in ('down', 'up'):
                m.events.add_handler('drop_target_%s_t%d_%s' % (p, t, e), _mk(log, e, c['id'], t))
        if c['bank']:
            for e in ('down', 'up', 'mixed'):
                m.events.add_handler('drop_target_bank_%s_b_%s' % (p, e), _mk(log, 'bank_' + e, c['id'], 0))
    for _ in range(4):
        h.advance_time_and_run(0)
    del log[:]
    return h, log


def exec_schedule(job):
    mdir, lid, sched, world = job
    try:
        return _exec(mdir, lid, sched, world)
    except Exception as ex:  # pylint: disable=broad-except
        import traceback
        return {'cfg': cfg_rec(BY_ID[lid]), 'ev': [{'op': 'crash', 'what': repr(ex)[:300]}], '_tb': traceback.format_exc()[-1500:]}
    finally:
        h = _H.pop('h', None)
        if h is not None:
            harness.shutdown(h)


def _exec(mdir, lid, sched, world):
    """One schedule on a freshly booted machine.  world: the outcomes (list of booleans, used cyclically) of the physical
    effect of a coil pulse on each target it acts on - the world double flips the target's switch right after the step in
    which the pulse was seen (i.e. inside the ignore window) iff the outcome is True."""
    h = None
    for attempt in range(3):
        try:
            h, log = _boot(mdir)
            break
        except Exception as ex:  # the machine did not boot (wall-clock start timeout on an overloaded host): not about drop targets
            if attempt == 2:
                return {'cfg': cfg_rec(BY_ID[lid]), 'ev': [{'op': 'crash', 'what': 'boot: ' + repr(ex)[:200]}], '_boot': True}
    _H['h'] = h
    m = h.machine
    c = BY_ID[lid]
    p = 'L%d' % lid
    T = range(1, c['n'] + 1)
    tg = {t: m.drop_targets['%s_t%d' % (p, t)] for t in T}
    swn = {t: '%s_s%d' % (p, t) for t in T}
    bank = m.drop_target_banks['%s_b' % p] if c['bank'] else None
    ev = []
    wi = [0]

    def settle():
        for _ in range(4):
            h.advance_time_and_run(0)

    def obs():
        mine = [x for x in log if x[2] == lid]
        del log[:]
        rec = {'op': 'obs', 'ev': [[x[1], x[3]] for x in mine if x[0] == 'ev'],
               'cmds': [[x[1], x[3]] for x in mine if x[0] == 'cmd'],
               'comp': [bool(tg[t].complete) for t in T]}
        if bank is not None:
            rec.update(bDown=int(bank.down), bUp=int(bank.up), bState=str(bank.state.value), bComp=bool(bank.complete),
                       bm=any(bank in m.switches[swn[t]]._mutes for t in T))
        ev.append(rec)
        return rec

    def active(t):
        return bool(m.switch_controller.is_active(m.switches[swn[t]]))

    def switch(t, v):
        if active(t) == bool(v):
            return
        m.switch_controller.process_switch(swn[t], 1 if v else 0, logical=True)
        settle()
        ev.append({'op': 'sw', 't': t, 'v': bool(v)})
        obs()

    def react(rec):
        """The world double: what the coils pulsed in this step do to the targets."""
        for kind, k in sorted(rec['cmds']):     # (a bank pulses a Python set of coils: the order is not defined)
            if kind != 'pulse':
                continue
            want = {}
            for t in T:
                if c['tKc'][t - 1] == k:
                    want[t] = True
                if c['tRc'][t - 1] == k or k in c['bCoils']:
                    want[t] = False
            for t in sorted(want):
                if active(t) != want[t]:
                    ok = world[wi[0] % len(world)] if world else False
                    wi[0] += 1
                    if ok:
                        switch(t, want[t])

    for a in list(sched) + [{'op': 'adv'}] * 8:
        op = a['op']
        if op in ('init', 'tfire', 'bfire', 'rocfire', 'bsfire'):
            continue
        if op == 'sw':
            switch(a['t'], a['v'])
            continue
        rec = {'op': op}
        if op == 'adv':
            h.advance_time_and_run(U * (1 + EPS) / 1000.0)
        elif op in ('treset', 'knock', 'keepon', 'keepoff'):
            rec['t'] = a['t']
            m.events.post('%s_t%d_%s' % (p, a['t'], {'treset': 'reset'}.get(op, op)))
        elif op == 'tbs':
            rec.update(t=a['t'], ph=a['ph'])
            # the callback the target registered with its playfield's ball search
            tg[a['t']]._ball_search(a['ph'], 1)     # pylint: disable=protected-access
        elif op == 'breset':
            m.events.post('%s_b_reset' % p)
        elif op == 'bbs':
            rec.update(ph=a['ph'], it=a['it'])
            bank._ball_search(a['ph'], a['it'])     # pylint: disable=protected-access
        else:
            raise ValueError(op)
        settle()
        ev.append(rec)
        react(obs())
    return {'cfg': cfg_rec(c), 'ev': ev, '_lid': lid}


def handmade():
    """(layout, schedule, world outcomes)."""
    A = {'op': 'adv'}
    S = lambda t, v: {'op': 'sw', 't': t, 'v': v}
    R = lambda t: {'op': 'treset', 't': t}
    K = lambda t: {'op': 'knock', 't': t}
    BS = lambda t, ph: {'op': 'tbs', 't': t, 'ph': ph}
    BR = {'op': 'breset'}
    BBS = lambda ph, it: {'op': 'bbs', 'ph': ph, 'it': it}
    KO = lambda t, on: {'op': 'keepon' if on else 'keepoff', 't': t}
    F, Y = [False], [True]
    return [
        # reset of a target that is up / down; knockdown of a target that is down / up; keep up
        (1, [R(1), S(1, True), R(1), A, A, A, K(1), A, A, A, K(1), A, A, A], Y),
        (1, [S(1, True), R(1), A, A, A, R(1), A, A, A, K(1), A], F),
        (1, [KO(1, True), A, KO(1, False), S(1, True), KO(1, True), A, KO(1, False)], F),
        # bounce inside the ignore window: nothing posted, reconciled at its end
        (1, [S(1, True), R(1), S(1, False), S(1, True), S(1, False), A, A, A], F),
        (1, [K(1), S(1, True), S(1, False), A, A, A, K(1), A, S(1, True), A, A], F),
        # a second reset inside the window restarts it
        (1, [S(1, True), R(1), A, R(1), A, A, A], F),
        # retries: never comes up -> max_reset_attempts pulses, then gives up; comes up at the second attempt
        (2, [S(1, True), R(1), A, A, A, A, A, A, A, A], F),
        (2, [S(1, True), R(1), A, A, A, A, A, A, A, A], [False, True]),
        (2, [S(1, True), R(1), A, R(1), A, A, A, A, A, A, A], F),
        (8, [S(1, True), R(1), A, A, A, A, A, A, A, A, A, A, A, A], F),
        (8, [S(1, True), R(1), A, A, A, A, A, A, A, A, A, A, A, A], [False, False, True]),
        # ball search of a target, all phases, up and down
        (1, [BS(1, 1), A, A, A, BS(1, 2), A, A, A, A, A, BS(1, 3), A, A, A, A, A], F),
        (1, [S(1, True), BS(1, 1), A, A, A, BS(1, 2), A, A, A, A, A, BS(1, 3), A, A, A, A, A], F),
        (1, [BS(1, 2), A, A, A, A, A, A], Y),
        (2, [BS(1, 1), A, A, A, BS(1, 2), A, A, A, S(1, True), BS(1, 3), A, A, A, BS(1, 1), A, A, A], F),
        (5, [BS(2, 3), A, A, A, A, A, S(1, True), BS(1, 2), A, A, A, A, A], Y),
        # bank: down / mixed / up, reset when nothing is down, when one / all are down
        (3, [BR, S(1, True), S(2, True), S(1, False), S(2, False), A], F),
        (3, [S(1, True), BR, A, A, A, A, S(2, True), BR, A, A, A, A], Y),
        (3, [S(1, True), S(2, True), BR, A, S(1, False), A, A, A, A], F),
        (3, [S(1, True), BBS(1, 1), A, A, A, A, BBS(2, 2), A, A, A, A], F),
        # members with coils of their own: only the coils of the members that are down; bank retries; reset_on_complete
        (4, [S(1, True), BR, A, A, A, A, A, A, A, A], F),
        (4, [S(1, True), S(2, True), A, A, A, A, A, A, A, A, A, A, A, A], [True, False, False, True]),
        (4, [S(1, True), S(2, True), A, A, S(1, False), A, A, A, A, A, A, A, A], F),
        (4, [S(1, True), S(2, True), A, S(1, False), S(2, False), A, A, A, A, A, A], F),
        (4, [S(1, True), S(2, True), R(1), A, A, A, A, A, A, A, A, A], Y),
        # members sharing one reset coil: one pulse; knockdown of the last member
        (5, [S(1, True), S(2, True), BR, A, A, A, A], Y),
        (5, [S(1, True), K(2), A, A, A, BR, A, A, A, A], Y),
        (5, [S(1, True), S(2, True), R(1), A, A, A, A, A, A], Y),
        (5, [S(1, True), S(2, True), R(1), BR, A, A, A, A, A, A], [True, False]),
        # bank without ignore window, reset_coil and reset_coils; reset_on_complete
        (6, [S(1, True), BR, S(1, False), S(2, True), S(1, True), A, A, A, A, A, A], F),
        (6, [S(1, True), S(2, True), A, A, A, A, A, A], Y),
        (6, [S(1, True), S(2, True), S(1, False), S(1, True), A, A, A, A, A, A], Y),
        # three members
        (7, [S(1, True), S(2, True), S(3, True), A, A, A, A, A, A, A, A, A, A, A, A, A, A, A, A], [False, True, False]),
        (7, [S(3, True), K(3), S(1, True), BR, A, A, A, A, BBS(1, 2), A, A, A, A, A, A, A, A], F),
        (8, [S(1, True), S(2, True), A, A, A, A, A, A, A, A, A, A, A, A], [False, True, False, False]),
        (8, [S(1, True), K(2), A, A, A, A, A, A, A, A, A, A], Y),
    ]


TRACE_CFG = """SPECIFICATION TSpec
CONSTANTS
  Configs <- TConfigs
  Deviations <- %s
  BsDelay = %d
  MaxTime = 100000000
  MaxOps = 100000000
INVARIANT Reporter
INVARIANT CompleteIsSwitch
INVARIANT CountsMatch
INVARIANT AttemptsBounded
CHECK_DEADLOCK FALSE
"""


def stale(tr):
    """Observations in which the bank's state is not the one its members' flags imply although no bank reset is running."""
    n = 0
    for e in tr['ev']:
        if e.get('op') == 'obs' and 'bState' in e and not e['bm']:
            d = sum(e['comp'])
            if e['bState'] != ('down' if d == len(e['comp']) else 'up' if d == 0 else 'mixed'):
                n += 1
    return n


def run(ctx):
    q = ctx.quick
    mdir = write_machine(ctx.scratch)
    wd = tlc.prepare(ctx.scratch, 'DropTargets', 'droptargets')
    # (1) the statement on the model as documented (no deviation): every invariant including BankStateOK
    allids = [c['id'] for c in TABLE]
    ids = [i for i in allids if BY_ID[i]['n'] <= 2] if q else allids     # (quick: the three-member bank only in run (2))
    mc_modules(wd, ids)
    mt, mo = (5, 4) if q else (7, 5)
    mc_cfg(wd, 'MC.cfg', 'Spec', False, mt, mo, bank_state=True)
    r = tlc.expect_ok(tlc.check(wd, 'DropTargetsMC', 'MC.cfg', timeout=3000), 'DropTargets design check (as documented)')
    ctx.add_tlc('DropTargetsMC documented', r, {'layouts': ids, 'MaxTime': mt, 'MaxOps': mo, 'Deviations': []})
    # (2) the model of the code as it is (deviation enabled): everything but BankStateOK
    mt2, mo2 = (5, 3) if q else (6, 5)
    ids = allids
    mc_modules(wd, ids)
    mc_cfg(wd, 'MCdev.cfg', 'Spec', True, mt2, mo2)
    r = tlc.expect_ok(tlc.check(wd, 'DropTargetsMC', 'MCdev.cfg', timeout=3000), 'DropTargets design check (code as is)')
    ctx.add_tlc('DropTargetsMC code-as-is', r, {'layouts': ids, 'MaxTime': mt2, 'MaxOps': mo2, 'Deviations': [DEVIATION]})
    ctx.coverage['monitors'] += INVARIANTS + ['BankStateOK'] + PROPERTIES
    # schedules
    mc_cfg(wd, 'Gen.cfg', 'GSpec', True, 40, 30, props=False)
    behs, _ = tlc.simulate(wd, 'DropTargetsGenMC', 'Gen.cfg', num=300 if q else 6000, depth=44 if q else 70, seed=ctx.seed)
    ctx.log('schedules generated: %d' % len(behs))
    # reachability probe: every kind of step of the model (calls, environment, each kind of timer) occurs in the schedules
    kinds = {st['act']['op'] for b in behs for st in b}
    missing = {'sw', 'treset', 'knock', 'keepon', 'keepoff', 'tbs', 'breset', 'bbs', 'adv', 'tfire', 'bfire', 'rocfire', 'bsfire'} - kinds
    if missing:
        raise tlc.TLCError('steps never taken by the generated schedules: %s' % sorted(missing))
    rnd = random.Random(ctx.seed)
    jobs = []
    for b in behs:
        # the Draw steps of the generator leave `act` unchanged (and pick # 0): only the steps that did something
        sched = [st['act'] for k, st in enumerate(b) if k > 0 and st['pick'] == 0]
        pw = rnd.choice([0.0, 0.3, 0.6, 1.0])
        jobs.append((mdir, b[0]['cfg']['id'], sched, [rnd.random() < pw for _ in range(12)]))
    jobs += [(mdir, lid, sch, w) for lid, sch, w in handmade()]
    traces = harness.pmap(exec_schedule, jobs, chunk=8, item_timeout=120)
    ctx.log('schedules executed: %d' % len(traces))
    # a machine that did not even boot says nothing about the property: once more, one at a time; then it is a machinery failure
    for i, t in enumerate(traces):
        if t.get('_boot') or t.get('_harness'):
            traces[i] = exec_schedule(jobs[i])
            if traces[i].get('_boot'):
                raise tlc.TLCError('the test machine does not boot: %s' % traces[i]['ev'])
    with open(wd + '/Trace.cfg', 'w') as f:
        f.write(TRACE_CFG % ('TDeviations', BSDELAY))
    v = tlc.validate_traces(wd, 'DropTargetsTrace', 'Trace.cfg', traces)
    tlc.finish_diagnosis(wd, 'DropTargetsTrace', 'Trace.cfg', traces, v)
    ctx.add_trace_verdict('DropTargetsTrace', v, len(traces))
    ctx.coverage['layouts_exercised'] = sorted({j[1] for j in jobs})
    cnt = lambda f: sum(1 for t in traces for e in t['ev'] if f(e))
    ctx.coverage['coil_pulses_observed'] = sum(len([x for x in e['cmds'] if x[0] == 'pulse']) for t in traces for e in t['ev'] if e.get('op') == 'obs')
    ctx.coverage['switch_changes'] = cnt(lambda e: e.get('op') == 'sw')
    ctx.coverage['bank_events'] = sum(len([x for x in e['ev'] if x[0].startswith('bank_')]) for t in traces for e in t['ev'] if e.get('op') == 'obs')
    ctx.coverage['steps'] = cnt(lambda e: e.get('op') not in ('obs', None))
    ctx.sample({'kind': 'drop-target-trace', 'cfg': traces[-1]['cfg'], 'trace': traces[-1]['ev'][:12]})
    ns = sum(stale(t) for t in traces)
    nt = sum(1 for t in traces if stale(t))
    ctx.notes.append('deviation %s (a member changed by the reconciliation at the end of its OWN ignore window - after reset / knockdown '
                     '/ ball search of the target - updates the bank\'s counts but neither its state nor its events): bank state '
                     'observed stale in %d observations of %d traces (of %d)' % (DEVIATION, ns, nt, len(traces)))
    for i, info in sorted(v.rejected.items()):
        if info.get('line') is None:
            continue
        fe = info.get('failing_event') or {}
        pe = info.get('prev_event') or {}
        if info.get('reason') == 'monitor':
            sig = 'X05:monitor:%s' % info.get('monitor')
            what = 'drop target execution violates %s at line %s (cfg %s)' % (info.get('monitor'), info.get('line'), traces[i]['cfg'])
        else:
            sig = 'X05:L%s:%s' % (traces[i]['cfg'].get('id'), pe.get('op', '?') if fe.get('op') == 'obs' else fe.get('op', '?'))
            what = 'drop target execution not explained by DropTargets spec at line %s: %s (prev %s; cfg %s)' % (
                info.get('line'), fe, pe, traces[i]['cfg'])
        ctx.violation(sig, what, {'lid': jobs[i][1], 'sched': jobs[i][2], 'world': jobs[i][3], 'trace': traces[i], 'info': info})
    ctx.assumptions += ['control events are posted through the real event bus; ball search is the callback the device registered '
                        'with its playfield, called directly', 'coil commands are observed at the platform driver (hw_driver) of the '
                        'virtual platform; the world double flips a target switch right after the step in which the coil was pulsed',
                        'reset_coil_max_wait_ms / knockdown_coil_max_wait_ms are 0: no pulse is postponed by the power supply',
                        'one abstract time unit = %d ms; every schedule runs on a freshly booted machine' % U]


def replay(ctx, data):
    d = data['replay']
    mdir = write_machine(ctx.scratch)
    tr = exec_schedule((mdir, d['lid'], d['sched'], d['world']))
    for e in tr['ev']:
        print(e)
