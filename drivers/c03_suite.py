"""C03 — the repository's own tests as trace sources for switches: the life of every switch the tests touch (recorded by
lib/suite_rec.py: reports with the resulting logical / raw state, handler registrations and removals, every handler call,
times) must be a behaviour of Switches (SwitchesSuiteTrace): handlers fire once per real change, hold-time handlers at
change + ms iff the switch stayed put, removed handlers never."""
from lib import tlc

SUITE_CFG = """SPECIFICATION TSpec
CONSTANTS
  Sw = {"s_no", "s_nc"}
  Inv <- TInv
  Hid = {}
  Hold = {}
  HeldSw = "none"
  HeldMs = 0
  MaxTime = 0
  MaxOps = 1000000
  Lax = 2
  MuteSw = {"s_no", "s_nc"}
  LongAgo <- TLongAgo
INVARIANT Reporter
CHECK_DEADLOCK FALSE
"""


def suite_traces(ctx, modules=None):
    from lib import suite
    mods = modules or (suite.QUICK_MODULES if ctx.quick else suite.all_modules())
    segs, st = suite.record(ctx, mods, 's')
    ctx.log('suite recorder (switches): %d modules, %d switch lives (%d distinct, %d lines)' % (
        st.get('modules', 0), st.get('s:segments', 0), len(segs), sum(len(t['ev']) for t in segs)))
    if not segs or st.get('s:segments', 0) < 100 * min(1, len(mods) // 10):
        raise tlc.TLCError('suite recorder produced no / too few switch traces: %s' % {k: v for k, v in st.items() if k != 'module_results'})
    wd = tlc.prepare(ctx.scratch, 'Switches', 'switches_suite')
    with open(wd + '/Suite.cfg', 'w') as f:
        f.write(SUITE_CFG)
    v = tlc.validate_traces(wd, 'SwitchesSuiteTrace', 'Suite.cfg', segs, workers=8, batch=3000)
    ctx.add_trace_verdict('SwitchesSuiteTrace (switches recorded from the repository tests)', v, len(segs))
    ctx.coverage['suite'] = {k: v2 for k, v2 in st.items() if k != 'module_results'}
    ctx.sample({'kind': 'suite-switch', 'src': segs[0]['_src'], 'reg0': segs[0]['reg0'][:4], 'trace': segs[0]['ev'][:10]})
    if v.rejected:
        tlc.finish_diagnosis(wd, 'SwitchesSuiteTrace', 'Suite.cfg', segs, v)
        for i, info in sorted(v.rejected.items()):
            fe = info.get('failing_event') or {}
            pe = info.get('prev_event') or {}
            ctx.violation('C03:suite:%s-after-%s' % (fe.get('op', 'end'), pe.get('op', 'start')),
                          'switch recorded from %s is not a behaviour of Switches at line %s: %s (prev %s)' % (
                              segs[i]['_src'], info.get('line'), fe, pe),
                          {'kind': 'suite', 'src': segs[i]['_src'], 'trace': dict(segs[i]), 'info': info})
    return len(segs)
