"""C17 — shows run on schedule without drift and clean up after themselves (specs/Shows).

Scenario table -> generated machines (show files, show pools, show_player entries; one machine per value of
mpf: default_show_sync_ms) -> generated MC module ->
exhaustive TLC check -> simulated schedules -> execution on real mpf shows in virtual time with injected
timer lateness (+ differential runs without each show) -> trace validation against ShowsTrace.
"""
import math
import os
import random

from lib import tlc, harness
from lib.tlaval import to_tla

LEVEL = 'model_checking'
EPS = 1e-6
NL = 2
PALETTE = ['000000', 'ff0000', '00ff00', '0000ff', 'ffffff']
PALRGB = {tuple(int(c[i:i + 2], 16) for i in (0, 2, 4)) for c in PALETTE}      # = Pal in specs/Shows/Shows.tla
KINDS = ('played', 'looped', 'completed', 'stopped')
XKINDS = ('advanced', 'stepped_back', 'paused', 'resumed', 'updated')
SLOT_KEYS = ('durs', 'lt', 'col', 'coil', 'sp', 'loops', 'start', 'sync', 'manual', 'prio', 'key', 'blockq',
             'pool', 'via', 'form', 'tok', 'share', 'same', 'quiet', 'fd')


def S(durs, lt=None, col=None, coil=None, sp=(1, 1), loops=0, start=1, sync=0, manual=False, prio=1, key='a',
      blockq=False, pool=False, via='player', form='d', tok=False, share=0, quiet=False, fd=None):
    """One show slot: step durations in units (-1: hold), light (0: none) / colour / coil (1: enable) per step.

    sync: the sync grid of the request in units; 0: an explicit sync_ms 0; -1: sync_ms is not given (the machine-wide
    mpf: default_show_sync_ms applies);
    tok: lights, colours and the step events of the show file are tokens filled in by the play request;
    share=n: the slot plays the show file of slot n (with its own token values);
    quiet: the request names no events_when_played / events_when_stopped (show_player may then keep a running instance
    of the very same config instead of replacing it);
    fd: per step, the fade the step gives for its light in units (-1: none given - the light's default fade applies).
    """
    n = len(durs)
    return dict(durs=list(durs), lt=list(lt if lt is not None else [1] * n),
                col=list(col if col is not None else [(i % 4) + 1 for i in range(n)]),
                coil=list(coil if coil is not None else [0] * n), sp=list(sp), loops=loops, start=start, sync=sync,
                manual=manual, prio=prio, key=key, blockq=blockq, pool=pool, via=via, form=form, tok=tok, share=share,
                same=0, quiet=quiet, fd=list(fd if fd is not None else [-1] * n))


def AGAIN(n):
    """A slot that is the SAME play request as slot n (the same show_player entry posted again)."""
    return {'same': n}


def CFG(i, unit, *slots, fade=0, fades=None, dsync=0):
    """A scenario: unit length in ms, one to four show slots, default fade of light l2 in units (or fades = those of
    l1 and l2), the machine-wide default_show_sync_ms in units (0: the machine configures none)."""
    sh = []
    for s in slots:
        if set(s) == {'same'}:
            o = sh[s['same'] - 1]
            assert o['via'] == 'player' and not o['same']
            s = dict(o, durs=list(o['durs']), lt=list(o['lt']), col=list(o['col']), coil=list(o['coil']),
                     sp=list(o['sp']), fd=list(o['fd']), same=s['same'])
        sh.append(s)
    # every schedule starts at a multiple of 16 s: all sync grids (whole ms) must divide it
    for g in [dsync] + [s['sync'] for s in sh]:
        assert g <= 0 or (abs(g * unit - round(g * unit)) < 1e-9 and 16000 % round(g * unit) == 0), (i, g)
    return dict(id=i, unit=unit, sh=sh, fades=list(fades) if fades is not None else [0, fade], dsync=dsync)


TABLE = [
    # --- single shows: timing, loops, start step, speed, forms of step times, tokens
    CFG(1, 100, S([1, 2, 1], lt=[1, 2, 1], loops=0)),
    CFG(2, 50, S([2, 4], sp=(2, 1), loops=1, start=2, form='abs')),
    CFG(3, 100, S([1, 1, 2], lt=[1, 1, 2], sp=(1, 2), loops=-1, start=-1, form='rel', tok=True)),
    CFG(4, 250, S([1, 2], loops=-1, sync=2, prio=3)),
    CFG(5, 100, S([-1, -1, -1], lt=[1, 2, 1], loops=0, manual=False)),
    CFG(6, 100, S([1, 1, 1], loops=1, manual=True, start=2)),
    CFG(7, 100, S([2, 2], loops=0, blockq=True, pool=True)),
    CFG(8, 200, S([2, 4, 2], lt=[1, 2, 0], loops=2, via='direct', tok=True)),
    CFG(9, 100, S([1], loops=2)),
    # --- two concurrent shows on the same lights, different priorities and keys
    CFG(10, 100, S([1, 2], lt=[1, 2], loops=-1, prio=1, key='a'), S([2, 1], lt=[1, 1], col=[3, 4], loops=0, prio=5, key='b')),
    CFG(11, 100, S([2, 2, 2], lt=[1, 1, 2], loops=1, prio=7, key='a', sp=(2, 1)),
        S([1, 3], lt=[2, 1], col=[4, 2], loops=-1, prio=2, key='b', via='direct')),
    # --- the same show_player key: the second play replaces the first (pool + sync_ms: stopped in sync)
    CFG(12, 125, S([1, 1], loops=-1, prio=1, key='a'), S([2, 1], col=[3, 4], loops=-1, prio=1, key='a', pool=True, sync=2)),
    CFG(13, 250, S([1, 2], loops=-1, prio=2, key='a', sync=1), S([1], col=[4], lt=[2], loops=0, prio=2, key='a', pool=True, sync=4)),
    CFG(14, 100, S([1, 1], loops=-1, prio=1, key='a', pool=True), S([2], col=[3], loops=1, prio=1, key='a', pool=True)),
    # --- a queue event blocked by a pool show, next to another show
    CFG(15, 100, S([1, 2], loops=0, blockq=True, pool=True, prio=4, key='a'), S([1, 1], lt=[2, 1], col=[2, 2], loops=-1, prio=1, key='b')),
    CFG(16, 250, S([2], loops=1, blockq=True, pool=True, sync=2, prio=4, key='a')),
    # --- coils enabled by shows
    CFG(17, 100, S([1, 2, 1], coil=[1, 0, 0], loops=0)),
    # --- a light with a default fade: fade-in of steps, fade-out entries left by the stop
    CFG(18, 100, S([2, 3], lt=[2, 2], loops=1), fade=2),
    CFG(19, 100, S([3, 1], lt=[2, 1], loops=-1, prio=1, key='a'), S([2, 2], lt=[2, 2], col=[3, 4], loops=0, prio=6, key='b'), fade=1),
    # --- the same show file played twice with different token values (per-token-set step cache)
    CFG(21, 100, S([1, 2], lt=[1, 2], col=[1, 2], loops=-1, prio=1, key='a', tok=True),
        S([1, 2], lt=[2, 1], col=[3, 4], loops=1, prio=3, key='b', tok=True, share=1, via='direct')),
    # --- speeds that put the steps off the millisecond grid (unit = 100/3 ms, 100/7 ms; step times are whole units)
    CFG(22, 100.0 / 3, S([3, 6, 3], lt=[1, 2, 1], sp=(3, 1), loops=-1)),
    CFG(23, 100.0 / 7, S([7, 14], lt=[1, 2], sp=(7, 1), loops=3, start=2)),
    # --- two shows holding the same coil
    CFG(20, 100, S([1, 2], coil=[1, 0], loops=-1, prio=1, key='a'), S([2, 1], lt=[2, 2], coil=[0, 1], loops=0, prio=2, key='b')),
    # --- the same play request arriving again (switch bounce, event posted twice): to a show that waits for its sync
    #     point (alone, or about to replace a running show of another config), to a running show; requests that name
    #     played / stopped events (always a new instance) and quiet ones (show_player may keep / advance the instance)
    CFG(30, 250, S([1, 2], loops=-1, key='a', quiet=True), S([2, 1], col=[3, 4], loops=-1, key='a', pool=True, sync=2, quiet=True),
        AGAIN(2)),
    CFG(31, 125, S([1, 1], lt=[1, 2], loops=-1, key='a', sync=2), AGAIN(1), AGAIN(1)),
    CFG(32, 100, S([1, 1, 1], lt=[1, 2, 1], loops=1, manual=True, start=2, key='a', quiet=True), AGAIN(1)),
    CFG(33, 100, S([2, 2], lt=[1, 2], loops=-1, key='a', quiet=True), AGAIN(1), AGAIN(1),
        S([1, 1], lt=[2, 2], col=[3, 4], loops=0, key='a', sync=4, pool=True)),
    CFG(34, 100, S([1, 2], loops=2, key='a', sync=2, quiet=True, start=2), AGAIN(1),
        S([3], lt=[2], col=[4], loops=-1, key='b', prio=4)),
    # --- machines with a default_show_sync_ms: requests that give no sync_ms (the default applies), an explicit 0
    #     (starts at once), their own grid; replacement between them; direct Show.play() with sync_ms None / 0
    CFG(40, 100, S([1, 2], lt=[1, 2], loops=-1, sync=-1), dsync=2),
    CFG(41, 100, S([2, 4], lt=[1, 2], loops=1, sync=0, sp=(2, 1), form='abs'),
        S([2, 1], lt=[2, 1], col=[3, 4], loops=0, sync=-1, key='b', via='direct', prio=3), dsync=2),
    CFG(42, 250, S([1, 1], loops=-1, sync=-1, key='a'), S([2], col=[3], loops=-1, sync=0, key='a', pool=True),
        S([1, 2], lt=[2, 2], col=[4, 2], loops=0, sync=0, key='c', via='direct', tok=True), dsync=2),
    CFG(43, 125, S([2, 1], loops=-1, sync=0, key='a', quiet=True), S([1, 1], col=[3, 4], loops=-1, sync=-1, key='a', quiet=True),
        AGAIN(2), dsync=4),
    CFG(44, 50, S([2, 2], lt=[1, 2], loops=0, sync=2, key='a', blockq=True, pool=True),
        S([1], lt=[2], col=[4], loops=2, sync=-1, key='b', prio=3), dsync=4),
    # --- several shows at different priorities on the SAME light, on lights that fade (default fade of the light and / or
    #     fades given by the steps): a show that stops or completes UNDER another one that holds an opaque colour on the
    #     light for longer than the fade, the top one first, both at once, the covered one played again under the cover;
    #     then a later show below everything that fades in as on a clean light
    CFG(50, 100, S([2, 2], lt=[2, 2], col=[1, 2], loops=-1, prio=1, key='a'),
        S([-1], lt=[2], col=[3], loops=0, prio=5, key='b', via='direct'),
        S([4], lt=[2], col=[2], fd=[3], loops=1, prio=0, key='c'), fade=2),
    CFG(51, 100, S([1, 1], lt=[1, 1], col=[1, 4], loops=0, prio=2, key='a'),
        S([3, 3], lt=[1, 2], col=[3, 4], loops=-1, prio=6, key='b'), AGAIN(1), fades=[1, 0]),
    CFG(52, 100, S([2, 1], lt=[1, 2], col=[1, 2], fd=[2, -1], loops=-1, prio=1, key='a'),
        S([1, 2], lt=[2, 1], col=[3, 4], fd=[-1, 0], loops=-1, prio=4, key='b', via='direct'),
        S([3, 3], lt=[1, 2], col=[2, 1], loops=1, prio=8, key='c'), fades=[1, 2]),
    CFG(53, 100, S([3], lt=[1], col=[1], fd=[2], loops=-1, prio=1, key='a', quiet=True),
        S([2, 2], lt=[1, 1], col=[3, 4], fd=[1, 0], loops=0, prio=3, key='b'), AGAIN(1)),
    CFG(54, 125, S([1, 1], lt=[1, 1], col=[1, 2], loops=-1, prio=1, key='a'),
        S([2], lt=[1], col=[3], loops=-1, prio=2, key='a', pool=True, sync=2),
        S([-1], lt=[1], col=[4], fd=[0], loops=0, prio=7, key='b', via='direct'), fades=[2, 0]),
    CFG(55, 100, S([1, 1], lt=[2, 2], col=[1, 2], loops=-1, prio=1, key='a'),
        S([-1], lt=[2], col=[3], loops=0, prio=5, key='b'), fade=1),
    CFG(56, 100, S([1], lt=[1], col=[1], fd=[2], loops=1, prio=3, key='a'),
        S([2], lt=[1], col=[4], loops=1, prio=6, key='b', via='direct'), fades=[1, 0]),
]
COVER_IDS = (50, 51, 52, 53, 54, 55, 56)
CFGS = {c['id']: c for c in TABLE}


def cfg_rec(c):
    return {'id': c['id'], 'fades': c['fades'], 'dsync': c['dsync'], 'sh': [{k: s[k] for k in SLOT_KEYS} for s in c['sh']]}


def dsync_ms(c):
    return int(round(c['dsync'] * c['unit']))


def machine_dir(scratch, cid):
    return os.path.join(scratch, 'machines', 'shows_%d' % dsync_ms(CFGS[cid]))


def show_name(cid, sh, sc=None):
    return 's_%d_%d' % (cid, (sc or {}).get('share') or sh)


def play_target(cid, sh, sc):
    return 'p_%d_%d' % (cid, sh) if sc['pool'] else show_name(cid, sh, sc)


def key_name(cid, sc):
    return 'k_%d_%s' % (cid, sc['key'])


def tokens(sc, sh):
    if not sc['tok']:
        return {}
    t = {'sid': str(sh)}
    for k, (i, c) in enumerate(zip(sc['lt'], sc['col']), 1):
        if i:
            t['l%d' % k] = 'l%d' % i
            t['c%d' % k] = PALETTE[c]
    return t


def _ms(units, unit):
    return '%dms' % round(units * unit)


def show_yaml(cid, sh, sc, unit):
    """The show file, with step times written in the slot's form: duration / absolute time / relative +time."""
    L = ['#show_version=6']
    form = sc['form']
    cum = 0
    n = len(sc['durs'])
    for k in range(1, n + 1):
        d = sc['durs'][k - 1]
        if form == 'd' or d < 0:
            L.append('- duration: %s' % (_ms(d, unit) if d > 0 else '-1'))
        elif form == 'abs':
            L.append('- time: %s' % (_ms(cum, unit) if cum else '0'))
        else:
            L.append('- time: %s' % ('"+%s"' % _ms(sc['durs'][k - 2], unit) if k > 1 else '0'))
        cum += max(d, 0)
        L.append('  events: vs_%d_%s_step_%d' % (cid, '(sid)' if sc['tok'] else str(sh), k))
        if sc['lt'][k - 1]:
            lt, col = sc['lt'][k - 1], sc['col'][k - 1]
            L.append('  lights:')
            name, colour = ('(l%d)' % k, '(c%d)' % k) if sc['tok'] else ('l%d' % lt, '"%s"' % PALETTE[col])
            if sc['fd'][k - 1] >= 0:
                L += ['    %s:' % name, '      color: %s' % colour, '      fade: %s' % _ms(sc['fd'][k - 1], unit)]
            else:
                L.append('    %s: %s' % (name, colour))
        if sc['coil'][k - 1] == 1:
            L += ['  coils:', '    c1: enable']
    if form == 'abs':
        L.append('- time: %s' % _ms(cum, unit))      # empty last step: gives the last real step its duration
    elif form == 'rel' and all(d > 0 for d in sc['durs']):
        L.append('- time: "+%s"' % _ms(sc['durs'][-1], unit))
    return '\n'.join(L) + '\n'


def write_machine(scratch):
    """One machine per machine-wide default_show_sync_ms in the table, each with the scenarios that need it."""
    for ms in sorted({dsync_ms(c) for c in TABLE}):
        _write_machine(os.path.join(scratch, 'machines', 'shows_%d' % ms), ms)
    return scratch


def _write_machine(d, ms):
    os.makedirs(d + '/config', exist_ok=True)
    os.makedirs(d + '/shows', exist_ok=True)
    L = ['#config_version=6']
    if ms:
        L += ['mpf:', '  default_show_sync_ms: %d' % ms]
    L += ['lights:']
    for i in range(1, NL + 1):
        L += ['  l%d:' % i, '    number: %d' % i]
    L += ['coils:', '  c1:', '    number: 1', '    allow_enable: true']
    pools, player = [], []
    for c in TABLE:
        if dsync_ms(c) != ms:
            continue
        cid, unit = c['id'], c['unit']
        keys = set()
        for sh, sc in enumerate(c['sh'], 1):
            if sc['same']:
                continue            # the same show_player entry as its original
            if not sc['share']:
                with open('%s/shows/%s.yaml' % (d, show_name(cid, sh)), 'w') as f:
                    f.write(show_yaml(cid, sh, sc, unit))
            if sc['pool']:
                pools += ['  p_%d_%d:' % (cid, sh), '    shows: %s' % show_name(cid, sh, sc), '    type: sequence']
            sp = sc['sp'][0] / sc['sp'][1]
            player += ['  vs_play_%d_%d:' % (cid, sh), '    %s:' % play_target(cid, sh, sc),
                       '      key: %s' % key_name(cid, sc), '      priority: %d' % sc['prio'], '      speed: %r' % sp,
                       '      loops: %d' % sc['loops'], '      start_step: %d' % sc['start']]
            if sc['sync'] >= 0:
                player.append('      sync_ms: %d' % round(sc['sync'] * unit))
            player += ['      manual_advance: %s' % ('true' if sc['manual'] else 'false'),
                       '      block_queue: %s' % ('true' if sc['blockq'] else 'false')]
            tk = tokens(sc, sh)
            if tk:
                player.append('      show_tokens:')
                player += ['        %s: "%s"' % kv for kv in sorted(tk.items())]
            player += ['      events_when_%s: vs_%d_%d_%s' % (k, cid, sh, k) for k in KINDS
                       if not (sc['quiet'] and k in ('played', 'stopped'))]
            # further per-request events are configured as real shows do (nobody listens): the lists they come from must
            # not leak into the four events the statement names
            player += ['      events_when_%s: vx_%d_%d_%s' % (k, cid, sh, k) for k in XKINDS]
            keys.add(key_name(cid, sc))
        for k in sorted(keys):
            for a in ('stop', 'pause', 'resume', 'advance', 'step_back'):
                player += ['  vs_%s_%s:' % (a, k), '    %s: %s' % (k, a)]
    L += ['show_pools:'] + pools + ['show_player:'] + player
    with open(d + '/config/config.yaml', 'w') as f:
        f.write('\n'.join(L) + '\n')
    return d


# ------------------------------------------------------------------ lateness injection
class Proxy:
    """Handle returned for a RunningShow timer: the loop runs the callback `late` seconds after `when`
    (and, like a real loop, never before the present)."""

    _source_traceback = None

    def __init__(self, loop, orig, when, cb, rs):
        self.loop, self.orig, self.when, self.cb, self.rs = loop, orig, when, cb, rs
        self.state = 'pending'
        self.h = orig(max(when, loop.time()), self._run)

    def _run(self):
        if self.state == 'pending':
            self.state = 'fired'
            self.cb()

    def cancel(self):
        if self.state == 'pending':
            self.state = 'cancelled'
        self.h.cancel()

    def cancelled(self):
        return self.state == 'cancelled'

    def set_late(self, secs):
        self.h.cancel()
        self.h = self.orig(max(self.when + secs, self.loop.time()), self._run)


def install_lateness(h, reg):
    from mpf.assets.show import RunningShow
    loop = h.machine.clock.loop
    orig = loop.call_at

    def call_at(when, callback, *args, **kw):
        me = getattr(callback, '__self__', None)
        if isinstance(me, RunningShow) and not args:
            p = Proxy(loop, orig, when, callback, me)
            reg.append(p)
            return p
        return orig(when, callback, *args, **kw)
    loop.call_at = call_at


_H = {}


def _machine(mdir):
    if (_H.pop('dirty', False) or _H.get('mdir') != mdir) and 'h' in _H:
        harness.shutdown(_H.pop('h'))
    if 'h' not in _H:
        h = harness.boot(None, machine_dir=mdir)
        _H['h'] = h
        _H['mdir'] = mdir
        _H['log'] = []
        _H['proxies'] = []
        _H['rs'] = []
        install_lateness(h, _H['proxies'])
        ev = h.machine.events
        for c in TABLE:
            for sh, sc in enumerate(c['sh'], 1):
                if sc['same']:
                    continue        # its events are those of the original
                for k in KINDS:
                    ev.add_handler('vs_%d_%d_%s' % (c['id'], sh, k), _mk(h, c['id'], sh, k))
                for k in range(1, len(sc['durs']) + 1):
                    ev.add_handler('vs_%d_%d_step_%d' % (c['id'], sh, k), _mk(h, c['id'], sh, k))
    return _H['h']


def _mk(h, cid, sh, what):
    loop = h.machine.clock.loop

    def hnd(**kwargs):
        _H['log'].append((cid, sh, what, loop.time()))
    return hnd


def _cleanup(h):
    m = h.machine
    for r in _H['rs']:
        if not r.stopped:
            r.stop()
    for p in _H['proxies']:
        if p.state == 'pending' and not p.rs.stopped:
            p.rs.stop()
    for p in _H['proxies']:
        p.cancel()          # timers of shows that are over (left by the requests of the odd batch)
    del _H['rs'][:]
    del _H['proxies'][:]
    m.show_player.instances['_global']['show_player'].clear()
    for i in range(1, NL + 1):
        m.lights['l%d' % i].clear_stack()
    m.coils['c1'].disable()
    h.advance_time_and_run(1)
    del _H['log'][:]


def exec_schedule(job):
    mdir, cid, sched = job
    mdir = machine_dir(mdir, cid)
    try:
        return _exec_all(mdir, cid, sched)
    except Exception as ex:  # pylint: disable=broad-except
        import traceback
        h = _H.pop('h', None)
        if h is not None:
            harness.shutdown(h)
        return {'cfg': cfg_rec(CFGS[cid]), 'ev': [{'op': 'crash', 'what': repr(ex)[:300]}],
                '_tb': traceback.format_exc()[-2500:]}


def _exec_all(mdir, cid, sched):
    c = CFGS[cid]
    lines, eff = _exec(mdir, cid, sched, 0, True)
    nsl = len(c['sh'])
    refs = []
    for sh in range(1, nsl + 1):
        alone = all(c['sh'][x]['key'] != c['sh'][sh - 1]['key'] for x in range(nsl) if x != sh - 1)
        if alone:
            rl, _ = _exec(mdir, cid, eff, sh, False)
            refs.append([(x['lg'], x['co']) for x in rl if x['op'] != 'crash'])
        else:
            refs.append([(x['lg'], x['co']) for x in lines if x['op'] != 'crash'])     # not compared (see Alone in ShowsTrace)
    for i, ln in enumerate(lines):
        if ln['op'] == 'crash':
            break
        ln['ref'] = [refs[s][i][0] if i < len(refs[s]) else [-9] * NL for s in range(nsl)]
        ln['refco'] = [refs[s][i][1] if i < len(refs[s]) else False for s in range(nsl)]
    return {'cfg': cfg_rec(c), 'ev': lines, '_sched': eff, '_notes': _H.get('notes', []), '_cov': _H.get('cov', {})}


def _exec(mdir, cid, sched, skip, dynamic):
    """Execute a schedule; skip = slot whose requests are left out (differential run).  Returns (lines, effective schedule)."""
    h = _machine(mdir)
    m = h.machine
    loop = m.clock.loop
    c = CFGS[cid]
    U = c['unit'] / 1000.0
    _cleanup(h)
    t = loop.time()
    base = float((math.floor(t / 16) + 2) * 16)
    h.advance_time_and_run(base - t - 0.5)
    loop.set_time(base)
    delta = 1e-4 * U
    h.advance_time_and_run(delta)
    log = _H['log']
    del log[:]
    nsl = len(c['sh'])
    rs = [None] * (nsl + 1)
    repl = [False] * (nsl + 1)
    qd = []
    lights = [m.lights['l%d' % i] for i in range(1, NL + 1)]
    for lt, f in zip(lights, c['fades']):
        lt.default_fade_ms = f * c['unit']
    notes = []
    cov = {}
    if not skip:
        _H['notes'] = notes
        _H['cov'] = cov

    def count(what):
        cov[what] = cov.get(what, 0) + 1
    coil = m.coils['c1']
    inst = m.show_player.instances['_global']['show_player']

    def tick(x):
        v = (x - base - delta) / U
        r = int(round(v))
        return r if abs(v - r) < 5e-3 else -7

    def colidx(col):
        if col is None:
            return -2
        hx = '%02x%02x%02x' % (col.red, col.green, col.blue)
        return PALETTE.index(hx) if hx in PALETTE else -1

    def settle():
        for _ in range(4):
            h.advance_time_and_run(0)

    def pending(r):
        return [p for p in _H['proxies'] if p.rs is r and p.state == 'pending']

    def obs(a):
        rec = dict(a)
        Sx = []
        for sh in range(1, nsl + 1):
            # the event bus does not tell the instances of one and the same request apart: recorded under the original
            steps = [[w, tick(t)] for (ci, s2, w, t) in log if ci == cid and s2 == sh and isinstance(w, int)]
            evs = [w for (ci, s2, w, t) in log if ci == cid and s2 == sh and isinstance(w, str)]
            evs += ['qdone' for s2 in qd if root(s2) == sh]
            r = rs[sh]
            sched_t = -1
            own = []
            if r is not None:
                pp = pending(r)
                if len(pp) == 1:
                    sched_t = tick(pp[0].when)
                elif len(pp) > 1:
                    sched_t = -2
                key = r.context + '.light_player'
                for li, lt in enumerate(lights, 1):
                    for e in lt.stack:
                        if e.key == key:
                            own.append([li, int(e.priority), tick(e.start_time), colidx(e.dest_color),
                                        tick(e.dest_time) if e.dest_time else 0])
            Sx.append({'steps': steps, 'ev': evs, 'sched': sched_t, 'own': own, 'live': r is not None and not r.stopped})
        del log[:]
        del qd[:]
        rec['S'] = Sx
        # the whole stack of every light, whoever put the entries there
        slot_of = {rs[sh].context + '.light_player': sh for sh in range(1, nsl + 1) if rs[sh] is not None}
        rec['stk'] = [[[slot_of.get(e.key, 0), int(e.priority), e.dest_color is None] for e in lt.stack] for lt in lights]
        rec['rgb'] = [[int(v) for v in lt.get_color().rgb] for lt in lights]
        rec['hw'] = [[int(round(255 * lt.hw_drivers[ch][0].current_brightness)) for ch in ('red', 'green', 'blue')]
                     for lt in lights]
        rec['lg'] = [colidx(lt.get_color()) for lt in lights]
        rec['co'] = coil.hw_driver.state == 'enabled'
        return rec

    def mk_qdone(sh):
        def cb(**kwargs):
            qd.append(sh)
        return cb

    def root(sh):
        return c['sh'][sh - 1]['same'] or sh

    def do(a):
        op, sh = a['op'], a.get('sh')
        sc = c['sh'][sh - 1]
        kn = key_name(cid, sc)
        player = sc['via'] == 'player'
        r = rs[sh]
        if op not in ('play', 'late', 'stop') and r is not None and r.stopped:
            notes.append([len(lines) + 1, 'over'])          # a request to a show that is over
        elif op == 'resume' and r is not None and pending(r):
            notes.append([len(lines) + 1, 'resume-armed'])  # resume to a show that is not paused
        if op == 'play':
            if player:
                held = inst.get(kn)
                was = None if held is None or held.stopped else \
                    'waits for its sync point' if held.current_step_index is None else 'runs'
                name = 'vs_play_%d_%d' % (cid, root(sh))
                if sc['blockq']:
                    m.events.post_queue(name, callback=mk_qdone(sh))
                else:
                    m.events.post(name)
                settle()
                new = inst.get(kn)
                if was:
                    count('play to a key held by a show that %s: %s' % (was, 'instance kept' if new is held else 'replaced'))
                if new is not None and new is not held:
                    # a new instance holds the key; the one that held it can no longer be reached through show_player
                    for o in range(1, nsl + 1):
                        if o != sh and c['sh'][o - 1]['via'] == 'player' and c['sh'][o - 1]['key'] == sc['key'] \
                                and rs[o] is not None and not rs[o].stopped:
                            repl[o] = True
                    rs[sh] = new
                # else: show_player kept the instance it had (the slot of this request has no RunningShow of its own)
            else:
                rs[sh] = m.shows[play_target(cid, sh, sc)].play(
                    priority=sc['prio'], speed=sc['sp'][0] / sc['sp'][1], start_step=sc['start'], loops=sc['loops'],
                    sync_ms=(sc['sync'] * c['unit'] if sc['sync'] >= 0 else None), manual_advance=sc['manual'],
                    show_tokens=tokens(sc, sh),
                    **dict({'events_when_' + k: ['vs_%d_%d_%s' % (cid, sh, k)] for k in KINDS},
                           **{'events_when_' + k: ['vx_%d_%d_%s' % (cid, sh, k)] for k in XKINDS}))
            if rs[sh] is not None and rs[sh] not in _H['rs']:
                _H['rs'].append(rs[sh])
        elif op == 'stop':
            if r is not None and not r.stopped and r.current_step_index is None:
                count('stop of a show that waits for its sync point')
            if r is not None and not r.stopped:
                mykey = r.context + '.light_player'
                for lt in lights:
                    mine = [e for e in lt.stack if e.key == mykey]
                    if mine and lt.default_fade_ms:
                        above = [e for e in lt.stack if e.priority > mine[0].priority and e.dest_color is not None]
                        below = [e for e in lt.stack if e.priority < mine[0].priority]
                        count('stop of a show on a light that fades out: %s' % (
                            'under a higher show' if above else 'over a lower show' if below else 'alone on the light'))
            m.events.post('vs_stop_' + kn) if player else r.stop()
        elif op == 'pause':
            m.events.post('vs_pause_' + kn) if player else r.pause()
        elif op == 'resume':
            m.events.post('vs_resume_' + kn) if player else r.resume()
        elif op == 'advance':
            m.events.post('vs_advance_' + kn) if (player and a['n'] == 1) else r.advance(steps=a['n'])
        elif op == 'advance_to':
            r.advance(show_step=a['k'])
        elif op == 'step_back':
            m.events.post('vs_step_back_' + kn) if (player and a['n'] == 1) else r.step_back(steps=a['n'])
        elif op == 'update':
            r.update(speed=a['sp'][0] / a['sp'][1])
        elif op == 'late':
            pp = pending(r)      # (more than one only after the double arming reported as resume-while-running)
            if pp:
                pp[-1].set_late(a['d'] * U)
        else:
            raise ValueError(op)

    lines, eff = [], []

    def run_one(a):
        if lines and lines[-1]['op'] == 'crash':
            return
        eff.append(a)
        try:
            if a['op'] == 'adv':
                h.advance_time_and_run(U * (1 + EPS))
            elif a.get('sh') != skip:
                do(a)
                settle()
        except Exception as ex:  # pylint: disable=broad-except
            import traceback
            _H['dirty'] = True
            lines.append({'op': 'crash', 'at': dict(a), 'what': repr(ex)[:300], 'tb': traceback.format_exc()[-1500:]})
            return
        lines.append(obs(a))

    body = [a for a in sched if a['op'] != 'init']
    for a in body:
        run_one(a)
    if dynamic:
        for _ in range(3):
            run_one({'op': 'adv'})
        for sh in range(1, nsl + 1):
            if rs[sh] is not None and not rs[sh].stopped and not repl[sh]:
                run_one({'op': 'stop', 'sh': sh})
        for _ in range(2):
            run_one({'op': 'adv'})
    return lines, eff


# ------------------------------------------------------------------ model checking / generation configs
def mc_module(table, name='ShowsMC'):
    return """------------------------------ MODULE %s ------------------------------
EXTENDS Shows
MCConfigs == {%s}
MCSpeeds == {<<1, 1>>, <<2, 1>>, <<1, 2>>}
=============================================================================
""" % (name, ',\n   '.join(to_tla(cfg_rec(c)) for c in table))


MC_CFG = """SPECIFICATION Spec
CONSTANTS
  Configs <- MCConfigs
  Speeds <- MCSpeeds
  MaxTime = %d
  MaxOps = %d
  Lates = %s
  AdvN = %s
  BackN = %s
  NL = 2
  OddOps = %s
  Deviations = {}
%sCHECK_DEADLOCK FALSE
"""
PROPS = ('INVARIANT TypeOK\nINVARIANT OnSchedule\nINVARIANT NeverEarly\nINVARIANT SyncOnGrid\nINVARIANT EventsOnce\n'
         'INVARIANT CleanAfterStop\nINVARIANT NoResidue\nINVARIANT OffWhenAllOver\nINVARIANT KeyExclusive\n'
         'PROPERTY LoopsAndCompletion\nPROPERTY StartStep\nPROPERTY StopTouchesOnlyOwn\n'
         'PROPERTY PausedIsSilent\nPROPERTY QueueReleasedAtEnd\nPROPERTY SyncHonoured\nPROPERTY ReplacedAtStart\n')
TRACE_CFG = """SPECIFICATION TSpec
CONSTANTS
  Configs <- TConfigs
  Speeds <- TSpeeds
  MaxTime = 1000000
  MaxOps = 1000000
  Lates = {}
  AdvN = {}
  BackN = {}
  NL = 2
  OddOps = TRUE
  Deviations = %s
  StrictOwn = %s
  HwTol = 3
INVARIANT Reporter
%s"""
MONITORS = """INVARIANT OnSchedule
INVARIANT NeverEarly
INVARIANT EventsOnce
INVARIANT CleanAfterStop
INVARIANT NoResidue
INVARIANT NoResidueSeen
INVARIANT OffWhenAllOver
INVARIANT KeyExclusive
PROPERTY LoopsAndCompletion
PROPERTY StartStep
PROPERTY StopTouchesOnlyOwn
PROPERTY QueueReleasedAtEnd
PROPERTY SyncHonoured
PROPERTY ReplacedAtStart
CHECK_DEADLOCK FALSE
"""


def trace_cfg(deviations=(), monitors=True, strict=True):
    """strict: the step relation demands that the observed light stacks are exactly the model's.  Without it (used only to
    NAME what a rejected trace shows) entries beyond the model's are left to the monitor NoResidueSeen."""
    dev = '{' + ', '.join('"%s"' % d for d in deviations) + '}'
    return TRACE_CFG % (dev, 'TRUE' if strict else 'FALSE', MONITORS if monitors else 'CHECK_DEADLOCK FALSE\n')


def handmade():
    P = lambda sh: {'op': 'play', 'sh': sh}
    St = lambda sh: {'op': 'stop', 'sh': sh}
    Lt = lambda sh, d: {'op': 'late', 'sh': sh, 'd': d}
    A = {'op': 'adv'}
    return [
        # many loops with repeated lateness: any relative re-arming accumulates
        (3, [P(1), Lt(1, 1), A, A, A, A, A, Lt(1, 2), A, A, A, Lt(1, 1), A, A, A, A, A, A, A]),
        (9, [P(1), Lt(1, 3), A, A, A, A, A]),
        (1, [P(1), A, Lt(1, 1), A, A, A, A, A]),
        # pool replaces a running show of the same key in sync; stop the new one later
        (12, [P(1), A, A, A, P(2), A, A, A, A, St(2), A]),
        (13, [A, P(1), A, A, P(2), A, A, A, A, A, A]),
        (13, [P(1), P(2), A, A, A, A, A]),
        (14, [P(1), A, A, P(2), A, A, A, A, A]),
        # a blocked queue event is released at the end of the show, not at its start
        (7, [P(1), A, A, A, A, A]),
        (15, [P(2), A, P(1), A, A, A, A]),
        (16, [A, P(1), A, A, A, A, A, A, A]),
        (17, [P(1), A, A, A, A, A]),
        (21, [P(1), A, P(2), A, A, A, A, A, A, A]),
        (18, [P(1), A, A, A, St(1), A, A, A]),
        (19, [P(1), P(2), A, A, A, A, A, A]),
        # the same request again while the show it started waits for its sync point (replacing a running show or not)
        (30, [A, P(1), A, A, P(2), P(3), A, A, A, A, St(3), A]),
        (30, [P(1), A, P(2), A, P(3), A, A, A]),
        (30, [A, P(2), P(3), A, A, A, A]),
        (31, [A, P(1), P(2), A, P(3), A, A, A, St(3), A]),
        (34, [A, P(3), P(1), A, P(2), A, A, A, A, A, A, A, A]),
        (43, [A, P(1), A, P(2), A, P(3), A, A, A, A, A, A]),
        # ... stop while waiting: the show never starts, the show it was to replace is stopped with it
        (30, [P(1), A, P(2), St(2), A, A, A]),
        (12, [P(1), A, P(2), St(2), A, A, A]),
        # ... and to a show that runs: at the target step (kept), one step behind it (advanced), elsewhere (replaced)
        (32, [P(1), A, P(2), A, {'op': 'step_back', 'sh': 1, 'n': 1}, P(2), A, P(2), A, A]),
        (33, [P(1), A, P(2), A, A, P(2), A, A, P(4), A, P(3), A, A, A, A]),
        # a machine-wide default sync grid: no sync_ms given / an explicit 0 / a grid of its own
        (40, [A, P(1), A, A, A, A, A, St(1), A]),
        (41, [A, P(1), P(2), A, A, A, A, A]),
        (42, [A, P(1), A, A, P(2), A, P(3), A, A, A]),
        (42, [A, P(2), A, P(1), A, A, A, A]),
        (44, [A, P(1), P(2), A, A, A, A, A, A, A, A, A]),
    ]


def handmade_cover():
    """Shows that end under / over / together with another show on the same fading light."""
    P = lambda sh: {'op': 'play', 'sh': sh}
    St = lambda sh: {'op': 'stop', 'sh': sh}
    A = {'op': 'adv'}
    return [
        # the lower show is stopped while the higher one holds the light for longer than the fade; then the cover goes,
        # then a later show at the bottom fades in (as on a clean light)
        (50, [P(1), P(2), A, A, A, St(1), A, A, A, A, St(2), A, A, A, P(3), A, A, A, A, A, A]),
        # the top one first
        (50, [P(1), A, P(2), A, A, St(2), A, A, A, St(1), A, A, A, P(3), A, A, A, A]),
        # both in the same instant, either order
        (50, [P(1), P(2), A, A, St(1), St(2), A, A, A, P(3), A, A, A, A]),
        (50, [P(2), P(1), A, A, A, St(2), St(1), A, A, A, P(3), A, A, A, A]),
        # the later show fades in under the cover while the covered one fades out
        (50, [P(2), A, P(1), A, St(1), P(3), A, A, A, St(2), A, A, A, A, A]),
        # the lower show COMPLETES under the cover; the same request again under the cover (during the fade-out, after it)
        (51, [P(2), P(1), A, A, A, A, St(2), A, A]),
        (51, [P(2), A, P(1), A, A, P(3), A, A, A, A, St(2), A, A]),
        (51, [P(1), P(2), St(1), P(3), A, A, A, St(2), A, A]),
        (51, [P(1), P(2), A, St(2), A, A, A]),
        # three priorities: the middle one goes, then the bottom one, then the top completes
        (52, [P(1), P(2), P(3), A, A, St(2), A, A, A, St(1), A, A, A, A, A, A]),
        (52, [P(3), P(1), A, P(2), A, St(1), A, St(2), A, A, A, A, A]),
        (52, [P(1), P(2), A, A, A, St(1), St(2), A, A, A]),
        # fades given by the steps only (removals are instant)
        (53, [P(1), A, P(2), A, A, St(1), A, P(3), A, A, A, A, St(3), A]),
        (53, [P(2), P(1), A, St(1), A, A, A, A, P(3), A, A, A]),
        # a show replaced in sync under its key, all of it under a cover
        (54, [P(3), P(1), A, A, P(2), A, A, A, A, St(2), A, A, A, St(3), A, A, A]),
        (54, [P(1), A, P(3), P(2), St(2), A, A, A, St(3), A, A]),
    ]


def handmade_odd():
    P = lambda sh: {'op': 'play', 'sh': sh}
    A = {'op': 'adv'}
    return [
        # requests to a show that has completed by itself
        (1, [P(1), A, A, A, A, {'op': 'advance', 'sh': 1, 'n': 1}, A, A]),
        (1, [P(1), A, A, A, A, {'op': 'step_back', 'sh': 1, 'n': 1}, A, A, A, A]),
        (9, [P(1), A, A, A, {'op': 'resume', 'sh': 1}, A]),
        # resume to a show that is not paused, then stop it
        (12, [P(1), A, {'op': 'resume', 'sh': 1}, A, A, {'op': 'stop', 'sh': 1}, A, A, A]),
        # one of two shows holding the coil ends
        (20, [P(1), P(2), A, A, A, A, A]),
    ]


def reach(wd, cfg, traces, ids):
    """One verbose TLC run over traces[ids]: {id: (accepted, last line reached)} (lib.tlc diagnoses only 8 per batch)."""
    import re
    if not ids:
        return {}
    path = tlc._write_batch(wd, traces, ids, 'diag.ndjson')     # pylint: disable=protected-access
    r = tlc.check(wd, 'ShowsTrace', cfg, workers=8, timeout=900, env={'TRACE_FILE': path, 'VERBOSE': '1'})
    if not r.ok:
        raise tlc.TLCError('diagnosis run failed: %s\n%s' % (r.errors[:3], r.out[-2000:]))
    mx = {}
    for k, ln in re.findall(r'AT (\d+) (\d+)', r.out):
        mx[int(k)] = max(mx.get(int(k), 0), int(ln))
    acc = set(int(x) for x in re.findall(r'ACCEPT (\d+)', r.out))
    return {i: (k in acc, mx.get(k, 0)) for k, i in enumerate(ids, 1)}


def diagnose_all(wd, cfg, traces, v):
    ids = [i for i, info in sorted(v.rejected.items()) if info.get('line') is None and info.get('reason') == 'unexplained']
    for i, (_, ln) in reach(wd, cfg, traces, ids).items():
        ev = traces[i].get('ev', [])
        v.rejected[i].update({'line': ln, 'failing_event': ev[ln - 1] if 0 < ln <= len(ev) else None,
                              'prev_event': ev[ln - 2] if 1 < ln <= len(ev) + 1 else None})


def name_rejected(wd, traces, v, skip=(), limit=400):
    """What do the rejected traces show?  They are validated once more with the step relation relaxed to "the model's
    entries are on the stacks" (StrictOwn = FALSE), so that what else the lights hold is judged by the monitor NoResidueSeen
    (no entry of a stopped show remains once its fade-out time has passed) instead of ending the trace; ResidueReport
    prints the states that monitor rejects (one TLC run for all traces).  Acceptance was decided by the strict run; this
    only gives the violation its name."""
    import re
    ids = [i for i, info in sorted(v.rejected.items()) if i not in skip and info.get('line') is not None
           and (info.get('failing_event') or {}).get('op') != 'crash'][:limit]
    if not ids:
        return {}
    with open(wd + '/TraceLoose.cfg', 'w') as f:
        f.write(trace_cfg(monitors=False, strict=False).replace('INVARIANT Reporter', 'INVARIANT Reporter\nINVARIANT ResidueReport'))
    path = tlc._write_batch(wd, traces, ids, 'loose.ndjson')     # pylint: disable=protected-access
    r = tlc.check(wd, 'ShowsTrace', 'TraceLoose.cfg', workers=8, timeout=900, env={'TRACE_FILE': path, 'VERBOSE': '0'})
    if not r.ok:
        raise tlc.TLCError('naming run failed: %s\n%s' % (r.errors[:3], r.out[-2000:]))
    first = {}
    for k, ln in re.findall(r'RESIDUE (\d+) (\d+)', r.out):
        first[int(k)] = min(first.get(int(k), 10 ** 9), int(ln))
    named = {}
    for k, l1 in first.items():
        i = ids[k - 1]
        ev = traces[i]['ev']
        ln = l1 - 1          # the line that led to the state the monitor rejects
        if ln > v.rejected[i]['line']:
            continue         # the strict run stopped earlier, at something else
        e = ev[ln - 1] if 0 < ln <= len(ev) else {}
        over = [sh for sh, o in enumerate(e.get('S', []), 1) if not o['live']]
        left = [[x, ent] for x, stack in enumerate(e.get('stk', []), 1) for ent in stack if ent[0] in over or ent[0] == 0]
        named[i] = ('C17:NoResidueSeen', 'a show that has stopped or completed is still on the stack of a light after the '
                    'light\'s fade-out time has passed (the show does not clean up after itself: its context stays on the '
                    'light, above every later entry of lower priority) - entries [light, [slot, priority, is a fade-out]] of '
                    'shows that are over, at that line: %s; shows that are over: %s' % (left, over), ln)
    return named


FINDINGS = {
    'over': ('C17:control-after-end', 'a resume/advance/step_back request reaching a show that is already over (show_player '
             'keeps a completed instance under its key) still ran on it: completed is posted again, or steps are executed '
             'again and their lights are never removed'),
    'resume-armed': ('C17:resume-while-running', 'resume() on a show that is not paused did not cancel the pending timer: '
                     'two timers of the same show are pending (a second chain that stop() does not cancel)'),
}


def run(ctx):
    mdir = write_machine(ctx.scratch)
    wd = tlc.prepare(ctx.scratch, 'Shows', 'shows')
    mc_ids = (1, 2, 4, 6, 10, 12, 14, 15, 18, 30, 32, 34, 41, 43, 55) if ctx.quick else \
        tuple(c['id'] for c in TABLE if c['id'] not in (52, 53, 54))
    table = [c for c in TABLE if c['id'] in mc_ids]
    with open(wd + '/ShowsMC.tla', 'w') as f:
        f.write(mc_module(table))
    bounds = (7, 4, '{2}', '{1, 2}', '{1}') if ctx.quick else (8, 4, '{1, 3}', '{1, 2, 3}', '{1, 2}')
    with open(wd + '/MC.cfg', 'w') as f:
        f.write(MC_CFG % (bounds + ('TRUE', PROPS)))
    r = tlc.expect_ok(tlc.check(wd, 'ShowsMC', 'MC.cfg', workers=8, timeout=1500), 'Shows design check')
    ctx.add_tlc('ShowsMC', r, {'configs': len(table), 'MaxTime': bounds[0], 'MaxOps': bounds[1], 'Lates': bounds[2],
                               'AdvN': bounds[3], 'BackN': bounds[4]})
    ctx.coverage['monitors'] += ['OnSchedule', 'NeverEarly', 'SyncOnGrid', 'EventsOnce', 'CleanAfterStop', 'NoResidue',
                                 'NoResidueSeen (the stacks as observed)', 'OffWhenAllOver', 'StopTouchesOnlyOwn',
                                 'LoopsAndCompletion',
                                 'StartStep', 'PausedIsSilent', 'QueueReleasedAtEnd', 'KeyExclusive', 'SyncHonoured',
                                 'ReplacedAtStart', 'Obs(steps, events, sched, own, live, colours, coil, differential, '
                                 'whole light stacks, logical and hardware rgb at rest and during single fades)']
    with open(wd + '/ShowsMC.tla', 'w') as f:
        f.write(mc_module(TABLE))
    # schedules: the main batch issues requests only where the statement gives them an effect; the odd batch also
    # sends requests to shows that are over and resume to shows that are not paused
    jobs = []
    for label, odd, num in (('Gen', 'FALSE', 400 if ctx.quick else 6000), ('GenOdd', 'TRUE', 100 if ctx.quick else 1500)):
        with open(wd + '/%s.cfg' % label, 'w') as f:
            f.write(MC_CFG % (24, 12, '{1, 2, 3}', '{1, 2, 3}', '{1, 2}', odd, ''))
        behs, _ = tlc.simulate(wd, 'ShowsMC', label + '.cfg', num=num, depth=30 if ctx.quick else 40,
                               seed=ctx.seed + (0 if odd == 'FALSE' else 1000))
        jobs += [(mdir, b[0]['cfg']['id'], [s['act'] for s in b]) for b in behs]
    # ... and a batch on the scenarios with several shows at different priorities on the same fading light only
    with open(wd + '/ShowsMCC.tla', 'w') as f:
        f.write(mc_module([c for c in TABLE if c['id'] in COVER_IDS], 'ShowsMCC'))
    with open(wd + '/GenCover.cfg', 'w') as f:
        f.write(MC_CFG % (24, 8, '{1}', '{1}', '{1}', 'FALSE', ''))
    behs, _ = tlc.simulate(wd, 'ShowsMCC', 'GenCover.cfg', num=100 if ctx.quick else 1500, depth=30 if ctx.quick else 40,
                           seed=ctx.seed + 2000)
    jobs += [(mdir, b[0]['cfg']['id'], [s['act'] for s in b]) for b in behs]
    jobs += [(mdir, cid, s) for cid, s in handmade() + handmade_cover() + handmade_odd()]
    jobs.sort(key=lambda j: dsync_ms(CFGS[j[1]]))       # a worker keeps one machine booted: few switches per chunk
    traces = harness.pmap(exec_schedule, jobs, nproc=8, chunk=8)
    with open(wd + '/Trace.cfg', 'w') as f:
        f.write(trace_cfg())
    v = tlc.validate_traces(wd, 'ShowsTrace', 'Trace.cfg', traces, workers=8)
    ctx.add_trace_verdict('ShowsTrace', v, len(traces))
    diagnose_all(wd, 'Trace.cfg', traces, v)
    ctx.coverage['configs_exercised'] = sorted({j[1] for j in jobs})
    ctx.coverage['lines'] = sum(len(t['ev']) for t in traces)
    ops = {}
    for t in traces:
        for e in t['ev']:
            ops[e['op']] = ops.get(e['op'], 0) + 1
            if any(tuple(c3) not in PALRGB for c3 in e.get('rgb', [])):
                ops['lines with a light observed mid-fade'] = ops.get('lines with a light observed mid-fade', 0) + 1
            if e['op'] == 'adv' and any(len(x['steps']) > 1 for x in e.get('S', [])):
                ops['adv with a show catching up'] = ops.get('adv with a show catching up', 0) + 1
    ctx.coverage['lines_by_request'] = ops
    cov = {}
    for t in traces:
        for k, n in t.get('_cov', {}).items():
            cov[k] = cov.get(k, 0) + n
        c = t['cfg']
        for sc in c['sh']:
            if c['dsync'] and any(e['op'] == 'play' and c['sh'][e['sh'] - 1] is sc for e in t['ev']):
                k = 'play on a machine with default_show_sync_ms: sync_ms %s' % (
                    'not given' if sc['sync'] < 0 else 'explicitly 0' if sc['sync'] == 0 else 'of its own')
                cov[k] = cov.get(k, 0) + 1
    ctx.coverage['sync_and_key_situations'] = cov
    ctx.log('situations: %s' % cov)
    ctx.sample({'kind': 'show-trace', 'cfg': traces[0]['cfg'], 'trace': traces[0]['ev'][:8]})
    # executions the statement does not explain: is it one of the code-as-is deviations?
    rej = sorted(i for i, info in v.rejected.items() if info.get('line') is not None)
    explained = {}
    coilrej = [i for i in rej if any(1 in sc['coil'] for sc in traces[i]['cfg']['sh']) and len(traces[i]['cfg']['sh']) > 1]
    if coilrej:
        with open(wd + '/TraceDev.cfg', 'w') as f:
            f.write(trace_cfg(('CoilSharedDisable',), monitors=False))
        # the deviation explains the line the statement could not
        for i, (acc, ln) in reach(wd, 'TraceDev.cfg', traces, coilrej).items():
            if not (acc or ln > v.rejected[i]['line']):
                continue
            explained[i] = ('C17:coil-shared-disable', 'a show that ends disables a coil that another running show has '
                                     'enabled too (coil_player contexts are not counted): the coil is not left as it would be '
                                     'had the show never run')
    for i in rej:
        info = v.rejected[i]
        if i in explained:
            continue
        # the two repaired defects: named only when that very behaviour is what the failing line shows
        fe = info.get('failing_event') or {}
        for ln, kind in traces[i].get('_notes', []):
            if ln == info['line'] and _observed(kind, fe):
                explained[i] = FINDINGS[kind]
    for i, (sig, what, ln) in name_rejected(wd, traces, v, skip=explained).items():
        explained[i] = (sig, what)
        v.rejected[i]['named_at_line'] = ln
    for i in rej:
        info = v.rejected[i]
        fe = info.get('failing_event') or {}
        data = {'cid': jobs[i][1], 'sched': jobs[i][2], 'trace': traces[i], 'info': info}
        if i in explained:
            sig, what = explained[i]
            ctx.violation(sig, '%s [cfg %s line %s: %s]' % (what, traces[i]['cfg']['id'], info['line'], _brief(fe)), data)
            continue
        ctx.violation('C17:%s:%s' % (info.get('monitor') or 'step', fe.get('op', '?')),
                      'show execution not explained by Shows spec at line %s: %s (prev %s; cfg %s)%s' % (
                          info.get('line'), fe, info.get('prev_event'), traces[i]['cfg'],
                          (' crash: ' + traces[i].get('_tb', '')) if fe.get('op') == 'crash' else ''), data)
    ctx.coverage['rejected_by_signature'] = {}
    for i in rej:
        k = explained[i][0] if i in explained else 'unexplained'
        ctx.coverage['rejected_by_signature'][k] = ctx.coverage['rejected_by_signature'].get(k, 0) + 1
    ctx.assumptions += ['virtual time (TimeTravelLoop); lateness injected by wrapping loop.call_at for RunningShow callbacks only',
                        'one abstract unit = 50..250 ms per scenario; lateness in whole units',
                        'pause/resume/advance/step_back/update are issued only to shows that have started; shows waiting for '
                        'their sync point receive play requests (the same request again, requests of another config under '
                        'the same key) and stop requests',
                        'the same request arriving again is a slot of its own in the model (same = n); the event bus cannot '
                        'tell the instances of one request apart, so their step / show events are compared as a group',
                        'the differential run is compared when lights are at rest; the logical and the hardware colour (virtual '
                        'platform channels) are compared at rest and during a fade that runs alone on its light (it starts '
                        'while everything on the light is at rest, from the show\'s own colour or from off with nothing '
                        'beneath, and no other fade starts before it ends); colours during overlapping fades are not judged',
                        'priorities of concurrent shows on one light are pairwise different (the statement does not order equal '
                        'priorities)']


def _observed(kind, e):
    """Does the failing line itself show the defect? (the note alone only says which request was made)"""
    try:
        o = e['S'][e['sh'] - 1]
    except (KeyError, IndexError, TypeError):
        return False
    if kind == 'over':
        # the request went to a show that was over, and yet it executed steps, posted show events or armed a timer
        return bool(o['steps'] or o['ev'] or o['sched'] != -1)
    if kind == 'resume-armed':
        # resume to a running show left two pending timers of the same show behind: a second chain
        return e.get('op') == 'resume' and o['sched'] == -2
    return False


def _brief(e):
    return {k: e[k] for k in ('op', 'sh', 'n', 'k', 'S', 'lg', 'co') if k in e}


def replay(ctx, data):
    d = data['replay']
    mdir = write_machine(ctx.scratch)
    tr = exec_schedule((mdir, d['cid'], d['sched']))
    for ln in tr['ev']:
        print('replay line:', ln)
    wd = tlc.prepare(ctx.scratch, 'Shows', 'shows')
    with open(wd + '/Trace.cfg', 'w') as f:
        f.write(trace_cfg())
    v = tlc.validate_traces(wd, 'ShowsTrace', 'Trace.cfg', [tr], workers=2)
    for i, info in v.rejected.items():
        ctx.violation(data['sig'], 'replayed: %s' % {k: x for k, x in info.items() if k != 'state'}, d)
