"""X06 - combo switches, timed switches and sequence shots derive their events from timed combinations of switches
exactly as specified (specs/SwitchCombos)."""
import os

from lib import tlc, harness
from lib.tlaval import to_tla

LEVEL = 'model_checking'
EPS = 1e-6
KEYS = ('id', 'kind', 'sws', 'evs', 'g1', 'g2', 'hold', 'rel', 'maxoff', 'st', 'time', 'seq', 'timeout', 'dly', 'cancel')
DEVIATIONS = ('inactiveWhileHeld', 'onlySurvivesRelease')


def _base(i, kind, unit):
    return dict(id=i, kind=kind, unit=unit, sws=[], evs=[], g1=[], g2=[], hold=0, rel=0, maxoff=-1, st=1, time=0,
                seq=[], timeout=0, dly=[], cancel=[])


def combo(i, g1, g2, hold=0, rel=0, maxoff=-1, unit=100):
    c = _base(i, 'combo', unit)
    c.update(sws=list(g1) + list(g2), g1=list(g1), g2=list(g2), hold=hold, rel=rel, maxoff=maxoff)
    return c


def timed(i, sws, st, time, unit=100):
    c = _base(i, 'timed', unit)
    c.update(sws=list(sws), st=st, time=time)
    return c


def seqshot(i, seq, bysw, timeout=0, dly=(), cancel=(), unit=100):
    # bysw: the sequence, the delays and the cancel are switches (else events)
    c = _base(i, 'seq', unit)
    toks = list(dict.fromkeys(list(seq) + [d[0] for d in dly] + list(cancel)))
    c.update(seq=list(seq), timeout=timeout, dly=[{'n': n, 'ms': ms} for n, ms in dly], cancel=list(cancel))
    c['sws' if bysw else 'evs'] = toks
    return c


TABLE = [
    combo(1, ['a'], ['b']),                                         # all defaults: immediate, no offset limit
    combo(2, ['a', 'c'], ['b'], hold=2, rel=1),
    combo(3, ['a'], ['b'], maxoff=1),
    combo(4, ['a', 'c'], ['b'], hold=1, rel=2, maxoff=2, unit=50),
    combo(5, ['a'], ['b'], hold=2, rel=2, maxoff=0, unit=200),       # hold = release: timers of both groups tie
    timed(6, ['a', 'b'], 1, 2),
    timed(7, ['a', 'b'], 0, 1, unit=50),
    timed(8, ['a', 'b'], 1, 0),
    seqshot(9, ['a', 'b', 'c'], True, timeout=3, dly=[('d', 2)], cancel=['x']),
    seqshot(10, ['ea', 'eb'], False, dly=[('ed', 2)], unit=50),
    seqshot(11, ['a'], True, dly=[('d', 1)]),
    seqshot(12, ['ea', 'eb', 'eb', 'ec'], False, timeout=4, cancel=['ex'], unit=200),
]
BYID = {c['id']: c for c in TABLE}


def cfg_rec(c):
    return {k: c[k] for k in KEYS}


def real(c, local):
    return 'k%d_%s' % (c['id'], local)


def write_machine(scratch):
    d = os.path.join(scratch, 'machines', 'switchcombos')
    os.makedirs(d + '/config', exist_ok=True)
    sw, cs, ts, ss = [], [], [], []
    num = 0
    for c in TABLE:
        n = 'd%d' % c['id']
        U = c['unit']
        for s in c['sws']:
            num += 1
            sw += ['  %s:' % real(c, s), '    number: %d' % num]
        if c['kind'] == 'combo':
            cs += ['  %s:' % n, '    switches_1: ' + ', '.join(real(c, s) for s in c['g1']),
                   '    switches_2: ' + ', '.join(real(c, s) for s in c['g2'])]
            if c['hold']:
                cs.append('    hold_time: %dms' % (c['hold'] * U))
            if c['rel']:
                cs.append('    release_time: %dms' % (c['rel'] * U))
            if c['maxoff'] >= 0:
                # half a unit more: a difference of exactly maxoff units is inside the limit whatever the float rounding
                cs.append('    max_offset_time: %dms' % (c['maxoff'] * U + U // 2))
        elif c['kind'] == 'timed':
            ts += ['  %s:' % n, '    switches: ' + ', '.join(real(c, s) for s in c['sws']),
                   '    time: %dms' % (c['time'] * U), '    state: %s' % ('active' if c['st'] else 'inactive')]
        else:
            bysw = bool(c['sws'])
            ss += ['  %s:' % n, '    %s: %s' % ('switch_sequence' if bysw else 'event_sequence',
                                               ', '.join(real(c, s) for s in c['seq']))]
            if c['timeout']:
                ss.append('    sequence_timeout: %dms' % (c['timeout'] * U))
            if c['dly']:
                ss.append('    %s:' % ('delay_switch_list' if bysw else 'delay_event_list'))
                ss += ['      %s: %dms' % (real(c, x['n']), x['ms'] * U) for x in c['dly']]
            if c['cancel']:
                ss.append('    %s: %s' % ('cancel_switches' if bysw else 'cancel_events',
                                          ', '.join(real(c, s) for s in c['cancel'])))
    with open(d + '/config/config.yaml', 'w') as f:
        f.write('#config_version=6\nswitches:\n' + '\n'.join(sw) + '\ncombo_switches:\n' + '\n'.join(cs) +
                '\ntimed_switches:\n' + '\n'.join(ts) + '\nsequence_shots:\n' + '\n'.join(ss) + '\n')
    return d


def mc_module(table):
    return """----------------------------- MODULE SwitchCombosMC -----------------------------
EXTENDS SwitchCombos
MCConfigs == {%s}
MCNoDev == {}
MCAllDev == {%s}
MCLongAgo == -100
=============================================================================
""" % (',\n   '.join(to_tla(cfg_rec(c)) for c in table), ', '.join('"%s"' % x for x in DEVIATIONS))


MC_CFG = """SPECIFICATION %s
CONSTANTS
  Configs <- MCConfigs
  Deviations <- %s
  LongAgo <- MCLongAgo
  MaxTime = %d
  MaxOps = %d
%sCHECK_DEADLOCK FALSE
"""
INVS = ('TypeOK', 'NothingOverdue', 'BothSound', 'OneSound', 'ActSound', 'OnlySound', 'TimedExact', 'SeqShape')
PROPS = ('OncePerTransition', 'BothExact', 'OneExact', 'InactiveOnlyWhenNoneActive', 'OnlyWhenDefined', 'GlitchInert',
         'TimedPosts', 'HitExact', 'StartOnlyOutsideDelay', 'WrongOrderInert', 'TimeoutExact')
# what still holds of the statement when the model takes the two deviating branches of the code
DEV_PROPS = tuple(p for p in PROPS if p != 'InactiveOnlyWhenNoneActive')
SUFFIX = {'combo': ('inactive', 'one', 'both', 'switches_1', 'switches_2'), 'timed': ('active', 'released'),
          'seq': ('hit', 'timeout')}
_H = {}


def props_text(invs, props):
    return ''.join('INVARIANT %s\n' % x for x in invs) + ''.join('PROPERTY %s\n' % x for x in props)


def _mk(cid, e):
    def hnd(**kwargs):
        _H['log'].append((cid, e))
    return hnd


def _machine(mdir):
    if _H.get('dirty') and 'h' in _H:
        harness.shutdown(_H.pop('h'))
        _H['dirty'] = False
    if 'h' not in _H:
        h = harness.boot(None, machine_dir=mdir)
        _H['h'] = h
        _H['log'] = []
        for c in TABLE:
            for e in SUFFIX[c['kind']]:
                h.machine.events.add_handler('d%d_%s' % (c['id'], e), _mk(c['id'], e))
    return _H['h']


def exec_schedule(job):
    mdir, cid, sched = job
    try:
        return _exec(mdir, cid, sched)
    except Exception as ex:  # pylint: disable=broad-except
        import traceback
        _H['dirty'] = True
        return {'cfg': cfg_rec(BYID[cid]), 'ev': [{'op': 'crash', 'what': repr(ex)[:300]}],
                '_tb': traceback.format_exc()[-1500:]}


def _settle(h):
    for _ in range(4):
        h.advance_time_and_run(0)


def _exec(mdir, cid, sched):
    h = _machine(mdir)
    m = h.machine
    c = BYID[cid]
    U = c['unit']
    log = _H['log']
    name = 'd%d' % cid
    dev = {'combo': m.combo_switches, 'timed': m.timed_switches, 'seq': m.sequence_shots}[c['kind']][name]
    sc = m.switch_controller

    def setsw(local, v):
        sc.process_switch(real(c, local), v, logical=True)
        _settle(h)

    # bring the device into the initial state of the model: everything pressed long enough, then released long enough
    # (a timed switch watching the inactive state then counts all its switches); sequences in flight dropped
    if c['kind'] != 'seq':
        for s in c['sws']:
            setsw(s, 1)
        h.advance_time_and_run(5)
    for s in c['sws']:
        setsw(s, 0)
    if c['kind'] == 'seq':
        dev.reset_all_sequences()
    h.advance_time_and_run(5)
    _settle(h)
    del log[:]
    ev = []

    def obs(op, **kw):
        out = [e for (i, e) in log if i == cid]
        del log[:]
        rec = {'op': op, 'out': out, 'cstate': '', 'act': [False, False], 'active': [], 'pos': [], 'dact': []}
        if c['kind'] == 'combo':
            rec['cstate'] = str(dev.state)
            rec['act'] = [bool(dev._switches_1_active), bool(dev._switches_2_active)]     # pylint: disable=protected-access
        elif c['kind'] == 'timed':
            rec['active'] = sorted(x[len('k%d_' % cid):] for x in dev.active_switches)
        else:
            rec['pos'] = [int(x.current_position_index) for x in dev.active_sequences]
            rec['dact'] = sorted(x[len('k%d_' % cid):] for x in dev.active_delays)
        rec.update(kw)
        ev.append(rec)

    obs('init')
    tail = max(c['hold'], c['rel'], c['maxoff'] + 1, c['time'], c['timeout'], max([x['ms'] for x in c['dly']] or [0])) + 1
    for s in list(sched) + [{'op': 'adv'}] * tail:
        op = s['op']
        if op == 'init':
            continue
        if op == 'adv':
            h.advance_time_and_run(U * (1 + EPS) / 1000.0)
            _settle(h)
            obs('adv')
        elif op == 'sw':
            if int(m.switches[real(c, s['n'])].state) == int(s['v']):
                continue        # (hand-written schedules only) not a change
            setsw(s['n'], int(s['v']))
            obs('sw', n=s['n'], v=int(s['v']))
        elif op == 'ev':
            m.events.post(real(c, s['n']))
            _settle(h)
            obs('ev', n=s['n'])
        else:
            raise ValueError(op)
    return {'cfg': cfg_rec(c), 'ev': ev}


def handmade():
    A = {'op': 'adv'}
    P = lambda n: {'op': 'sw', 'n': n, 'v': 1}
    R = lambda n: {'op': 'sw', 'n': n, 'v': 0}
    E = lambda n: {'op': 'ev', 'n': n}
    return [
        # combo, defaults: both -> one -> inactive, and the other way round
        (1, [P('a'), P('b'), R('a'), R('b'), P('b'), P('a'), R('b'), R('a')]),
        # in state one the released group taps again while the other group is still held
        (1, [P('a'), P('b'), R('a'), P('a'), R('a'), R('b')]),
        (2, [P('a'), P('b'), A, A, R('a'), A, P('a'), A, R('a'), A, A, R('b'), A, A]),
        # glitches below hold / release time; second switch of a group keeps the group pressed
        (2, [P('a'), A, R('a'), P('c'), A, A, P('b'), A, R('b'), P('b'), A, A, R('c'), P('a'), A, R('a'), A]),
        (4, [P('a'), A, P('b'), A, R('a'), A, P('c'), R('c'), A, A, R('b'), A, A]),
        # offset: exactly at the limit, beyond it, only-events, tap shorter than the offset
        (3, [P('a'), A, P('b'), R('a'), R('b'), P('a'), A, A, P('b'), R('a'), R('b')]),
        (3, [P('a'), R('a'), A, A, P('b'), R('b'), P('b'), A, A]),
        (4, [P('a'), A, R('a'), A, A, P('a'), A, P('b'), A, A, A]),
        (5, [P('a'), P('b'), A, A, R('a'), P('a'), R('b'), A, A, R('a'), A, P('b'), A, A]),
        (5, [P('a'), A, P('b'), A, A, A, R('a'), R('b'), A, A]),
        # timed: overlap does not post again, a short activation posts nothing
        (6, [P('a'), A, A, P('b'), A, A, R('a'), A, R('b'), P('a'), A, R('a'), A]),
        (7, [P('a'), P('b'), R('a'), A, P('a'), R('b'), A, A]),
        (8, [P('a'), P('b'), R('a'), R('b')]),
        # sequence shot: in order, wrong order, overlapping sequences, timeout, delay window, cancel
        (9, [P('a'), P('b'), P('c'), R('a'), R('b'), R('c'), P('b'), P('c'), P('a'), R('c'), P('c')]),
        (9, [P('a'), A, R('a'), P('a'), P('b'), A, A, P('c'), R('b'), P('b'), A, R('c'), P('c')]),
        (9, [P('d'), P('a'), A, A, R('a'), P('a'), P('x'), P('b'), P('c')]),
        (9, [P('a'), P('b'), P('d'), P('c')]),
        (10, [E('ea'), E('ea'), E('eb'), E('eb'), E('eb'), E('ed'), E('ea'), A, A, E('ea'), E('eb')]),
        (11, [P('a'), R('a'), P('d'), P('a'), A, R('a'), P('a')]),
        (12, [E('ea'), E('eb'), E('ec'), E('eb'), E('ec'), E('ea'), E('ex'), E('ec'), E('ea'), A, A, A, A]),
    ]


def dev_use(tr):
    """Which named deviations a recorded execution shows (told from the observations alone)."""
    used = set()
    if tr['cfg']['kind'] != 'combo':
        return used
    now, since, prev = 0, [None, None], [False, False]
    for e in tr['ev']:
        if e['op'] == 'crash':
            break
        if e['op'] == 'adv':
            now += 1
        for g in (0, 1):
            if e['act'][g] and not prev[g]:
                since[g] = now
        if 'inactive' in e.get('out', ()) and any(e['act'][g] and prev[g] for g in (0, 1)):
            used.add('inactiveWhileHeld')
        for g in (0, 1):
            # posted for a group that is not activated (any more), or at the deadline of an earlier activation
            if 'switches_%d' % (g + 1) in e.get('out', ()) and (not e['act'][g] or now - since[g] != tr['cfg']['maxoff'] + 1):
                used.add('onlySurvivesRelease')
        prev = list(e['act'])
    return used


def write_cfgs(wd, quick):
    with open(wd + '/SwitchCombosMC.tla', 'w') as f:
        f.write(mc_module(TABLE))
    mt, mo = (5, 6) if quick else (7, 8)
    with open(wd + '/MC.cfg', 'w') as f:
        f.write(MC_CFG % ('Spec', 'MCNoDev', mt, mo, props_text(INVS, PROPS)))
    with open(wd + '/MCDev.cfg', 'w') as f:
        f.write(MC_CFG % ('Spec', 'MCAllDev', mt, mo, props_text(INVS, DEV_PROPS)))
    with open(wd + '/Gen.cfg', 'w') as f:
        f.write(MC_CFG % ('GSpec', 'MCAllDev', 14, 16, ''))
    with open(wd + '/Trace.cfg', 'w') as f:
        f.write("""SPECIFICATION TSpec
CONSTANTS
  Configs <- TConfigs
  Deviations <- TDeviations
  LongAgo <- TLongAgo
  MaxTime = 1000000
  MaxOps = 1000000
INVARIANT Reporter
CHECK_DEADLOCK FALSE
""")
    return mt, mo


def run(ctx):
    mdir = write_machine(ctx.scratch)
    wd = tlc.prepare(ctx.scratch, 'SwitchCombos', 'switchcombos')
    mt, mo = write_cfgs(wd, ctx.quick)
    bounds = {'configs': len(TABLE), 'MaxTime': mt, 'MaxOps': mo}
    # the statement (no deviation) and the code-shaped model (deviating branches on) are checked side by side
    from concurrent.futures import ThreadPoolExecutor
    with ThreadPoolExecutor(2) as ex:
        f1 = ex.submit(tlc.check, wd, 'SwitchCombosMC', 'MC.cfg', 8, 1500, not ctx.quick)
        f2 = ex.submit(tlc.check, wd, 'SwitchCombosMC', 'MCDev.cfg', 8, 1500)
        r, r2 = f1.result(), f2.result()
    tlc.expect_ok(r, 'SwitchCombos design check')
    tlc.expect_ok(r2, 'SwitchCombos check with deviations')
    ctx.add_tlc('SwitchCombosMC (statement, no deviation)', r, bounds)
    ctx.add_tlc('SwitchCombosMC (code-shaped, deviations on)', r2, bounds)
    cov = r.coverage()
    for a in ('Sw', 'Ev', 'Adv'):
        if a in cov and cov[a][0] == 0:
            raise tlc.TLCError('action %s never taken in the design check' % a)
    ctx.coverage['monitors'] += list(INVS) + list(PROPS)

    behs, _ = tlc.simulate(wd, 'SwitchCombosGen', 'Gen.cfg', num=360 if ctx.quick else 6000,
                           depth=50 if ctx.quick else 80, seed=ctx.seed)
    ctx.log('simulated %d behaviours' % len(behs))
    jobs = []
    for b in behs:
        sched = [st['act'] for st in b[1:] if st.get('pick') == 0]
        jobs.append((mdir, b[0]['cfg']['id'], sched))
    nsim = len(jobs)
    jobs += [(mdir, cid, sched) for cid, sched in handmade()]
    traces = harness.pmap(exec_schedule, jobs, chunk=8)
    ctx.log('executed %d schedules on the real devices' % len(traces))
    v = tlc.validate_traces(wd, 'SwitchCombosTrace', 'Trace.cfg', traces)
    ctx.add_trace_verdict('SwitchCombosTrace', v, len(traces))
    ctx.coverage['configs_exercised'] = sorted({j[1] for j in jobs})
    ctx.coverage['schedules'] = {'simulated': nsim, 'handmade': len(jobs) - nsim}
    ctx.sample({'kind': 'switchcombos-trace', 'cfg': traces[-1]['cfg'], 'trace': traces[-1]['ev'][:10]})

    # reachability of the interesting observations in the executions themselves
    seen = {}
    for tr in traces:
        for e in tr['ev']:
            for o in e.get('out', ()):
                k = '%s:%s' % (tr['cfg']['kind'], o)
                seen[k] = seen.get(k, 0) + 1
    ctx.coverage['posted_events_seen'] = seen
    missing = [k + ':' + e for k, es in SUFFIX.items() for e in es if ('%s:%s' % (k, e)) not in seen]
    if missing and not v.rejected:
        raise tlc.TLCError('vacuous: events never posted in any execution: %s' % missing)
    use = {}
    for tr in traces:
        for d in dev_use(tr):
            use[d] = use.get(d, 0) + 1
    ctx.coverage['deviation_use'] = use
    # the executions that show a deviation are exactly what the statement model (no deviating branch) must not explain
    flagged = [tr for tr in traces if dev_use(tr)][:40 if ctx.quick else 400]
    if flagged:
        with open(wd + '/TraceNoDev.cfg', 'w') as f:
            f.write(open(wd + '/Trace.cfg').read().replace('Deviations <- TDeviations', 'Deviations <- TConfigs'))
        v0 = tlc.validate_traces(wd, 'SwitchCombosTrace', 'TraceNoDev.cfg', flagged, diagnose=False)
        ctx.notes.append('%d of %d executions showing a named deviation are rejected by the model without deviations' % (
            len(v0.rejected), len(flagged)))
        if len(v0.rejected) != len(flagged):
            ctx.notes.append('deviation bookkeeping (python side) and the model disagree on %d executions' % (
                len(flagged) - len(v0.rejected)))
    for d in DEVIATIONS:
        ctx.notes.append('named deviation %s shown by %d of %d executions' % (d, use.get(d, 0), len(traces)))

    tlc.finish_diagnosis(wd, 'SwitchCombosTrace', 'Trace.cfg', traces, v)
    for i, info in sorted(v.rejected.items()):
        if info.get('line') is None:
            continue
        fe = info.get('failing_event') or {}
        ctx.violation('X06:%s:%s' % (traces[i]['cfg']['kind'], fe.get('op', '?')),
                      'execution not explained by SwitchCombos spec at line %s: %s (prev %s; cfg %s)%s' % (
                          info.get('line'), fe, info.get('prev_event'), traces[i]['cfg'],
                          ('; ' + traces[i]['_tb'][-300:]) if traces[i].get('_tb') else ''),
                      {'cid': jobs[i][1], 'sched': jobs[i][2], 'trace': traces[i], 'info': info})
    ctx.assumptions += [
        'devices are machine-wide; switches are driven through switch_controller.process_switch(name, state, logical=True)',
        'virtual time, one abstract unit = 50..200 ms per device; max_offset_time is configured half a unit above the '
        'modelled limit (float-safe boundary)',
        'every schedule starts from the settled device (all switches released for 5 s, sequences in flight reset)']


def replay(ctx, data):
    d = data['replay']
    mdir = write_machine(ctx.scratch)
    tr = exec_schedule((mdir, d['cid'], d['sched']))
    print('replay trace:')
    for e in tr['ev']:
        print('  ', e)
