"""C01 — event dispatch is complete, priority-ordered and serial (specs/EventBus)."""
import random

from lib import tlc, harness

LEVEL = 'model_checking'
_H = {}
CTXS = ['direct', 'call_soon', 'delay', 'switch', 'swtimed']


def cfg_text(spec, evs, hids, maxposts, maxops, dev, tys, hks, conds, cs, invs=True, trace=False):
    inv = ''
    if invs:
        inv = 'INVARIANT DepthFirst\nINVARIANT PriorityOrder\nINVARIANT Serial\nINVARIANT CallbackOnce\n' \
              'PROPERTY CallbackAfterSubtree\nPROPERTY Complete\n'
    if trace:
        inv = 'INVARIANT Reporter\n'
    return """SPECIFICATION %s
CONSTANTS
  Ev = %s
  Hid = %s
  Prio = {1, 2, 3}
  MaxPosts = %d
  MaxOps = %d
  Deviations = %s
  TySet = %s
  HkSet = %s
  CondSet <- %s
  CSet = %s
%sCHECK_DEADLOCK FALSE
""" % (spec, evs, hids, maxposts, maxops, dev, tys, hks, conds, cs, inv)


def _machine():
    if 'h' not in _H:
        _H['h'] = harness.boot('base')
    return _H['h']


_BOOT = {}


def boot_hook(machine):
    run = _BOOT.get('run')
    if run is not None:
        run.on_boot(machine)


class BusRun:
    def __init__(self, sched, ctxkind, nestkind='direct'):
        self.nestkind = nestkind
        self.depth = 0
        if ctxkind != 'boot':
            self.h = _machine()
            self.m = self.h.machine
            self.evm = self.m.events
        self.sched = sched
        self.ctxkind = ctxkind
        self.ev = []
        self.consumed = set()
        self.ninst = 0
        self.keys = {}
        self.handlers = {}
        self.regd = {}
        self.nk_inst = -1

    # ---- programs taken from the schedule
    def program(self, kind, **match):
        for i, s in enumerate(self.sched):
            if i in self.consumed or s['op'] != kind:
                continue
            if all(s.get(k) == v for k, v in match.items()):
                self.consumed.add(i)
                j = i + 1
                prog = []
                while j < len(self.sched) and self.sched[j]['op'] in ('post', 'add', 'remove', 'replace'):
                    self.consumed.add(j)
                    prog.append(self.sched[j])
                    j += 1
                end = None
                if j < len(self.sched) and self.sched[j]['op'] in ('ret', 'cbend'):
                    self.consumed.add(j)
                    end = self.sched[j]
                return prog, end
        return [], None

    def mk_handler(self, hid):
        def hnd(**kwargs):
            inst = kwargs.get('inst', self.nk_inst)      # (a post without kwargs carries no instance id either)
            self.ev.append({'op': 'invoke', 'inst': inst, 'h': hid, 'a': str(kwargs.get('a', 'MISSING')),
                            'c': kwargs.get('c', -1), 'r': str(kwargs.get('r', 'MISSING'))})
            prog, end = self.program('invoke', inst=inst, h=hid)
            self.depth += 1
            try:
                for s in prog:
                    self.do(s)
            finally:
                self.depth -= 1
            val = end['val'] if end else 'none'
            self.ev.append({'op': 'ret', 'val': val})
            if val == 'false':
                return False
            if val == 'dict':
                if inst % 2 == 0:
                    # as real handlers may: the returned arguments also carry a blocking entry (for a facility nobody
                    # uses here, so nothing is blocked); the other returned keys must still be taken over
                    return {'a': hid, 'r': hid, '_min_priority': {'verif_unused_facility': 1}}
                return {'a': hid, 'r': hid}
            return None
        return hnd

    def mk_cb(self, inst):
        def cb(**kwargs):
            self.ev.append({'op': 'callback', 'inst': inst, 'a': str(kwargs.get('a', 'MISSING')),
                            'res': 'false' if kwargs.get('ev_result', None) is False else 'none'})
            prog, _ = self.program('callback', inst=inst)
            for s in prog:
                self.do(s)
            self.ev.append({'op': 'cbend'})
        return cb

    def do(self, s):
        op = s['op']
        if op == 'post':
            self.ninst += 1
            i = self.ninst
            self.ev.append({'op': 'post', 'ev': s['ev'], 'ty': s['ty'], 'cb': bool(s['cb']), 'c': s['c']})
            f = {'plain': self.evm.post, 'boolean': self.evm.post_boolean, 'relay': self.evm.post_relay}[s['ty']]
            if s['c'] == -1:
                # a post without any kwargs (hand-written schedules only, one such instance per run)
                self.nk_inst = i
                go = lambda: f('vb_' + s['ev'], callback=self.mk_cb(i) if s['cb'] else None)
            else:
                go = lambda: f('vb_' + s['ev'], callback=self.mk_cb(i) if s['cb'] else None, inst=i, a='p', c=s['c'])
            if self.depth and self.nestkind == 'run_now':
                # the handler posts through a delay it runs at once (as e.g. the bonus mode's hurry-up does)
                self.m.delay.add(ms=5000, callback=go, name='vb_nested')
                self.m.delay.run_now('vb_nested')
            elif self.depth and self.nestkind == 'switch':
                # the handler reports a switch change whose (untimed) switch handler posts the event
                new = 1 - int(self.m.switches['s_nc'].state)
                self.m.switch_controller.add_switch_handler('s_nc', go, state=new, ms=0)
                self.m.switch_controller.process_switch('s_nc', new, logical=True)
                self.m.switch_controller.remove_switch_handler('s_nc', go, state=new, ms=0)
            else:
                go()
        elif op == 'add':
            if s['h'] in self.keys:
                return
            hnd = self.mk_handler(s['h'])
            name = 'vb_' + s['ev'] + {-1: '', 0: '{c==0}', 1: '{c==1}', 2: '{a=="h"}', 3: '{a=="p"}'}[s['cond']]
            kw = {'a': 'h'} if s['hk'] else {}
            self.keys[s['h']] = self.evm.add_handler(name, hnd, priority=s['prio'], **kw)
            self.regd[s['h']] = (name, hnd, kw)
            self.ev.append({'op': 'add', 'h': s['h'], 'ev': s['ev'], 'prio': s['prio'], 'hk': bool(s['hk']), 'cond': s['cond']})
        elif op == 'remove':
            if s['h'] not in self.keys:
                return
            self.evm.remove_handler_by_key(self.keys.pop(s['h']))
            self.ev.append({'op': 'remove', 'h': s['h']})
        elif op == 'replace':
            if s['h'] not in self.keys:
                return
            name, hnd, kw = self.regd[s['h']]
            if '{' in name:
                return      # replace_handler is only defined for unconditional registrations (the spec's guard): not driven
            self.keys[s['h']] = self.evm.replace_handler(name, hnd, priority=s['prio'], **kw)
            self.ev.append({'op': 'replace', 'h': s['h'], 'prio': s['prio']})

    def in_context(self, fn):
        h, m = self.h, self.m
        k = self.ctxkind
        if k == 'direct':
            fn()
        elif k == 'call_soon':
            m.clock.loop.call_soon(fn)
        elif k == 'delay':
            m.delay.add(ms=1, callback=fn)
            h.advance_time_and_run(0.002)
        elif k == 'switch':
            m.switch_controller.add_switch_handler('s_no', fn, state=1, ms=0)
            m.switch_controller.process_switch('s_no', 1, logical=True)
            m.switch_controller.remove_switch_handler('s_no', fn, state=1, ms=0)
            m.switch_controller.process_switch('s_no', 0, logical=True)
        elif k == 'swtimed':
            m.switch_controller.add_switch_handler('s_no', fn, state=1, ms=5)
            m.switch_controller.process_switch('s_no', 1, logical=True)
            h.advance_time_and_run(0.006)
            m.switch_controller.remove_switch_handler('s_no', fn, state=1, ms=5)
            m.switch_controller.process_switch('s_no', 0, logical=True)
        for _ in range(3):
            h.advance_time_and_run(0)

    def bursts(self):
        """The top-level bursts of the schedule, in order (consumes them)."""
        i, n = 0, len(self.sched)
        while i < n:
            if i in self.consumed or self.sched[i]['op'] not in ('post', 'add', 'remove', 'replace'):
                i += 1
                continue
            burst = []
            while i < n and i not in self.consumed and self.sched[i]['op'] in ('post', 'add', 'remove', 'replace'):
                burst.append(self.sched[i])
                self.consumed.add(i)
                i += 1
            yield burst

    def on_boot(self, machine):
        """Called from custom code while MPF boots: the first burst runs right here (no event is being handled), the second
        from a handler of the boot's own init_phase_5 queue event."""
        self.m = machine
        self.evm = machine.events
        gen = self.bursts()
        self._gen = gen
        first = next(gen, None)
        if first:
            for s in first:
                self.do(s)

        def later(**kwargs):
            b = next(gen, None)
            if b:
                for s in b:
                    self.do(s)
        self.keys['_boot5'] = self.evm.add_handler('init_phase_5', later, priority=1)

    def run_boot(self):
        _BOOT['run'] = self
        try:
            self.h = harness.boot('base_boot')
        finally:
            _BOOT['run'] = None
        try:
            self.ctxkind = 'direct'
            for _ in range(3):
                self.h.advance_time_and_run(0)
            for burst in self._gen:
                self.in_context(lambda b=burst: [self.do(s) for s in b])
            for _ in range(3):
                self.h.advance_time_and_run(0)
            self.ev.append({'op': 'quiesce'})
        finally:
            harness.shutdown(self.h)
        return self.ev

    def run(self):
        if self.ctxkind == 'boot':
            return self.run_boot()
        try:
            i = 0
            n = len(self.sched)
            while i < n:
                if i in self.consumed or self.sched[i]['op'] not in ('post', 'add', 'remove', 'replace'):
                    i += 1
                    continue
                burst = []
                while i < n and i not in self.consumed and self.sched[i]['op'] in ('post', 'add', 'remove', 'replace'):
                    burst.append(self.sched[i])
                    self.consumed.add(i)
                    i += 1
                self.in_context(lambda b=burst: [self.do(s) for s in b])
            for _ in range(3):
                self.h.advance_time_and_run(0)
            self.ev.append({'op': 'quiesce'})
        finally:
            for k in list(self.keys.values()):
                self.evm.remove_handler_by_key(k)
            self.keys.clear()
        return self.ev


def exec_schedule(job):
    sched, ctxkind = job[0], job[1]
    nk = job[2] if len(job) > 2 else 'direct'
    try:
        return {'ev': BusRun(sched, ctxkind, nk).run(), '_ctx': ctxkind, '_nest': nk}
    except Exception as ex:  # pylint: disable=broad-except
        import traceback
        return {'ev': [{'op': 'crash', 'what': repr(ex)[:300]}], '_ctx': ctxkind, '_tb': traceback.format_exc()[-2000:]}


def handmade():
    P = lambda e, ty='plain', cb=False, c=1: {'op': 'post', 'ev': e, 'ty': ty, 'cb': cb, 'c': c}
    A = lambda h, e, p, hk=False, cond=-1: {'op': 'add', 'h': h, 'ev': e, 'prio': p, 'hk': hk, 'cond': cond}
    I = lambda i, h: {'op': 'invoke', 'inst': i, 'h': h}
    R = lambda v='none': {'op': 'ret', 'val': v}
    return [
        # three levels with pending siblings at two levels: A, B waiting; A posts A1, A2; A1 posts A1a
        [A('h1', 'e1', 2), A('h2', 'e2', 1), A('h3', 'e3', 1), P('e1', cb=True), P('e3'),
         I(1, 'h1'), P('e2'), P('e3', cb=True), R(), I(3, 'h2'), P('e3'), R()],
        # relay chain and boolean stop with callbacks
        [A('h1', 'e1', 3), A('h2', 'e1', 2, True), A('h3', 'e1', 1), P('e1', 'relay', True), I(1, 'h1'), R('dict'),
         I(1, 'h2'), R('dict'), I(1, 'h3'), R(), P('e1', 'boolean', True), I(2, 'h1'), R(), I(2, 'h2'), R('false')],
        # handler removes a lower-priority neighbour and itself during dispatch, then event again
        [A('h1', 'e1', 3), A('h2', 'e1', 2), A('h3', 'e1', 1), P('e1'), P('e1'), I(1, 'h1'),
         {'op': 'remove', 'h': 'h1'}, {'op': 'remove', 'h': 'h2'}, R()],
        # a relay event posted without any kwargs: what the handlers return must still reach the later ones
        [A('h1', 'e1', 3), A('h2', 'e1', 2, True), A('h3', 'e1', 1), P('e1', 'relay', True, c=-1), I(1, 'h1'), R('dict'),
         I(1, 'h2'), R('dict'), I(1, 'h3'), R()],
        [A('h1', 'e2', 3, True), A('h2', 'e2', 2), A('h3', 'e2', 1, True), P('e2', 'relay', False, c=-1), I(1, 'h1'), R('dict'),
         I(1, 'h2'), R(), I(1, 'h3'), R('dict')],
        # callback posts a new event; nested callbacks
        [A('h1', 'e1', 1), A('h2', 'e2', 1), P('e1', cb=True), I(1, 'h1'), P('e2', cb=True), R(),
         {'op': 'callback', 'inst': 2}, P('e1'), {'op': 'cbend'}],
    ]


def run(ctx):
    wd = tlc.prepare(ctx.scratch, 'EventBus', 'eventbus')
    with open(wd + '/MC.cfg', 'w') as f:
        if ctx.quick:
            f.write(cfg_text('MCSpec', '{"e1", "e2"}', '{"h1", "h2"}', 3, 4, '{}', '{"plain", "boolean"}', '{FALSE}',
                             'DefaultCondSet', '{1}'))
        else:
            # MaxPosts 4 / MaxOps 5 does not finish within an hour on 16 cores (measured in round 5: the thorough tier
            # had never printed a verdict with it); 3 / 5 with two priorities is 1.9M states
            f.write(cfg_text('MCSpec', '{"e1", "e2"}', '{"h1", "h2"}', 3, 5, '{}', '{"plain", "boolean"}', '{FALSE}',
                             'DefaultCondSet', '{1}').replace('Prio = {1, 2, 3}', 'Prio = {1, 2}'))
    r = tlc.expect_ok(tlc.check(wd, 'EventBusMC', 'MC.cfg', timeout=3000), 'EventBus design check')
    ctx.add_tlc('EventBusMC', r, {'Ev': 2, 'Hid': 2, 'MaxPosts': 3, 'MaxOps': 4 if ctx.quick else 5, 'Prio': 3 if ctx.quick else 2})
    if not ctx.quick:
        # the quick configuration (three priorities, 4 operations) as well: neither contains the other
        with open(wd + '/MC3.cfg', 'w') as f:
            f.write(cfg_text('MCSpec', '{"e1", "e2"}', '{"h1", "h2"}', 3, 4, '{}', '{"plain", "boolean"}', '{FALSE}',
                             'DefaultCondSet', '{1}'))
        r = tlc.expect_ok(tlc.check(wd, 'EventBusMC', 'MC3.cfg', timeout=3000), 'EventBus design check (three priorities)')
        ctx.add_tlc('EventBusMC/3prio', r, {'Ev': 2, 'Hid': 2, 'MaxPosts': 3, 'MaxOps': 4, 'Prio': 3})
    ctx.coverage['monitors'] += ['DepthFirst', 'PriorityOrder', 'Serial', 'CallbackOnce', 'CallbackAfterSubtree', 'Complete']
    with open(wd + '/Gen.cfg', 'w') as f:
        f.write(cfg_text('Spec', '{"e1", "e2", "e3"}', '{"h1", "h2", "h3", "h4"}', 9, 18, '{}',
                         '{"plain", "boolean", "relay"}', '{TRUE, FALSE}', 'FullCondSet', '{0, 1}', invs=False))
    behs, _ = tlc.simulate(wd, 'EventBus', 'Gen.cfg', num=400 if ctx.quick else 6000, depth=60 if ctx.quick else 90,
                           seed=ctx.seed)
    rnd = random.Random(ctx.seed)
    NK = ['direct', 'direct', 'run_now', 'switch']
    jobs = [([s['act'] for s in b], rnd.choice(CTXS), rnd.choice(NK)) for b in behs]
    for s in handmade():
        jobs += [(s, c, k) for c in CTXS for k in ('direct', 'run_now', 'switch')]
    # posted while MPF boots: the first burst from custom code (between init_phase_3 and init_phase_4), the second from a
    # handler of init_phase_5; every such schedule boots a machine of its own
    jobs += [(s, 'boot', 'direct') for s in handmade()]
    jobs += [([s['act'] for s in b], 'boot', rnd.choice(NK)) for b in behs[:(24 if ctx.quick else 400)]]
    traces = harness.pmap(exec_schedule, jobs, chunk=8)
    with open(wd + '/Trace.cfg', 'w') as f:
        f.write(cfg_text('TSpec', '{}', '{}', 10 ** 6, 10 ** 6, '{}', '{}', '{}', 'DefaultCondSet', '{}', invs=False, trace=True))
    v = tlc.validate_traces(wd, 'EventBusTrace', 'Trace.cfg', traces)
    ctx.add_trace_verdict('EventBusTrace', v, len(traces))
    ctx.sample({'kind': 'eventbus-trace', 'ctx': traces[0]['_ctx'], 'trace': traces[0]['ev'][:16]})
    rej = sorted(v.rejected)
    if rej:
        # second pass: are the rejected traces explained by the recorded deviation of the code?
        with open(wd + '/TraceDev.cfg', 'w') as f:
            f.write(cfg_text('TSpec', '{}', '{}', 10 ** 6, 10 ** 6, '{"FastPathDrop"}', '{}', '{}', 'DefaultCondSet', '{}',
                             invs=False, trace=True))
        sub = [traces[i] for i in rej]
        v2 = tlc.validate_traces(wd, 'EventBusTrace', 'TraceDev.cfg', sub, diagnose=False)
        ctx.add_trace_verdict('EventBusTrace(Deviations={FastPathDrop})', v2, 0)
        tlc.finish_diagnosis(wd, 'EventBusTrace', 'Trace.cfg', traces, v, skip={rej[k] for k in v2.accepted})
        for k, i in enumerate(rej):
            info = v.rejected[i]
            if k in v2.accepted:
                ctx.violation('C01:fast-path-drop', 'event posted without callback while no handler is registered is '
                              'dropped at post time although a handler is registered before its dispatch would begin',
                              {'job': list(jobs[i]), 'trace': traces[i], 'info': info})
                continue
            if info.get('line') is None:
                continue
            fe = info.get('failing_event') or {}
            pe = info.get('prev_event') or {}
            ctx.violation('C01:%s-after-%s' % (fe.get('op', 'end'), pe.get('op', 'start')),
                          'event bus execution (context %s) not explained by EventBus spec at line %s: %s (prev %s)' % (
                              jobs[i][1], info.get('line'), fe, pe), {'job': list(jobs[i]), 'trace': traces[i], 'info': info})
    # ---- queue events are events too: delivery, order, conditions and kwarg precedence on the post_queue path
    from drivers import c02
    wdq = tlc.prepare(ctx.scratch, 'QueueEvents', 'queueevents_c01')
    with open(wdq + '/MCK.cfg', 'w') as f:
        f.write(c02.cfg_text('MCSpec', '{"q1"}', '{"h1", "h2"}', 1 if ctx.quick else 2, 4 if ctx.quick else 5,
                             c02.MC_INV + 'INVARIANT CondRespected\n', '{TRUE, FALSE}', 'FullCondSet', '{0, 1}')
                .replace('Prio = {1, 2, 3}', 'Prio = {1, 2}'))
    r = tlc.expect_ok(tlc.check(wdq, 'QueueEventsMC', 'MCK.cfg', timeout=3000), 'QueueEvents design check (kwargs, conditions)')
    ctx.add_tlc('QueueEventsMC (kwargs + conditions)', r, {'Ev': 1, 'Hid': 2, 'MaxTasks': 1 if ctx.quick else 2, 'MaxOps': 4 if ctx.quick else 5})
    ctx.coverage['monitors'] += ['CondRespected (queue events)']
    c02.queue_traces(ctx, wdq, True, 'C01', 120 if ctx.quick else 2500, 50 if ctx.quick else 80, with_modes=False)
    ctx.assumptions += ['boot context: custom code loaded after init_phase_3 and a handler of init_phase_5', 'handlers are plain functions or, on the queue-event path, '
                        'coroutines; waiting/completion of queue events is judged by C02']
    suite_traces(ctx, wd)


def suite_traces(ctx, wd, modules=None):
    """The repository's own tests as trace sources: every event cascade of every machine they boot (cut into segments
    between quiescent points by lib/suite_rec.py) must be a behaviour of EventBus (EventBusSuiteTrace)."""
    from lib import suite
    mods = modules or (suite.QUICK_MODULES if ctx.quick else suite.all_modules())
    segs, st = suite.record(ctx, mods, 'bus')
    ctx.log('suite recorder: %d modules, %d segments (%d distinct, %d lines), tainted %s' % (
        st.get('modules', 0), st.get('segments', 0), len(segs), sum(len(t['ev']) for t in segs),
        {k: v for k, v in st.items() if k.startswith('tainted')}))
    if not segs or st.get('segments', 0) < 1000 * min(1, len(mods) // 10):
        raise tlc.TLCError('suite recorder produced no / too few segments: %s' % {k: v for k, v in st.items() if k != 'module_results'})
    with open(wd + '/Suite.cfg', 'w') as f:
        f.write(cfg_text('TSpec', '{}', '{}', 10 ** 6, 10 ** 6, '{}', '{}', '{}', 'DefaultCondSet', '{}', invs=False, trace=True))
    v = tlc.validate_traces(wd, 'EventBusSuiteTrace', 'Suite.cfg', segs, workers=8, batch=3000)
    ctx.add_trace_verdict('EventBusSuiteTrace (segments recorded from the repository tests)', v, len(segs))
    ctx.coverage['suite'] = {k: v2 for k, v2 in st.items() if k != 'module_results'}
    ctx.coverage['suite']['executions_recorded'] = st.get('segments', 0)
    ctx.sample({'kind': 'suite-segment', 'src': segs[0]['_src'], 'reg0': segs[0]['reg0'][:6], 'trace': segs[0]['ev'][:14]})
    if v.rejected:
        tlc.finish_diagnosis(wd, 'EventBusSuiteTrace', 'Suite.cfg', segs, v)
        for i, info in sorted(v.rejected.items()):
            fe = info.get('failing_event') or {}
            pe = info.get('prev_event') or {}
            ctx.violation('C01:suite:%s-after-%s' % (fe.get('op', 'end'), pe.get('op', 'start')),
                          'event cascade recorded from %s is not a behaviour of EventBus at line %s: %s (prev %s)' % (
                              segs[i]['_src'], info.get('line'), fe, pe),
                          {'kind': 'suite', 'src': segs[i]['_src'], 'trace': {k: v2 for k, v2 in segs[i].items()}, 'info': info})


def replay(ctx, data):
    d = data['replay']
    if d.get('kind') == 'queue':
        from drivers import c02
        return c02.replay(ctx, data)
    if d.get('kind') == 'suite':
        wd = tlc.prepare(ctx.scratch, 'EventBus', 'eventbus')
        return suite_traces(ctx, wd, modules=[d['src'].split('::')[0].split('/')[-1][:-3]])
    tr = exec_schedule(tuple(d['job']))
    print('replay trace:', tr['ev'])
    wd = tlc.prepare(ctx.scratch, 'EventBus', 'eventbus')
    with open(wd + '/Trace.cfg', 'w') as f:
        f.write(cfg_text('TSpec', '{}', '{}', 10 ** 6, 10 ** 6, '{}', '{}', '{}', 'DefaultCondSet', '{}', invs=False, trace=True))
    v = tlc.validate_traces(wd, 'EventBusTrace', 'Trace.cfg', [tr])
    for i, info in v.rejected.items():
        ctx.violation(data['sig'], 'replayed: %s' % info, d)
