"""C03 — switch state mirrors the hardware; handlers fire once per real change (specs/Switches)."""
import random

from lib import tlc, harness

LEVEL = 'model_checking'
UNITS = [1, 10, 50, 100]
EPS = 1e-6
SWS = ['s_no', 's_nc']
NUM = {'s_no': '1', 's_nc': '2'}
_H = {}
TRACE_HIDS = '{' + ', '.join('"h%d_%d"' % (a, b) for a in (1, 2, 3) for b in range(1, 17)) + '}'


def cfg_text(spec, held, maxtime, maxops, hids, holds, trace=False):
    inv = [] if trace else ['INVARIANT Mirror', 'INVARIANT TimedSound', 'INVARIANT TimedComplete']
    return """SPECIFICATION %s
CONSTANTS
  Sw = {"s_no", "s_nc"}
  Inv <- %s
  Hid = %s
  Hold = %s
  HeldSw = "s_no"
  HeldMs = %d
  MaxTime = %d
  MaxOps = %d
  Lax = 0
  MuteSw = {"s_no"}
  LongAgo <- %s
%s
PROPERTY DuplicateInert
PROPERTY RemovedNeverFires
%s
CHECK_DEADLOCK FALSE
""" % (spec, 'TInv' if trace else 'MCInv', hids, holds, held, maxtime, maxops,
       'TLongAgo' if trace else 'MCLongAgo', '\n'.join(inv), 'INVARIANT Reporter' if trace else '')


def _machine(prod=False):
    key = 'h_prod' if prod else 'h'
    if key not in _H:
        # production mode takes different branches in the switch controller (no duplicate warning)
        h = harness.boot('base', options={'production': True} if prod else None)
        _H[key] = h
        _H.setdefault('sink', [None])
        ev = h.machine.events
        for s in SWS:
            for n, suffix in ((1, 'active'), (0, 'inactive')):
                ev.add_handler('%s_%s' % (s, suffix), _mk_ev(('deliver', s, n)))
        ev.add_handler('s_no_held', _mk_ev(('held',)))
    return _H[key]


def _mk_ev(tag):
    def hnd(**kwargs):
        run = _H['sink'][0]
        if run is not None:
            run.on_event(tag)
    return hnd


class SwitchRun:
    def __init__(self, sched, unit, prod=False, shared=False):
        # shared: registrations on one switch use ONE callable (as devices do that register the same method for both
        # states / several hold times); which registration fired is told from the switch state and the time since its
        # last change.  Registrations whose (state, ms) is already taken by the shared callable get a callable of their own.
        self.shared = shared
        self.shcb = {}
        self.in_report = False
        self.changed_at = {}
        self.h = _machine(prod)
        self.m = self.h.machine
        self.sc = self.m.switch_controller
        self.sched = sched
        self.U = unit
        self.ev = []
        self.consumed = set()
        self.pos = 0
        self.keys = {}      # id -> (switch name, callback, state, ms_real)
        self.gen = {}       # schedule id -> registrations so far (every registration gets a fresh id)
        self.offset = 0.0   # seconds already advanced into the current unit

    def units_now(self):
        x = (self.m.clock.get_time() - self.t0) * 1000.0 / self.U
        k = round(x)
        return k if abs(x - k) < 1e-3 else -1

    def on_event(self, tag):
        if tag[0] == 'deliver':
            self.ev.append({'op': 'deliver', 'sw': tag[1], 'state': tag[2]})
        else:
            self.ev.append({'op': 'tfire', 'id': 'e_held', 't': self.units_now(), 'rm': ''})

    def obs(self):
        return ({s: int(self.m.switches[s].state) for s in SWS}, {s: int(self.m.switches[s].hw_state) for s in SWS})

    def queries(self):
        q = {}
        two = 2 * self.U
        for s in SWS:
            sw = self.m.switches[s]
            q[s] = [bool(self.sc.is_active(sw)), bool(self.sc.is_active(sw, ms=two)), bool(self.sc.is_inactive(sw, ms=two))]
        return q

    def shared_cb(self, sw):
        if sw not in self.shcb:
            def cb():
                st = int(self.m.switches[sw].state)
                now = self.m.clock.get_time()
                cands = [(hid, k) for hid, k in self.keys.items() if k[0] == sw and k[1] is cb and k[2] == st]
                if self.in_report:
                    cands = [(hid, k) for hid, k in cands if k[3] == 0]
                else:
                    since = (now - self.changed_at.get(sw, -1e9)) * 1000.0
                    cands = [(hid, k) for hid, k in cands if k[3] > 0 and abs(since - k[3]) < 0.5 * self.U]
                if len(cands) != 1:
                    self.ev.append({'op': 'crash', 'what': 'shared callable of %s called, %d registrations match' % (sw, len(cands))})
                    return
                hid, k = cands[0]
                self.fire(hid, k[3] > 0, k[4])
            self.shcb[sw] = cb
        return self.shcb[sw]

    def mk_cb(self, hid, timed, rid):
        def cb():
            self.fire(hid, timed, rid)
        return cb

    def fire(self, hid, timed, rid):
        if True:
            if timed:
                # the schedule may let this callback remove another handler on the spot
                rm = ''
                for i in range(self.pos, len(self.sched)):
                    s = self.sched[i]
                    if i not in self.consumed and s['op'] == 'tfire' and s['id'] == hid:
                        self.consumed.add(i)
                        rm = s.get('rm', '')
                        break
                rmid = self.keys[rm][4] if rm in self.keys else ''
                self.ev.append({'op': 'tfire', 'id': rid, 't': self.units_now(), 'rm': rmid})
                if rmid:
                    sw, cb2, state, ms, _ = self.keys.pop(rm)
                    self.sc.remove_switch_handler(sw, cb2, state=state, ms=ms)
                return
            self.ev.append({'op': 'call', 'id': rid})
            idx = None
            for i in range(self.pos, len(self.sched)):
                s = self.sched[i]
                if i not in self.consumed and s['op'] == 'call' and s['id'] == hid:
                    idx = i
                    break
            if idx is None:
                return
            self.consumed.add(idx)
            j = idx + 1
            while j < len(self.sched) and self.sched[j].get('nested') is True:
                self.consumed.add(j)
                self.do(self.sched[j])
                j += 1

    def do(self, s):
        op = s['op']
        if op == 'add':
            if s['id'] in self.keys:
                return
            self.gen[s['id']] = self.gen.get(s['id'], 0) + 1
            rid = '%s_%d' % (s['id'], self.gen[s['id']])
            ms = s['ms'] * self.U
            cb = self.mk_cb(s['id'], s['ms'] > 0, rid)
            if self.shared and not any(k[0] == s['sw'] and k[1] is self.shcb.get(s['sw']) and k[2] == s['state'] and k[3] == ms
                                       for k in self.keys.values()):
                cb = self.shared_cb(s['sw'])
            self.sc.add_switch_handler(s['sw'], cb, state=s['state'], ms=ms)
            self.keys[s['id']] = (s['sw'], cb, s['state'], ms, rid)
            self.ev.append({'op': 'add', 'id': rid, 'sw': s['sw'], 'state': s['state'], 'ms': s['ms'],
                            'nested': bool(s.get('nested'))})
        elif op == 'remove':
            if s['id'] not in self.keys:
                return
            sw, cb, state, ms, rid = self.keys.pop(s['id'])
            self.sc.remove_switch_handler(sw, cb, state=state, ms=ms)
            self.ev.append({'op': 'remove', 'id': rid, 'nested': bool(s.get('nested'))})
        elif op == 'mute':
            # Switch.mute / unmute (what ball search and drop targets do): changes are mirrored, handlers are not called
            sw = self.m.switches[s['sw']]
            if bool(s['m']) == bool(sw.is_muted):
                return
            (sw.mute if s['m'] else sw.unmute)(source='verif')
            self.ev.append({'op': 'mute', 'sw': s['sw'], 'm': bool(s['m'])})
        elif op == 'report':
            self.ev.append({'op': 'report', 'sw': s['sw'], 'v': s['v'], 'logical': bool(s['logical'])})
            before = int(self.m.switches[s['sw']].state)
            self.in_report = True
            # (a handler called during the report may ask for the time of this change)
            self.changed_at_prev = self.changed_at.get(s['sw'])
            try:
                if s['logical']:
                    self.sc.process_switch(s['sw'], s['v'], logical=True)
                else:
                    self.sc.process_switch_by_num(NUM[s['sw']], s['v'], self.m.switches[s['sw']].platform, logical=False)
            finally:
                self.in_report = False
            if int(self.m.switches[s['sw']].state) != before:
                self.changed_at[s['sw']] = self.m.clock.get_time()
            st, hw = self.obs()
            self.ev.append({'op': 'endreport', 'st': st, 'hw': hw})
        else:
            raise ValueError(op)

    def sync(self):
        st, _ = self.obs()
        self.ev.append({'op': 'sync', 'q': self.queries(), 'st': st})

    def run(self):
        h = self.h
        # reset to the model's initial state, long before t0
        for s in SWS:
            self.m.switches[s].unmute(source='verif')
            self.sc.process_switch_by_num(NUM[s], 0, self.m.switches[s].platform, logical=False)
        h.advance_time_and_run(60)
        _H['sink'][0] = self
        self.t0 = self.m.clock.get_time()
        try:
            for i, s in enumerate(self.sched):
                self.pos = i
                if i in self.consumed or s['op'] in ('init', 'call', 'endreport', 'deliver', 'tfire'):
                    continue
                if s.get('nested') is True:
                    continue
                if s['op'] == 'tick':
                    self.ev.append({'op': 'tick'})
                    h.advance_time_and_run(self.U * (1 + EPS) / 1000.0 - self.offset)
                    self.offset = 0.0
                    self.sync()
                    continue
                if (s['op'] == 'add' and s.get('ms', 0) > 0 and i % 2 == 0 and i + 1 < len(self.sched)
                        and self.sched[i + 1]['op'] == 'tick' and not self.offset):
                    # a timed handler registered 0.4 ms before the end of this unit (i.e. possibly that close to its
                    # original deadline); the tick that follows completes the unit
                    self.offset = self.U / 1000.0 - 0.0004
                    h.advance_time_and_run(self.offset)
                    self.do(s)
                    continue
                self.do(s)
                h.advance_time_and_run(0)
                h.advance_time_and_run(0)
                self.sync()
            for _ in range(4):
                self.ev.append({'op': 'tick'})
                h.advance_time_and_run(self.U * (1 + EPS) / 1000.0)
                self.sync()
        finally:
            _H['sink'][0] = None
            for s2 in SWS:
                self.m.switches[s2].unmute(source='verif')
            for hid in list(self.keys):
                sw, cb, state, ms, _rid = self.keys.pop(hid)
                self.sc.remove_switch_handler(sw, cb, state=state, ms=ms)
        return self.ev


def exec_schedule(job):
    sched, unit = job[0], job[1]
    prod = bool(job[2]) if len(job) > 2 else False
    shared = bool(job[3]) if len(job) > 3 else False
    try:
        return {'ev': SwitchRun(sched, unit, prod, shared).run(), '_unit': unit, '_prod': prod, '_shared': shared}
    except Exception as ex:  # pylint: disable=broad-except
        import traceback
        _H['sink'][0] = None
        return {'ev': [{'op': 'crash', 'what': repr(ex)[:300]}], '_unit': unit, '_tb': traceback.format_exc()[-1500:]}


def held_units(u):
    return 100 // u


def handmade(u):
    A = lambda i, sw, st, ms, nested=False: {'op': 'add', 'id': i, 'sw': sw, 'state': st, 'ms': ms, 'nested': nested}
    R = lambda sw, v, lg=False: {'op': 'report', 'sw': sw, 'v': v, 'logical': lg}
    T = {'op': 'tick'}
    M = lambda sw, m: {'op': 'mute', 'sw': sw, 'm': m}
    return [
        # handler added after its deadline has passed must not fire at all
        [R('s_no', 1), T, T, T, A('h1', 's_no', 1, 2), T, T],
        # handler added mid-interval fires at the original deadline
        [R('s_no', 1), T, A('h1', 's_no', 1, 3), T, T, T],
        [A('h1', 's_nc', 0, 2), R('s_nc', 1), T, R('s_nc', 0), T, R('s_nc', 1), T, T, T],
        [A('h1', 's_no', 1, 0), A('h2', 's_no', 1, 0), R('s_no', 1), {'op': 'call', 'id': 'h1'},
         {'op': 'remove', 'id': 'h2', 'nested': True}, T, R('s_no', 0), R('s_no', 1), T],
        [A('h1', 's_no', 1, 1), A('h2', 's_no', 1, 2), R('s_no', 1), T, {'op': 'remove', 'id': 'h2'}, T, T],
        [R('s_nc', 1, True), R('s_nc', 1, True), R('s_nc', 0), T, R('s_nc', 0, True), T],
        # two hold-time handlers due at the same instant: the first one's callback removes the second, which must not fire
        [A('h1', 's_no', 1, 2), A('h2', 's_no', 1, 2), R('s_no', 1), T, T, {'op': 'tfire', 'id': 'h1', 'rm': 'h2'}, T, T],
        [A('h2', 's_no', 1, 1), A('h1', 's_no', 1, 1), A('h3', 's_no', 1, 2), R('s_no', 1), T,
         {'op': 'tfire', 'id': 'h2', 'rm': 'h1'}, T, T],
        # registered 0.4 ms before its original deadline (the schedule position makes this add a late one)
        [R('s_no', 1), T, T, T, A('h1', 's_no', 1, 4), T, T, T],
        [R('s_nc', 0), T, A('h1', 's_nc', 1, 2), T, T, T],
        # a hold-time handler removed by an untimed handler's callback during the dispatch of the very change that arms it
        [A('h1', 's_no', 1, 0), A('h2', 's_no', 1, 2), R('s_no', 1), {'op': 'call', 'id': 'h1'},
         {'op': 'remove', 'id': 'h2', 'nested': True}, T, T, T],
        [A('h1', 's_nc', 0, 0), A('h2', 's_nc', 0, 1), A('h3', 's_nc', 0, 2), R('s_nc', 1), {'op': 'call', 'id': 'h1'},
         {'op': 'remove', 'id': 'h3', 'nested': True}, T, T, T],
        # a muted switch: its change is mirrored and voids the pending hold-time entry, no handler is called
        [A('h1', 's_no', 1, 3), A('h2', 's_no', 0, 0), R('s_no', 1), T, M('s_no', True), R('s_no', 0), T, T, T, M('s_no', False), T],
        [A('h1', 's_no', 1, 2), M('s_no', True), R('s_no', 1), T, T, T, M('s_no', False), R('s_no', 0), R('s_no', 1), T, T, T],
        [A('h1', 's_no', 0, 2), R('s_no', 1), R('s_no', 0), T, M('s_no', True), R('s_no', 1), T, R('s_no', 0), M('s_no', False), T, T, T],
    ]


def run(ctx):
    wd = tlc.prepare(ctx.scratch, 'Switches', 'switches')
    with open(wd + '/MC.cfg', 'w') as f:
        f.write(cfg_text('Spec', 2, 4 if ctx.quick else 5, 5 if ctx.quick else 6, '{"h1", "h2"}', '{0, 1, 2}'))
    r = tlc.expect_ok(tlc.check(wd, 'SwitchesMC', 'MC.cfg', timeout=1200), 'Switches design check')
    ctx.add_tlc('SwitchesMC', r, {'Sw': 2, 'Hid': 2, 'Hold': '{0,1,2}', 'MaxTime': 4 if ctx.quick else 5,
                                  'MaxOps': 5 if ctx.quick else 6})
    ctx.coverage['monitors'] += ['Mirror', 'TimedSound', 'TimedComplete', 'DuplicateInert', 'RemovedNeverFires']
    rnd = random.Random(ctx.seed)
    per_unit = 90 if ctx.quick else 1500
    ntr = 0
    for u in UNITS:
        hu = held_units(u)
        with open(wd + '/Gen.cfg', 'w') as f:
            f.write(cfg_text('Spec', hu, 12, 16, '{"h1", "h2", "h3"}', '{0, 1, 2, 3}').replace('INVARIANT Mirror\n', '')
                    .replace('INVARIANT TimedSound\n', '').replace('INVARIANT TimedComplete\n', '')
                    .replace('PROPERTY DuplicateInert\n', '').replace('PROPERTY RemovedNeverFires\n', ''))
        behs, _ = tlc.simulate(wd, 'SwitchesMC', 'Gen.cfg', num=per_unit, depth=30 if ctx.quick else 44,
                               seed=ctx.seed + u)
        jobs = [([s['act'] for s in b], u, k % 3 == 0, k % 2 == 1) for k, b in enumerate(behs)]
        jobs += [(s, u, pr, sh) for s in handmade(u) for (pr, sh) in ((False, False), (True, True), (False, True), (True, False))]
        traces = harness.pmap(exec_schedule, jobs, chunk=8)
        with open(wd + '/Trace.cfg', 'w') as f:
            f.write(cfg_text('TSpec', hu, 10 ** 6, 10 ** 6, TRACE_HIDS, '{}', trace=True))
        with open(wd + '/SwitchesTraceU.tla', 'w') as f:
            f.write('---- MODULE SwitchesTraceU ----\nEXTENDS SwitchesTrace\nTLongAgo == %d\n====\n' % (-(10 ** 8) // u))
        v = tlc.validate_traces(wd, 'SwitchesTraceU', 'Trace.cfg', traces)
        ctx.add_trace_verdict('SwitchesTrace(unit=%dms)' % u, v, len(traces))
        ntr += len(traces)
        if u == UNITS[1]:
            ctx.sample({'kind': 'switch-trace', 'unit_ms': u, 'trace': traces[0]['ev'][:14]})
        tlc.finish_diagnosis(wd, 'SwitchesTraceU', 'Trace.cfg', traces, v)
        for i, info in sorted(v.rejected.items()):
            fe = info.get('failing_event') or {}
            pe = info.get('prev_event') or {}
            if info.get('line') is None:
                continue
            sig = 'C03:%s:%s-after-%s' % (info.get('monitor') or 'step', fe.get('op', 'end'), pe.get('op', 'start'))
            ctx.violation(sig, 'switch controller execution not explained by Switches spec (unit %dms) at line %s: %s (prev %s)'
                          % (u, info.get('line'), fe, pe), {'job': [jobs[i][0], u, jobs[i][2], jobs[i][3]], 'trace': traces[i], 'info': info})
    from drivers import c03_suite
    c03_suite.suite_traces(ctx)
    ctx.assumptions += ['virtual time; one report at a time (no report from inside a switch handler)',
                        'ignore_window_ms (recycle) switches are not part of this model']


def replay(ctx, data):
    d = data['replay']
    if d.get('kind') == 'suite':
        from drivers import c03_suite
        return c03_suite.suite_traces(ctx, modules=[d['src'].split('::')[0].split('/')[-1][:-3]])
    sched, u = d['job'][0], d['job'][1]
    tr = exec_schedule(tuple(d['job']))
    print('replay trace:', tr['ev'])
    wd = tlc.prepare(ctx.scratch, 'Switches', 'switches')
    with open(wd + '/Trace.cfg', 'w') as f:
        f.write(cfg_text('TSpec', held_units(u), 10 ** 6, 10 ** 6, TRACE_HIDS, '{}', trace=True))
    with open(wd + '/SwitchesTraceU.tla', 'w') as f:
        f.write('---- MODULE SwitchesTraceU ----\nEXTENDS SwitchesTrace\nTLongAgo == %d\n====\n' % (-(10 ** 8) // u))
    v = tlc.validate_traces(wd, 'SwitchesTraceU', 'Trace.cfg', [tr])
    for i, info in v.rejected.items():
        ctx.violation(data['sig'], 'replayed: %s' % info, d)
