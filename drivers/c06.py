"""C06 — game lifecycle: turns, balls and lifecycle events are well-formed (specs/Game)."""
import itertools
import os
import random

from lib import tlc, harness
from lib.tlaval import to_tla

LEVEL = 'model_checking'

MAIN = ['game_will_start', 'game_starting', 'game_started',
        'player_turn_will_start', 'player_turn_starting', 'player_turn_started',
        'ball_will_start', 'ball_starting', 'ball_started', 'ball_will_end', 'ball_ending', 'ball_ended',
        'player_turn_will_end', 'player_turn_ending', 'player_turn_ended',
        'game_will_end', 'game_ending', 'game_ended']
QUEUE = {'game_starting', 'player_turn_starting', 'ball_starting', 'ball_ending', 'player_turn_ending', 'game_ending'}
PIPE = ['player_add_request', 'player_will_add', 'player_adding', 'player_added']
DEVIATIONS = ['ExtraBallAfterEndGame', 'NoPlayerHang', 'LateAdd', 'AddRace', 'FirstPlayerOvertaken']
DEV_WHAT = {
    'ExtraBallAfterEndGame': 'game.end_game() while the current player holds extra balls: after the ball has ended the extra '
                             'ball(s) are still started and played (Game._run tests slam_tilted but not ending before '
                             '_award_extra_ball)',
    'NoPlayerHang': 'game.end_game() before the first player exists (from game_will_start / game_starting handlers): '
                    'request_player_add() refuses because the game is ending, Game._start_game waits for ever on '
                    '_at_least_one_player_event; machine.game stays set and no new game can start',
    'LateAdd': 'a player add requested after the rotation back to a player who has played ball 1, before his next turn '
               'increments player.ball (player_turn_will_start / player_turn_starting handlers), is accepted: the new '
               'player starts a round late and the earlier players play ball balls_per_game+1 (balls_remaining = -1)',
    'AddRace': 'two player add requests in flight pass the max_players guard together (the player is created only in the '
               'player_add_request callback): more than max_players players',
    'FirstPlayerOvertaken': 'player 2 requested while player 1\'s player_adding queue event is still pending and completing first '
                            'becomes game.player: player 2 plays first and the game ends before player 1 has played all balls',
}
CFGS = [dict(id=1, bpg=2, maxp=3, known=3), dict(id=2, bpg=3, maxp=2, known=2), dict(id=3, bpg=1, maxp=1, known=1),
        dict(id=4, bpg=2, maxp=2, known=1)]
_H = {}


def cfg_rec(c):
    return {'bpg': c['bpg'], 'maxp': c['maxp'], 'known': c['known']}


def write_machines(scratch):
    out = {}
    for c in CFGS:
        d = os.path.join(scratch, 'machines', 'game%d' % c['id'])
        os.makedirs(d + '/config', exist_ok=True)
        with open(d + '/config/config.yaml', 'w') as f:
            f.write('#config_version=6\ngame:\n  balls_per_game: %d\n  max_players: %d\n' % (c['bpg'], c['maxp']))
        out[c['id']] = d
    return out


def mc_module():
    return """------------------------------- MODULE GameMC -------------------------------
EXTENDS Game
MCConfigs == {[bpg |-> 2, maxp |-> 2, known |-> 2]}
MCConfigs3 == {[bpg |-> 1, maxp |-> 3, known |-> 1]}
MCConfigsL == {[bpg |-> 1, maxp |-> 2, known |-> 2]}
GenConfigs == {%s}
=============================================================================
""" % ', '.join(to_tla(cfg_rec(c)) for c in CFGS)


CFG = """SPECIFICATION %(spec)s
CONSTANTS
  Configs <- %(configs)s
  Deviations = {%(dev)s}
  PMax = %(pmax)d
  MaxOps = %(ops)d
  MaxAwards = %(aw)d
  MaxHolds = %(holds)d
  MaxGames = %(games)d
  QuietUntil = %(quiet)d
  Holds = %(holdsb)s
  Denies = %(denies)s
%(props)sCHECK_DEADLOCK FALSE
"""
SAFETY = ('INVARIANT TypeOK\nINVARIANT Grammar\nINVARIANT BipRange\nINVARIANT OneTurnPerBallNumber\nINVARIANT NaturalEnd\n'
          'INVARIANT AfterEnd\nINVARIANT NewGamePossible\nPROPERTY TurnIsOnePlusExtras\nPROPERTY BallEndsOnlyWithCause\n'
          'PROPERTY FreshGame\n')
LIVENESS = 'PROPERTY BallEnds\nPROPERTY EndGameTakesEffect\nPROPERTY GameEndCompletes\n'


def cfg_text(spec='Spec', configs='MCConfigs', dev=(), pmax=2, ops=3, aw=1, holds=0, games=1, quiet=0, holdsb=False,
             denies=False, props=''):
    return CFG % dict(spec=spec, configs=configs, dev=', '.join('"%s"' % d for d in dev), pmax=pmax, ops=ops, aw=aw,
                      holds=holds, games=games, quiet=quiet, holdsb='TRUE' if holdsb else 'FALSE',
                      denies='TRUE' if denies else 'FALSE', props=props)


def trace_cfg(dev=()):
    return cfg_text(spec='TSpec', configs='TConfigs', dev=dev, pmax=6, ops=10 ** 6, aw=10 ** 6, holds=10 ** 6, games=10 ** 6,
                    holdsb=True, denies=True, props='INVARIANT Reporter\n')


# ---- schedules ------------------------------------------------------------------------------------------------------

def _quiescent(s):
    """Mirror of GameTrace!Quiescent for Deviations = {}: neither the coroutine nor a player-add pipeline can move."""
    pc = s['pc']
    adv = s['nreq'] == 0 and s['ncb'] == 0 and (pc == 'boot' or (pc == 'dlv' and not s['held']) or (pc == 'live' and s['flag']) or
                              (pc == 'waitplayer' and (s['alo'] or (s['ending'] and s['np'] == 0))))
    busy = s['nreq'] > 0 or s['ncb'] > 0 or any(x in ('will', 'posted', 'added') for x in s['padd']) or \
        any(x == 'dlv' and not h for x, h in zip(s['padd'], s['pheld']))
    return not adv and pc != 'posted' and not busy


def schedule_from_behaviour(b):
    """Keep the event and request steps; a request issued while the model can still move belongs to the handler of the
    event delivered last ('at' = index of that entry), otherwise it is issued from top level ('at' = -1)."""
    out = []
    last_ev = -1
    for j, st in enumerate(b):
        a = st['act']
        if a['op'] == 'ev':
            out.append({'op': 'ev', 'name': a['name'], 'hold': bool(a.get('hold')), 'number': a.get('number', 0),
                        'deny': bool(a.get('deny'))})
            last_ev = len(out) - 1
        elif a['op'] == 'req':
            e = {'op': 'req', 'kind': a['kind'], 'n': a.get('n', 0), 'name': a.get('name', ''),
                 'at': -1 if (j == 0 or _quiescent(b[j - 1]['s'])) else last_ev}
            out.append(e)
    return out


def E(name, hold=False, number=0, deny=False, occ=None):
    d = {'op': 'ev', 'name': name, 'hold': hold, 'number': number, 'deny': deny}
    if occ:
        d['occ'] = occ
    return d


def R(kind, n=0, name='', top=False):
    return {'op': 'req', 'kind': kind, 'n': n, 'name': name, 'top': top}


def H(*entries):
    """Hand-written schedule: a request belongs to the handler of the preceding E(...) entry unless top=True."""
    out = []
    last_ev = -1
    for e in entries:
        e = dict(e)
        if e['op'] == 'ev':
            last_ev = len(out)
        else:
            e['at'] = -1 if e.pop('top') else last_ev
        out.append(e)
    return out


def handmade():
    S = R('start', top=True)
    return [
        (1, H(S, E('ball_started'), R('add'))),
        # several players, round 1 over: a join request while an earlier player is on ball 2 (the last player still on 1)
        (1, H(S, E('ball_started'), R('add'), R('drain', 1, top=True), R('drain', 1, top=True), E('ball_started', occ=3), R('add'),
            R('drain', 1, top=True), R('drain', 1, top=True))),
        (1, H(S, E('ball_started'), R('add'), R('drain', 1, top=True), R('drain', 1, top=True), R('add', top=True),
            R('drain', 1, top=True), R('add', top=True), R('drain', 1, top=True))),
        (1, H(S, E('ball_started'), R('award'), R('setbip', 2), R('drain', 1, top=True), R('drain', 2, top=True))),
        (2, H(S, E('game_started'), R('add'), E('ball_started', occ=2), R('award'), R('award'))),
        # an end request that arrives while the ball is starting must end the ball once it has started
        (1, H(S, E('ball_starting', hold=True), R('end_ball', top=True), R('release', name='ball_starting', top=True))),
        (1, H(S, E('ball_starting', hold=True), R('slam', top=True), R('release', name='ball_starting', top=True))),
        (2, H(S, E('ball_starting', hold=True), R('end_game', top=True), R('release', name='ball_starting', top=True))),
        (1, H(S, E('ball_starting'), R('end_ball'))),
        (1, H(S, E('ball_will_start'), R('setbip', 2), E('ball_starting'), R('setbip', 0))),
        (4, H(S, E('ball_started'), R('setbip', 3), R('drain', 1))),
        # a ball ended by request whose ball never drains (ball search gave up, the ball sits in a device), then several balls in
        # play on the NEXT ball and one of them drains: the count goes down by exactly one
        (1, H(S, E('ball_started'), R('end_ball'), E('ball_started', occ=2), R('setbip', 2), R('drain', 1, top=True), R('drain', 1, top=True))),
        (4, H(S, E('ball_started'), R('end_ball'), E('ball_started', occ=2), R('setbip', 3), R('drain', 1, top=True), R('drain', 1, top=True),
              R('drain', 1, top=True))),
        (2, H(S, E('ball_started'), R('add'), R('end_ball', top=True), R('end_ball', top=True), E('ball_started', occ=3), R('setbip', 2),
              R('drain', 1, top=True))),
        # requests while no ball is live may be ignored
        (1, H(S, E('ball_started'), R('award'), E('ball_ended'), R('end_ball'), R('drain', 1))),
        (1, H(S, E('player_turn_starting', hold=True), R('end_ball', top=True), R('release', name='player_turn_starting', top=True))),
        # slam tilt ends the game; the next game is a full game again
        (1, H(S, E('ball_started'), R('slam'), S, E('ball_started', occ=3), R('add'))),
        (3, H(S, E('ball_ending', hold=True), R('slam', top=True), R('release', name='ball_ending', top=True), S)),
        (1, H(S, E('ball_started'), R('end_game'), S)),
        (2, H(S, E('ball_started'), R('add'), E('player_turn_ending', occ=2, hold=True), R('end_game', top=True),
              R('release', name='player_turn_ending', top=True), S)),
        # player add: denied, late, too many
        (1, H(S, E('player_add_request', deny=True), R('add', top=True))),
        (1, H(S, E('ball_started', occ=2), R('add'))),
        (1, H(S, E('ball_started'), R('add'), R('add', top=True), R('add', top=True))),
        (1, H(S, E('game_starting', hold=True), R('add', top=True), R('add', top=True), R('release', name='game_starting', top=True))),
        (2, H(S, E('ball_started'), R('add'), E('player_adding', number=2, hold=True), R('award', top=True), R('prelease', 2, top=True))),
        # code as is (each reported under its own signature)
        (1, H(S, E('ball_started'), R('award'), R('end_game'))),
        (1, H(S, E('game_starting'), R('end_game'))),
        (1, H(S, E('player_turn_will_start', occ=2), R('add'))),
        (1, H(S, E('ball_started'), R('add'), R('add'), R('add'))),
        (1, H(S, E('game_starting'), R('add'), R('add'), E('player_adding', number=1, hold=True), R('prelease', 1, top=True))),
        (1, H(S, E('ball_started'), R('add'), E('player_adding', number=2, hold=True), R('drain', 1, top=True))),
        (1, H(S, E('ball_started'), R('add'), E('player_adding', number=2, hold=True), R('end_game', top=True), S,
              E('game_starting', occ=2, hold=True), R('prelease', 2, top=True), R('release', name='game_starting', top=True))),
    ]


# ---- execution on the real game mode ----------------------------------------------------------------------------------

def _machine(mdir, cid):
    if _H.get('dirty') or _H.get('cid') != cid:
        if 'h' in _H:
            h = _H.pop('h')
            if not _H.get('dirty'):
                harness.shutdown(h)
        _H['dirty'] = False
    if 'h' not in _H:
        h = harness.boot(None, machine_dir=mdir, fake_game=True)
        _H['h'] = h
        _H['cid'] = cid
        _H['sink'] = [None]
        for n in MAIN + PIPE:
            h.machine.events.add_handler(n, _mk(n), priority=100000)
        # after Game.ball_drained, so that the line shows the effect of the drain
        h.machine.events.add_handler('ball_drain', _mk('ball_drain'), priority=-100000)
        h.machine.playfield.add_ball = _no_ball
    return _H['h']


def _no_ball(**kwargs):
    del kwargs


def _mk(name):
    def hnd(queue=None, **kwargs):
        run = _H['sink'][0]
        if run is not None:
            return run.on_event(name, queue, kwargs)
        return None
    return hnd


class GameRun:
    def __init__(self, mdir, c, sched):
        self.h = _machine(mdir, c['id'])
        self.m = self.h.machine
        self.c = c
        self.sched = sched
        self.ev = []
        self.consumed = set()
        self.count = {}
        self.held_main = {}
        self.held_p = {}
        self.ctx = 'top'

    # -- observation
    def obs(self):
        g = self.m.game
        if g is None:
            return {'none': True, 'bip': 0, 'np': 0, 'cur': 0, 'ball': 0, 'extra': 0}
        p = g.player
        return {'none': False, 'bip': int(g.balls_in_play), 'np': len(g.player_list),
                'cur': int(p.vars.get('number', 0)) if p else 0, 'ball': int(p.vars.get('ball', 0)) if p else 0,
                'extra': int(p.vars.get('extra_balls', 0)) if p else 0}

    def stale(self, player):
        g = self.m.game
        return g is None or not any(player is x for x in g.player_list)

    def settle(self):
        self.h.advance_time_and_run(0.001)

    # -- lifecycle event handlers
    def on_event(self, name, queue, kw):
        self.count[name] = self.count.get(name, 0) + 1
        number = kw.get('number', kw.get('num', kw.get('balls', 0)))
        line = {'op': 'ev', 'name': name, 'hold': False, 'deny': False, 'stale': False,
                'number': int(number) if isinstance(number, int) else 0,
                'player': 0, 'ball': 0, 'x': False, 'rem10': 0}
        if name in ('ball_will_start', 'ball_starting', 'ball_started'):
            line.update(player=int(kw['player']), ball=int(kw['ball']), x=bool(kw['is_extra_ball']),
                        rem10=int(kw['balls_remaining']) + 10)
        if name in ('player_adding', 'player_added'):
            line['stale'] = self.stale(kw['player'])
        # the schedule entry this delivery corresponds to
        idx = None
        for i, s in enumerate(self.sched):
            if i in self.consumed or s['op'] != 'ev' or s['name'] != name:
                continue
            if 'occ' in s and s['occ'] != self.count[name]:
                continue
            if name in ('player_will_add', 'player_adding', 'player_added') and s.get('number') and s['number'] != line['number']:
                continue
            idx = i
            break
        ent = self.sched[idx] if idx is not None else {}
        if idx is not None:
            self.consumed.add(idx)
        hold = bool(ent.get('hold')) and queue is not None and (name in QUEUE or name == 'player_adding')
        line['hold'] = hold
        line['deny'] = bool(ent.get('deny')) and name == 'player_add_request'
        line.update(self.obs())
        self.ev.append(line)
        if hold:
            queue.wait()
            if name == 'player_adding':
                self.held_p[line['number']] = (queue, kw['player'])
            else:
                self.held_main[name] = queue
        if idx is not None:
            prev, self.ctx = self.ctx, name
            try:
                for j in range(idx + 1, len(self.sched)):
                    s = self.sched[j]
                    if j not in self.consumed and s['op'] == 'req' and s.get('at') == idx:
                        self.consumed.add(j)
                        self.request(s)
            finally:
                self.ctx = prev
        if line['deny']:
            return False
        return None

    # -- environment requests
    def request(self, s):
        g = self.m.game
        kind = s['kind']
        line = {'op': 'req', 'kind': kind, 'n': int(s.get('n', 0)), 'name': s.get('name', ''), 'ok': False,
                'ctx': self.ctx, 'stale': False}
        if kind == 'start':
            if g is not None or self.ctx != 'top' or not self.m.modes['attract'].active:
                return False
            self.m.switch_controller.process_switch('s_start', state=1, logical=True)
            self.m.switch_controller.process_switch('s_start', state=0, logical=True)
        elif kind == 'release':
            q = self.held_main.pop(s['name'], None)
            if q is None:
                return False
            q.clear()
        elif kind == 'prelease':
            qp = self.held_p.pop(line['n'], None)
            if qp is None:
                return False
            line['stale'] = self.stale(qp[1])
            qp[0].clear()
        elif g is None:
            return False
        elif kind == 'end_ball':
            g.end_ball()
        elif kind == 'end_game':
            g.end_game()
        elif kind == 'slam':
            # what Tilt.slam_tilt() + Tilt.tilt() do to the game object
            g.slam_tilted = True
            g.end_ball()
        elif kind == 'setbip':
            g.balls_in_play = line['n']
        elif kind == 'award':
            if not g.player:
                return False
            g.player.extra_balls += 1
        elif kind == 'add':
            line['ok'] = bool(g.request_player_add())
        elif kind == 'drain':
            self.m.events.post_relay('ball_drain', balls=line['n'])
        else:
            raise ValueError(kind)
        line.update(self.obs())
        self.ev.append(line)
        return True

    def top(self, s):
        if self.request(s):
            self.settle()

    def rest(self):
        line = {'op': 'rest', 'stale': False}
        line.update(self.obs())
        self.ev.append(line)

    def finish(self):
        """Release everything, drain until the game is over (each of these is a logged top-level request)."""
        stuck = 0
        for _ in range(60):
            g = self.m.game
            if g is None:
                break
            before = len(self.ev)
            for name in list(self.held_main):
                self.top({'kind': 'release', 'name': name})
            for n in list(self.held_p):
                self.top({'kind': 'prelease', 'n': n})
            g = self.m.game
            if g is not None and g.balls_in_play > 0:
                self.top({'kind': 'drain', 'n': int(g.balls_in_play)})
            stuck = stuck + 1 if len(self.ev) == before else 0
            if stuck >= 2:
                break
        for n in list(self.held_p):
            self.top({'kind': 'prelease', 'n': n})
        self.rest()
        return self.m.game is None

    def run(self):
        self.m.ball_controller.num_balls_known = self.c['known']
        _H['sink'][0] = self
        try:
            self.settle()
            for i, s in enumerate(self.sched):
                if i in self.consumed or s['op'] != 'req':
                    continue
                # a request meant for the handler of an event that has not happened yet: play on (drain) until it does
                at = s.get('at', -1)
                for _ in range(12):
                    g = self.m.game
                    if at < 0 or at in self.consumed or i in self.consumed or g is None or g.balls_in_play <= 0:
                        break
                    self.top({'kind': 'drain', 'n': int(g.balls_in_play)})
                if i in self.consumed:
                    continue
                self.consumed.add(i)
                self.top(s)
            self.rest()
            clean = self.finish()
            self.h.advance_time_and_run(2)
            self.rest()
            if not clean or not self.m.modes['attract'].active:
                _H['dirty'] = True
        finally:
            _H['sink'][0] = None
        return self.ev


def exec_schedule(job):
    mdir, c, sched = job
    r = None
    try:
        r = GameRun(mdir, c, sched)
        ev = r.run()
        return {'cfg': cfg_rec(c), 'ev': ev}
    except BaseException as ex:  # pylint: disable=broad-except
        import traceback
        _H['dirty'] = True
        if 'sink' in _H:
            _H['sink'][0] = None
        ev = (r.ev if r is not None else []) + [{'op': 'crash', 'stale': False, 'what': repr(ex)[:300]}]
        return {'cfg': cfg_rec(c), 'ev': ev, '_tb': traceback.format_exc()[-2500:]}


# ---- the check ----------------------------------------------------------------------------------------------------------

def _compact(sched):
    out = []
    for s in sched:
        if s['op'] == 'ev':
            if s.get('hold') or s.get('deny') or s.get('occ'):
                out.append('%s%s%s%s' % (s['name'], '#%d' % s['occ'] if s.get('occ') else '',
                                         '(p%d)' % s['number'] if s.get('number') else '',
                                         ' HOLD' if s.get('hold') else ' DENY' if s.get('deny') else ''))
        else:
            at = s.get('at', -1)
            where = 'top' if at < 0 else 'in ' + sched[at]['name']
            out.append('%s%s%s @%s' % (s['kind'], ' %d' % s['n'] if s['kind'] in ('setbip', 'drain', 'prelease') else '',
                                       ' ' + s['name'] if s.get('name') else '', where))
    return out


def _crash_signature(tr):
    what = [e for e in tr['ev'] if e['op'] == 'crash'][0]['what']
    if "'int' object is not iterable" in what:
        return ('C06:crash:ball_starting-before-player_added',
                'a player whose player_adding queue event is still pending gets his turn: ModeController._ball_starting '
                'iterates player.restart_modes_on_next_ball which is only initialised on player_added -> TypeError, the '
                'game coroutine dies in ball_starting (%s)' % what)
    return 'C06:crash:%s' % what.split('(')[0], 'execution crashed: %s' % what


def _signature(tr, info):
    ev = tr['ev']
    line = info.get('line') or 0
    fe = info.get('failing_event') or {}
    pe = info.get('prev_event') or {}
    if line and any(e.get('stale') for e in ev[:line]):
        return ('C06:stale-player_adding-leaks-into-next-game',
                'a player_adding queue event of an ended game that is released during the next game makes the old Player '
                'object game.player of the new game (Game._player_adding_complete); first unexplained line %s: %s' % (line, fe))
    name = fe.get('name') or fe.get('kind') or fe.get('op', 'end')
    prev = pe.get('name') or pe.get('kind') or pe.get('op', 'start')
    return ('C06:%s:%s-after-%s' % (fe.get('op', 'end'), name, prev),
            'game lifecycle execution not explained by the Game spec (all known deviations allowed) at line %s: %s '
            '(previous line %s)' % (line, fe, pe))


def run(ctx):
    mdirs = write_machines(ctx.scratch)
    wd = tlc.prepare(ctx.scratch, 'Game', 'game')
    with open(wd + '/GameMC.tla', 'w') as f:
        f.write(mc_module())
    # 1. the statement holds in the reference model (Deviations = {})
    runs = [('safety', dict(props=SAFETY, ops=3 if ctx.quick else 4, aw=1, games=1 if ctx.quick else 2)),
            ('safety, two games', dict(props=SAFETY, ops=2, aw=1, games=2)),
            ('safety, 3 players', dict(props=SAFETY, configs='MCConfigs3', pmax=3, ops=2 if ctx.quick else 3, aw=1)),
            ('liveness under weak fairness', dict(spec='LiveSpec', props=SAFETY + LIVENESS, aw=1,
                                                  configs='MCConfigsL' if ctx.quick else 'MCConfigs', ops=2 if ctx.quick else 3))]
    for n, (label, kw) in enumerate(runs):
        name = 'MC%d.cfg' % n
        with open(os.path.join(wd, name), 'w') as f:
            f.write(cfg_text(**kw))
        r = tlc.check(wd, 'GameMC', name, workers=8, timeout=2400)
        if 'Temporal properties were violated' in r.out or 'was violated' in r.out:
            r.ok = False
        tlc.expect_ok(r, 'Game design check (%s)' % label)
        ctx.add_tlc('GameMC ' + label, r, {k: v for k, v in kw.items() if k != 'props'})
    ctx.coverage['monitors'] += ['Grammar', 'OneTurnPerBallNumber', 'BipRange', 'NaturalEnd', 'TurnIsOnePlusExtras',
                                 'BallEndsOnlyWithCause', 'BallEnds (liveness)', 'EndGameTakesEffect (liveness)',
                                 'GameEndCompletes (liveness)', 'AfterEnd', 'FreshGame', 'NewGamePossible',
                                 'trace: event arguments, observations, top-level quiescence']
    # 2. schedules: random walks of the model, disturbances starting after QuietUntil lifecycle events
    quiets = [0, 10, 22, 36, 52] if ctx.quick else [0, 5, 8, 11, 14, 18, 22, 28, 34, 42, 50, 64, 80]
    per = 64 if ctx.quick else 320
    jobs = []
    by_id = {(c['bpg'], c['maxp'], c['known']): c for c in CFGS}
    for qi, q in enumerate(quiets):
        name = 'Gen%d.cfg' % q
        with open(os.path.join(wd, name), 'w') as f:
            f.write(cfg_text(configs='GenConfigs', pmax=4, ops=6, aw=2, holds=3, games=2, quiet=q, holdsb=True, denies=True))
        behs, _ = tlc.simulate(wd, 'GameMC', name, num=per, depth=110 + 3 * q, seed=ctx.seed * 100 + qi, timeout=900)
        for b in behs:
            c = by_id[(b[0]['cfg']['bpg'], b[0]['cfg']['maxp'], b[0]['cfg']['known'])]
            jobs.append((mdirs[c['id']], c, schedule_from_behaviour(b)))
    cmap = {c['id']: c for c in CFGS}
    jobs.sort(key=lambda j: j[1]['id'])
    hm = [(mdirs[cid], cmap[cid], s) for cid, s in handmade()]
    jobs = hm + jobs
    ctx.log('%d schedules (%d hand-written)' % (len(jobs), len(hm)))
    traces = harness.pmap(exec_schedule, jobs, chunk=6, item_timeout=120)
    # 3. every execution must be a behaviour of the model (a crashed execution: up to the crash)
    crashed = {i for i, t in enumerate(traces) if any(e['op'] == 'crash' for e in t['ev'])}
    vtraces = [dict(t, ev=t['ev'][:[e['op'] for e in t['ev']].index('crash')]) if i in crashed else t
               for i, t in enumerate(traces)]
    with open(wd + '/Trace.cfg', 'w') as f:
        f.write(trace_cfg())
    v = tlc.validate_traces(wd, 'GameTrace', 'Trace.cfg', vtraces, workers=8)
    ctx.add_trace_verdict('GameTrace', v, len(traces))
    ctx.sample({'kind': 'game-trace', 'cfg': traces[len(hm)]['cfg'], 'schedule': _compact(jobs[len(hm)][2])[:12],
                'trace': traces[len(hm)]['ev'][:8]})
    ctx.coverage['lines'] = sum(len(t['ev']) for t in traces)
    ctx.coverage['requests_by_context'] = _ctx_stats(traces)

    def report(i, sig, what, info):
        ctx.violation(sig, what + ' [schedule: %s]' % '; '.join(_compact(jobs[i][2])[:14]),
                      {'cid': jobs[i][1]['id'], 'sched': jobs[i][2], 'trace': traces[i], 'info': info, 'tb': traces[i].get('_tb')})

    for i in sorted(crashed):
        report(i, *_crash_signature(traces[i]), info={})
    # 4. rejected executions: explained by the code-as-is deviations? (smallest set first; what is left is diagnosed
    #    against the model with all deviations allowed)
    left = sorted(v.rejected)
    explained = {}
    last = {}
    npass = [0]

    def attempt(sub, ids, diagnose=False):
        npass[0] += 1
        name = 'TraceDev%d.cfg' % npass[0]
        with open(os.path.join(wd, name), 'w') as f:
            f.write(trace_cfg(sub))
        v2 = tlc.validate_traces(wd, 'GameTrace', name, [vtraces[i] for i in ids], workers=8, diagnose=diagnose)
        ctx.add_trace_verdict('GameTrace(Deviations={%s})' % ','.join(sub), v2, 0)
        return [ids[a] for a in sorted(v2.accepted)], {ids[a]: info for a, info in v2.rejected.items()}

    for d in DEVIATIONS:
        if left:
            acc, _ = attempt((d,), left)
            explained.update({i: (d,) for i in acc})
            left = [i for i in left if i not in explained]
    if left:
        multi, last = attempt(tuple(DEVIATIONS), left, diagnose=True)
        left = [i for i in left if i not in multi]
        for size in (2, 3, 4):
            for sub in sorted(itertools.combinations(DEVIATIONS, size), key=lambda c: c != ('AddRace', 'FirstPlayerOvertaken')):
                if multi:
                    acc, _ = attempt(sub, multi)
                    explained.update({i: sub for i in acc})
                    multi = [i for i in multi if i not in explained]
        explained.update({i: tuple(DEVIATIONS) for i in multi})
    for i, sub in sorted(explained.items()):
        for d in sub:
            report(i, 'C06:' + d, DEV_WHAT[d], v.rejected[i])
    diagnosed = [i for i in left if last.get(i, {}).get('line') is not None]
    for i in left:
        info = last.get(i) or v.rejected[i]
        if info.get('line') is None and diagnosed:
            continue
        report(i, *_signature(vtraces[i], info), info=info)
    ctx.assumptions += [
        'real game + attract modes, machine without ball devices (playfield.add_ball replaced by a no-op, num_balls_known '
        'set per configuration); drains are ball_drain relay events',
        'slam tilt = what Tilt.slam_tilt/tilt do to the game object (slam_tilted = True, end_ball()); the tilt mode itself is not loaded',
        'requests are issued from handlers of lifecycle events (priority 100000) and from top level after the loop has settled; '
        'not from arbitrary points between two callbacks of the event loop',
        'configurations (balls_per_game, max_players, num_balls_known): ' + ', '.join(
            '(%d,%d,%d)' % (c['bpg'], c['maxp'], c['known']) for c in CFGS)]


def _ctx_stats(traces):
    out = {}
    for t in traces:
        for e in t['ev']:
            if e['op'] == 'req':
                key = '%s@%s' % (e['kind'], 'top' if e['ctx'] == 'top' else 'handler')
                out[key] = out.get(key, 0) + 1
    return out


def replay(ctx, data):
    d = data['replay']
    mdirs = write_machines(ctx.scratch)
    c = {x['id']: x for x in CFGS}[d['cid']]
    tr = exec_schedule((mdirs[c['id']], c, d['sched']))
    print('schedule:', _compact(d['sched']))
    for e in tr['ev']:
        print(e)
    print(tr.get('_tb'))
