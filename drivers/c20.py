"""C20 — credits: balance follows the pricing table and stays within bounds (specs/Credits).

Config table (everything in integer credit units) -> generated machine configs (real credits mode + real game
mode with fake ball handling) -> generated CreditsMC module -> exhaustive TLC check of the intended model ->
TLC-simulated schedules + hand-written ones + the TLC counterexample of the code-as-is cap model -> executed on
real MPF in virtual time -> traces validated against CreditsTrace (intended model, Deviations = {}).
Rejected traces are re-validated with the named code-as-is deviations switched on, only to give each rejected
trace a stable signature (which known deviation(s) explain it, or none).
"""
import os
import traceback

from lib import tlc, harness
from lib.tlaval import to_tla

LEVEL = 'model_checking'
EPS = 1e-6
U_MS = 1000                 # one abstract time unit
BALLS_PER_GAME = 2
TYPES = ('money', 'token')
KEYS = ('id', 'upg', 'tiers', 'coins', 'maxU', 'fracExp', 'allExp', 'bootFree', 'evCredits', 'maxPlayers')
ALL_OPS = ('coin', 'service', 'event', 'press', 'drain', 'free', 'credit', 'toggle', 'reset')


def C(i, upg, tiers, coins, max_credits, frac=0, allx=0, boot_free=False, ev=1, players=3, unit=0.25):
    """tiers: [(price in units, credits)], first must be (upg, 1); coins: [(value in units, audit type)]."""
    assert not tiers or tiers[0] == (upg, 1)
    return dict(id=i, upg=upg, tiers=[[p, c * upg - p] for p, c in tiers], coins=[{'v': v, 't': t} for v, t in coins],
                maxU=max_credits * upg, fracExp=frac, allExp=allx, bootFree=boot_free, evCredits=ev, maxPlayers=players,
                _tiers=tiers, _max_credits=max_credits, _unit=unit)


TABLE = [
    # one coin = one credit, small maximum
    C(1, 1, [(1, 1)], [(1, 'money')], 3, players=2),
    # the documentation example: .50 per game, 5 credits for 2.00, quarters and a dollar slot
    C(2, 2, [(2, 1), (8, 5)], [(1, 'money'), (4, 'token')], 12, frac=2, allx=5),
    # same prices, maximum of 3 credits: the boundary is reached with a few coins
    C(3, 2, [(2, 1), (8, 5)], [(1, 'money'), (4, 'money')], 3, players=2),
    # three tiers
    C(4, 2, [(2, 1), (8, 5), (20, 15)], [(1, 'money'), (4, 'token')], 30, frac=3),
    # .75 per game (fractional credits in thirds), 3 credits for 2.00, three coin values
    C(5, 3, [(3, 1), (8, 3)], [(1, 'money'), (2, 'token'), (4, 'money')], 4, frac=3, ev=2),
    # no pricing tiers configured (1.00 per game by default)
    C(6, 4, [], [(1, 'money'), (4, 'token')], 2, allx=3, players=2),
    # booted in free play
    C(7, 2, [(2, 1), (8, 5)], [(1, 'money'), (4, 'token')], 5, frac=2, allx=4, boot_free=True),
    # smallest coin .50 (credit unit .50), no maximum, credit event worth 2 credits
    C(8, 2, [(2, 1), (6, 4)], [(1, 'money'), (2, 'token')], 0, ev=2, unit=0.5),
    # multi-unit coin against a small maximum, bonus credit in the second tier, full expiry only
    C(9, 1, [(1, 1), (4, 5)], [(1, 'money'), (3, 'token')], 4, allx=2),
    # no maximum, short expiry times, tier wrap after 4 units
    C(10, 2, [(2, 1), (4, 3)], [(1, 'money'), (2, 'money')], 0, frac=1, allx=2, players=2),
]
BY_ID = {c['id']: c for c in TABLE}


def cfg_rec(c):
    return {k: c[k] for k in KEYS}


def _money(units, unit):
    return ('%.2f' % (units * unit)).rstrip('0').rstrip('.')


def write_machines(scratch):
    root = os.path.join(scratch, 'machines')
    for c in TABLE:
        d = os.path.join(root, 'credits_%d' % c['id'], 'config')
        os.makedirs(d, exist_ok=True)
        L = ['#config_version=6', 'modes:', '  - credits', 'game:', '  balls_per_game: %d' % BALLS_PER_GAME,
             '  max_players: %d' % c['maxPlayers'], 'switches:']
        for i in range(len(c['coins'])):
            L += ['  s_coin%d:' % (i + 1), '    number:']
        L += ['  s_esc:', '    number:', 'credits:', '  max_credits: %d' % c['_max_credits'],
              '  free_play: %s' % ('yes' if c['bootFree'] else 'no'), '  service_credits_switch: s_esc', '  switches:']
        for i, coin in enumerate(c['coins']):
            L += ['    - switch: s_coin%d' % (i + 1), '      type: %s' % coin['t'],
                  '      value: %s' % _money(coin['v'], c['_unit']), '      label: Coin %d' % (i + 1)]
        L += ['  events:', '    - event: c20_award', '      type: award', '      credits: %d' % c['evCredits']]
        if c['_tiers']:
            L.append('  pricing_tiers:')
            for p, n in c['_tiers']:
                L += ['    - price: %s' % _money(p, c['_unit']), '      credits: %d' % n]
        if c['fracExp']:
            L.append('  fractional_credit_expiration_time: %dms' % (c['fracExp'] * U_MS))
        if c['allExp']:
            L.append('  credit_expiration_time: %dms' % (c['allExp'] * U_MS))
        L += ['  persist_credits_while_off_time: 1h', '  free_play_string: FREE PLAY', '  credits_string: CREDITS']
        with open(os.path.join(d, 'config.yaml'), 'w') as f:
            f.write('\n'.join(L) + '\n')
    return root


def mc_module(table):
    return """----------------------------- MODULE CreditsMC -----------------------------
EXTENDS Credits
MCConfigs == {%s}
MCDev0 == {}
MCDevCap == {"CapOverwritten"}
MCOps == {%s}
GenOps == {%s}
GenOpsNoEnable == GenOps \\ {"credit"}
=============================================================================
""" % (',\n   '.join(to_tla(cfg_rec(c)) for c in table),
       ', '.join('"%s"' % o for o in ALL_OPS if o != 'toggle'),
       ', '.join('"%s"' % o for o in ALL_OPS))


MC_CFG = """SPECIFICATION Spec
CONSTANTS
  Configs <- MCConfigs
  Deviations <- %s
  MaxTime = %d
  MaxOps = %d
  MaxPaid = %d
  BallsPerGame = %d
  Ops <- %s
%sCHECK_DEADLOCK FALSE
"""
INVS = ('TypeOK', 'Bounds', 'ClosedForm')
PROPS = ('CoinExact', 'NonTieredExact', 'FreePlayInert', 'StartGate', 'OnlyTheseLower', 'ExpiryRules', 'AuditsMatch',
         'TierResetOncePerGame')
CHECKS = ''.join('INVARIANT %s\n' % x for x in INVS) + ''.join('PROPERTY %s\n' % x for x in PROPS)

TRACE_CFG = """SPECIFICATION TSpec
CONSTANTS
  Configs <- TConfigs
  Deviations <- %s
  MaxTime = 1000000
  MaxOps = 1000000
  MaxPaid = 1000000
  BallsPerGame = %d
  Ops <- TOps
INVARIANT Reporter
CHECK_DEADLOCK FALSE
"""
DEV_SIG = {'CapOverwritten': 'C20:cap-overwritten', 'DupHandlers': 'C20:duplicate-handlers',
           'BootFreeNoUnits': 'C20:boot-free-play-no-units'}
DEV_WHAT = {
    'CapOverwritten': 'credits.py _add_credit_units: after capping at max_credits the second `if` stores the uncapped total '
                      'whenever the previous balance was below the maximum, so the balance exceeds the configured maximum',
    'DupHandlers': 'credits.py enable_credit_play: posted while already in credit play it registers the coin / service / '
                   'credit-event handlers a second time (_enable_credit_handlers appends, nothing removes), so every coin '
                   'is credited and audited twice',
    'BootFreeNoUnits': 'credits.py mode_start: a machine booted in free play never runs _calculate_credit_units / '
                       '_calculate_pricing_tiers; after enable_credit_play / toggle_credit_play the price per game is 0 '
                       '(start gate always open, nothing deducted) and a coin divides by the zero credit unit',
}
# subsets of deviations tried (in this order) on the traces the intended model rejects
DEV_SETS = [('TDevCap', ('CapOverwritten',)), ('TDevDup', ('DupHandlers',)), ('TDevBoot', ('BootFreeNoUnits',)),
            ('TDevCapDup', ('CapOverwritten', 'DupHandlers')), ('TDevCapBoot', ('CapOverwritten', 'BootFreeNoUnits')),
            ('TDevDupBoot', ('DupHandlers', 'BootFreeNoUnits')),
            ('TDevAll', ('CapOverwritten', 'DupHandlers', 'BootFreeNoUnits'))]


# ---- execution on real MPF -------------------------------------------------------------------------------------
def _boot(mdir):
    """lib.harness.boot(fake_game=True) cannot construct MpfFakeGameTestCase (its __init__ needs methodName)."""
    h = harness._HG('runTest')       # pylint: disable=protected-access
    h._machine_dir = mdir
    h._config_file = 'config.yaml'
    h._platform = 'virtual'
    h._mock_data_v = None
    h._options_v = None
    h.expected_duration = 1e9
    h.setUp()
    return h


def exec_schedule(job):
    root, cid, sched = job
    c = BY_ID[cid]
    try:
        return _exec(root, c, sched)
    except Exception as ex:  # pylint: disable=broad-except
        return {'cfg': cfg_rec(c), 'ev': [{'op': 'crash', 'during': 'harness', 'what': repr(ex)[:300]}],
                '_tb': traceback.format_exc()[-1500:]}


def _exec(root, c, sched):
    h = _boot(os.path.join(root, 'credits_%d' % c['id']))
    try:
        return _drive(h, c, sched)
    finally:
        harness.shutdown(h)


def _drive(h, c, sched):
    m = h.machine
    mode = m.modes['credits']
    if not mode.active:
        raise RuntimeError('credits mode not active after boot')
    unit = c['_unit']
    ev = []

    def _noball(**kwargs):
        del kwargs
    m.playfield.add_ball = _noball
    m.ball_controller.num_balls_known = 3

    def settle():
        for _ in range(10):
            h.advance_time_and_run(0)

    def audit(key):
        x = mode.earnings.get(key, 0) if isinstance(mode.earnings, dict) else -1
        return x

    def obs(rec):
        u = m.variables.get_machine_var('credit_units')
        g = m.game
        rec['units'] = int(u) if u else 0
        rec['game'] = g is not None
        rec['players'] = int(g.num_players) if g is not None else 0
        rec['audN'] = {t: int(audit('1 Total Coins ' + t)) for t in TYPES}
        av = {}
        for t in TYPES:
            x = audit('2 Total Earnings ' + t) / unit
            av[t] = int(round(x)) if abs(x - round(x)) < 1e-6 else -1
        rec['audV'] = av
        ev.append(rec)

    obs({'op': 'init', 'upg': int(mode.credit_units_per_game)})
    tail = [{'op': 'adv'}] * (max(c['fracExp'], c['allExp']) + 1)
    for a in list(sched) + tail:
        op = a['op']
        if op == 'init':
            continue
        rec = {'op': op}
        try:
            if op == 'coin':
                rec['i'] = a['i']
                h.hit_and_release_switch('s_coin%d' % a['i'])
            elif op == 'service':
                h.hit_and_release_switch('s_esc')
            elif op == 'event':
                m.events.post('c20_award')
            elif op == 'press':
                h.hit_and_release_switch('s_start')
            elif op == 'drain':
                if m.game is None or m.game.balls_in_play <= 0:
                    continue            # the real machine has no ball in play (only after a divergence)
                m.game.balls_in_play = 0
            elif op == 'free':
                m.events.post('enable_free_play')
            elif op == 'credit':
                m.events.post('enable_credit_play')
            elif op == 'toggle':
                m.events.post('toggle_credit_play')
            elif op == 'reset':
                m.events.post('credits_reset')
            elif op == 'adv':
                h.advance_time_and_run(U_MS * (1 + EPS) / 1000.0)
            else:
                raise ValueError(op)
            settle()
        except Exception as ex:  # pylint: disable=broad-except
            ev.append({'op': 'crash', 'during': op, 'what': repr(ex)[:200]})
            break
        obs(rec)
    return {'cfg': cfg_rec(c), 'ev': ev}


# ---- hand-written schedules ----------------------------------------------------------------------------------------
def _ops(*xs):
    out = []
    for x in xs:
        if isinstance(x, tuple):
            out.append({'op': 'coin', 'i': x[1]} if x[0] == 'coin' else {'op': x[0]})
        else:
            out.append({'op': x})
    return out


def hand_schedules():
    c1, c2 = ('coin', 1), ('coin', 2)
    return [
        # just below the maximum plus a multi-unit coin (11 credits + a coin worth 2 credits, maximum 12)
        ('below-max-plus-multi-unit-coin', 2, _ops(*(['service'] * 11 + [c2, 'press', 'press']))),
        ('at-max-coin', 3, _ops('service', 'service', 'service', c1, c2, 'press', c2)),
        ('small-max-tier-bonus', 9, _ops(c2, c1, c2, c2)),
        # tier wrap-around across game starts and across the once-per-game reset on ball 2
        ('tier-wrap-across-game', 2, _ops(c2, c1, c1, c1, 'press', c1, c2, 'drain', c1, c1, c1, c1, 'drain', c2, c2)),
        ('tier-wrap-no-game', 10, _ops(c1, c2, c2, c1, c1, c1, c1, c2, c2, c2)),
        ('three-tiers', 4, _ops(*([c2] * 6 + ['press', 'press', 'press', 'press'] + [c1] * 9))),
        ('two-players-ball2-reset', 2, _ops(c2, c1, 'press', 'press', c1, 'drain', c1, 'drain', c1, c2, 'drain', c1, 'drain', c1)),
        # start gate: fractional credits are not enough; player add on ball 2 is refused without deduction
        ('start-gate', 5, _ops(c1, 'press', c1, 'press', c1, 'press', 'press', c2, c1, 'press', 'drain', 'drain', 'drain', 'press')),
        ('expiry', 2, _ops(c1, c1, c1, 'adv', 'adv', c1, 'adv', 'adv', 'adv', 'adv', 'adv', 'event', 'adv', 'service')),
        ('expiry-during-game', 10, _ops(c2, c1, 'press', c1, 'adv', c2, 'adv', 'adv')),
        # free-play toggles
        ('toggle', 2, _ops(c1, 'toggle', c1, 'press', 'press', 'toggle', c1, 'drain', 'drain', 'drain', 'drain', 'press')),
        ('enable-credit-twice', 2, _ops('credit', c1, 'event', 'service', 'free', 'credit', c1)),
        ('free-then-credit', 3, _ops('free', c1, 'service', 'credit', c1, c1, 'press')),
        ('boot-free-toggle', 7, _ops('press', 'drain', 'drain', 'toggle', 'press', 'service', 'event', 'press', c1)),
        ('boot-free-enable-credit', 7, _ops(c1, 'credit', 'service', 'service', 'press', 'press')),
        ('no-tiers', 6, _ops(c1, c1, c1, 'press', c1, 'press', c2, c2, c2)),
        ('half-dollar-unit', 8, _ops(c1, c2, c2, c1, 'event', 'press', 'press', 'press', c2, c2, c2)),
        ('reset', 5, _ops(c2, c1, 'reset', c1, c2, c2)),
        # the tier progress is reset when player 1 starts ball 2, not when player 2 does
        ('ball2-reset-only-player1', 2, _ops(c2, c2, 'press', 'press', 'drain', 'drain', c2, 'drain', c2, 'drain', 'drain', c1)),
        # ... and again in the next game (the once-per-game flag is cleared at game end)
        # ... also when the previous game ended with a balance of exactly zero
        ('ball2-reset-second-game-after-zero-balance', 2,
         _ops(*(['service', 'press'] + ['drain'] * BALLS_PER_GAME + [c2, 'press', c2, 'drain', c2, c1, 'drain', c2]))),
        ('ball2-reset-second-game', 2, _ops('service', 'service', 'press', 'drain', 'drain', 'press', c2, 'drain', c2, c2, 'drain')),
    ]


# ---- the check ---------------------------------------------------------------------------------------------------------
def run(ctx):
    root = write_machines(ctx.scratch)
    wd = tlc.prepare(ctx.scratch, 'Credits', 'credits')
    with open(wd + '/CreditsMC.tla', 'w') as f:
        f.write(mc_module(TABLE))
    bounds = dict(MaxTime=3, MaxOps=6, MaxPaid=1000) if ctx.quick else dict(MaxTime=4, MaxOps=7, MaxPaid=1000)
    with open(wd + '/MC.cfg', 'w') as f:
        f.write(MC_CFG % ('MCDev0', bounds['MaxTime'], bounds['MaxOps'], bounds['MaxPaid'], BALLS_PER_GAME, 'MCOps', CHECKS))
    r = tlc.expect_ok(tlc.check(wd, 'CreditsMC', 'MC.cfg', timeout=3000), 'Credits design check (intended model)')
    ctx.add_tlc('CreditsMC', r, dict(bounds, configs=len(TABLE), BallsPerGame=BALLS_PER_GAME))
    ctx.coverage['monitors'] += list(INVS) + list(PROPS)

    # the code-as-is cap (Deviation CapOverwritten) must break Bounds in the model; its counterexample is a schedule
    with open(wd + '/MCcap.cfg', 'w') as f:
        f.write(MC_CFG % ('MCDevCap', 2, 6, 1000, BALLS_PER_GAME, 'MCOps', 'INVARIANT Bounds\n'))
    rc = tlc.check(wd, 'CreditsMC', 'MCcap.cfg', workers=1, timeout=3000)      # 1 worker: deterministic counterexample
    ctx.add_tlc('CreditsMC code-as-is cap', rc, {'Deviations': ['CapOverwritten'], 'MaxOps': 6})
    jobs = []
    labels = []
    if rc.violated == 'Bounds':
        ce = [st for _, st in rc.counterexample() if isinstance(st, dict) and 'act' in st]
        if ce:
            jobs.append((root, ce[0]['cfg']['id'], [st['act'] for st in ce]))
            labels.append('tlc-counterexample-of-code-as-is-cap')
            ctx.notes.append('model with Deviation CapOverwritten violates Bounds: config %s schedule %s' % (
                ce[0]['cfg']['id'], [st['act'] for st in ce][1:]))
    else:
        ctx.notes.append('model with Deviation CapOverwritten did not violate Bounds within its budget (violated=%s)' % rc.violated)
    for label, cid, sched in hand_schedules():
        jobs.append((root, cid, sched))
        labels.append('hand:' + label)

    with open(wd + '/Gen.cfg', 'w') as f:
        f.write(MC_CFG % ('MCDev0', 10, 26, 1000000, BALLS_PER_GAME, 'GenOps', ''))
    # a second generator never posts enable_credit_play (credit play is re-entered with toggle_credit_play only), so
    # that a good share of the schedules is not cut short by the duplicate-handler defect
    with open(wd + '/Gen2.cfg', 'w') as f:
        f.write(MC_CFG % ('MCDev0', 10, 26, 1000000, BALLS_PER_GAME, 'GenOpsNoEnable', ''))
    num = 480 if ctx.quick else 6000
    depth = 30 if ctx.quick else 44
    for gcfg, n, lab, seed in (('Gen.cfg', num // 3, 'sim', ctx.seed), ('Gen2.cfg', num - num // 3, 'sim-no-enable', ctx.seed + 1000)):
        behs, _ = tlc.simulate(wd, 'CreditsMC', gcfg, num=n, depth=depth, seed=seed)
        for b in behs:
            jobs.append((root, b[0]['cfg']['id'], [st['act'] for st in b]))
            labels.append(lab)
    traces = harness.pmap(exec_schedule, jobs, chunk=8)

    for name, _ in [('TDev0', ())] + DEV_SETS:
        with open(wd + '/Trace_%s.cfg' % name, 'w') as f:
            f.write(TRACE_CFG % (name, BALLS_PER_GAME))
    v = tlc.validate_traces(wd, 'CreditsTrace', 'Trace_TDev0.cfg', traces, batch=1000)
    ctx.add_trace_verdict('CreditsTrace', v, len(traces))
    ctx.coverage['configs_exercised'] = sorted({j[1] for j in jobs})
    ctx.coverage['ops_executed'] = sum(len(t['ev']) for t in traces)
    ctx.sample({'kind': 'credits-trace', 'label': labels[0], 'cfg': traces[0]['cfg'], 'trace': traces[0]['ev'][:12]})

    # classify rejected traces: which named code-as-is deviation(s) make the model follow the real execution?
    rej = sorted(v.rejected)
    explained = {}
    todo = list(rej)
    for name, devs in DEV_SETS:
        if not todo:
            break
        vd = tlc.validate_traces(wd, 'CreditsTrace', 'Trace_%s.cfg' % name, [traces[i] for i in todo],
                                 diagnose=(name == 'TDevAll'), batch=1000)
        ctx.log('classification with %s: %d of %d rejected traces explained' % (name, len(vd.accepted), len(todo)))
        for k in sorted(vd.accepted):
            explained[todo[k]] = devs
        last = vd
        last_ids = list(todo)
        todo = [i for k, i in enumerate(todo) if k not in vd.accepted]
    ctx.coverage['rejected_by_intended_model'] = len(rej)
    ctx.coverage['rejected_explained_by_deviation'] = {
        '+'.join(d): sum(1 for x in explained.values() if x == d) for d in sorted(set(explained.values()))}
    undiagnosed = []
    n_unexplained = 0
    for i in rej:
        info = v.rejected[i]
        fe = info.get('failing_event') or {}
        rd = {'cid': jobs[i][1], 'sched': jobs[i][2], 'label': labels[i], 'trace': traces[i], 'info': info}
        if i in explained:
            for d in explained[i]:
                ctx.violation(DEV_SIG[d], '%s [schedule %s, config %s; intended model rejects line %s: %s after %s]' % (
                    DEV_WHAT[d], labels[i], cfg_rec(BY_ID[jobs[i][1]]), info.get('line'), fe, info.get('prev_event')), rd)
        else:
            k = last_ids.index(i) if i in last_ids else None
            inf2 = last.rejected.get(k, {}) if k is not None else {}
            fe2 = inf2.get('failing_event') or fe
            if not fe2:
                undiagnosed.append(i)       # only the first few rejected traces of a batch are diagnosed line by line
                continue
            n_unexplained += 1
            rd['info_all_deviations'] = inf2
            ctx.violation('C20:unexplained:%s' % (fe2.get('during') if fe2.get('op') == 'crash' else fe2.get('op', '?')),
                          'credits execution not explained by the Credits spec (nor by the known deviations) at line %s: %s '
                          '(prev %s; schedule %s; cfg %s)%s' % (
                              inf2.get('line', info.get('line')), fe2, inf2.get('prev_event', info.get('prev_event')), labels[i],
                              cfg_rec(BY_ID[jobs[i][1]]), ('\n' + traces[i]['_tb']) if '_tb' in traces[i] else ''), rd)
    if undiagnosed and not n_unexplained:
        i = undiagnosed[0]
        ctx.violation('C20:unexplained:undiagnosed', 'credits execution not explained by the Credits spec (schedule %s; cfg %s)' % (
            labels[i], cfg_rec(BY_ID[jobs[i][1]])),
            {'cid': jobs[i][1], 'sched': jobs[i][2], 'label': labels[i], 'trace': traces[i], 'info': v.rejected[i]})
    ctx.coverage['rejected_unexplained'] = n_unexplained + len(undiagnosed)
    ctx.assumptions += [
        'real credits mode + real attract/game modes; ball handling faked (balls_in_play set to 0 to drain), %d balls per game' % BALLS_PER_GAME,
        'one machine boot per schedule; virtual time, one abstract time unit = %d ms' % U_MS,
        'all currency values are multiples of the smallest coin (credit unit), so unit conversion is exact',
        'earnings observed in the mode object (data manager double), keys "1 Total Coins <type>" / "2 Total Earnings <type>"',
    ]


def replay(ctx, data):
    d = data['replay']
    root = write_machines(ctx.scratch)
    tr = exec_schedule((root, d['cid'], d['sched']))
    print('config:', cfg_rec(BY_ID[d['cid']]))
    for e in tr['ev']:
        print('  ', e)
    if '_tb' in tr:
        print(tr['_tb'])
