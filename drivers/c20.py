"""C20 — credits: balance follows the pricing table and stays within bounds (specs/Credits).

Config table (everything in integer credit units) -> generated machine configs (real credits mode + real game
mode with fake ball handling) -> generated CreditsMC module -> exhaustive TLC check of the intended model ->
TLC-simulated schedules + hand-written ones + the TLC counterexample of the code-as-is cap model -> executed on
real MPF in virtual time -> traces validated against CreditsTrace (intended model, Deviations = {}).
Rejected traces are re-validated (up to their first divergence) with the named code-as-is deviations switched on, only
to give each rejected trace a stable signature (which known deviation(s) explain it, or none).
Configurations 11-13 have insertions that are large compared with the pricing table (a bill worth several wrap-arounds of
the tier counter); `press2` is both start buttons (s_start, s_start2) hit in the same instant.
"""
import itertools
import os
import traceback

from lib import tlc, harness
from lib.tlaval import to_tla

LEVEL = 'model_checking'
EPS = 1e-6
U_MS = 1000                 # one abstract time unit
BALLS_PER_GAME = 2
TYPES = ('money', 'token')
KEYS = ('id', 'upg', 'tiers', 'coins', 'maxU', 'fracExp', 'allExp', 'bootFree', 'evCredits', 'maxPlayers')
ALL_OPS = ('coin', 'service', 'event', 'press', 'drain', 'free', 'credit', 'toggle', 'reset')
# press2: both start buttons in the same instant; model-checked / generated with a smaller set of other operations
P2_OPS = ('coin', 'service', 'press', 'press2', 'drain', 'reset')
P2_MC_IDS = (1, 2, 5, 7, 11, 12, 13)


def C(i, upg, tiers, coins, max_credits, frac=0, allx=0, boot_free=False, ev=1, players=3, unit=0.25):
    """tiers: [(price in units, credits)], first must be (upg, 1); coins: [(value in units, audit type)]."""
    assert not tiers or tiers[0] == (upg, 1)
    return dict(id=i, upg=upg, tiers=[[p, c * upg - p] for p, c in tiers], coins=[{'v': v, 't': t} for v, t in coins],
                maxU=max_credits * upg, fracExp=frac, allExp=allx, bootFree=boot_free, evCredits=ev, maxPlayers=players,
                _tiers=tiers, _max_credits=max_credits, _unit=unit)


TABLE = [
    # one coin = one credit, small maximum
    C(1, 1, [(1, 1)], [(1, 'money')], 3, players=2),
    # the documentation example: .50 per game, 5 credits for 2.00, quarters and a dollar slot
    C(2, 2, [(2, 1), (8, 5)], [(1, 'money'), (4, 'token')], 12, frac=2, allx=5),
    # same prices, maximum of 3 credits: the boundary is reached with a few coins
    C(3, 2, [(2, 1), (8, 5)], [(1, 'money'), (4, 'money')], 3, players=2),
    # three tiers
    C(4, 2, [(2, 1), (8, 5), (20, 15)], [(1, 'money'), (4, 'token')], 30, frac=3),
    # .75 per game (fractional credits in thirds), 3 credits for 2.00, three coin values
    C(5, 3, [(3, 1), (8, 3)], [(1, 'money'), (2, 'token'), (4, 'money')], 4, frac=3, ev=2),
    # no pricing tiers configured (1.00 per game by default)
    C(6, 4, [], [(1, 'money'), (4, 'token')], 2, allx=3, players=2),
    # booted in free play
    C(7, 2, [(2, 1), (8, 5)], [(1, 'money'), (4, 'token')], 5, frac=2, allx=4, boot_free=True),
    # smallest coin .50 (credit unit .50), no maximum, credit event worth 2 credits
    C(8, 2, [(2, 1), (6, 4)], [(1, 'money'), (2, 'token')], 0, ev=2, unit=0.5),
    # multi-unit coin against a small maximum, bonus credit in the second tier, full expiry only
    C(9, 1, [(1, 1), (4, 5)], [(1, 'money'), (3, 'token')], 4, allx=2),
    # no maximum, short expiry times, tier wrap after 4 units
    C(10, 2, [(2, 1), (4, 3)], [(1, 'money'), (2, 'money')], 0, frac=1, allx=2, players=2),
    # ---- insertions that are LARGE compared with the pricing table (bill acceptors, big tokens): one insertion passes the
    # highest tier (the tier counter wraps around) once or several times and crosses further bonus steps behind the wrap
    # the documentation example with a 5.00 bill: 20 units against a wrap-around of 8 (two wraps and a half)
    C(11, 2, [(2, 1), (8, 5)], [(1, 'money'), (20, 'money')], 30, frac=2, players=4),
    # .25 per game, 3 credits for .50, a 1.00 coin (two wraps per coin) and a 1.25 token (wraps in the middle), no maximum
    C(12, 1, [(1, 1), (2, 3)], [(1, 'money'), (4, 'money'), (5, 'token')], 0, allx=3, players=4),
    # three tiers (.75 / 2.00 / 5.00), quarters, dollars and a 10.00 bill (two wraps of the whole table)
    C(13, 3, [(3, 1), (8, 3), (20, 9)], [(1, 'money'), (4, 'money'), (40, 'token')], 20, players=4),
]
BIG_IDS = (11, 12, 13)
BY_ID = {c['id']: c for c in TABLE}


def cfg_rec(c):
    return {k: c[k] for k in KEYS}


def _money(units, unit):
    return ('%.2f' % (units * unit)).rstrip('0').rstrip('.')


def write_machines(scratch):
    root = os.path.join(scratch, 'machines')
    for c in TABLE:
        d = os.path.join(root, 'credits_%d' % c['id'], 'config')
        os.makedirs(d, exist_ok=True)
        L = ['#config_version=6', 'modes:', '  - credits', 'game:', '  balls_per_game: %d' % BALLS_PER_GAME,
             '  max_players: %d' % c['maxPlayers'], 'switches:']
        for i in range(len(c['coins'])):
            L += ['  s_coin%d:' % (i + 1), '    number:']
        # a second start button (s_start itself is added by the game test harness)
        L += ['  s_start2:', '    number:', '    tags: start']
        L += ['  s_esc:', '    number:', 'credits:', '  max_credits: %d' % c['_max_credits'],
              '  free_play: %s' % ('yes' if c['bootFree'] else 'no'), '  service_credits_switch: s_esc', '  switches:']
        for i, coin in enumerate(c['coins']):
            L += ['    - switch: s_coin%d' % (i + 1), '      type: %s' % coin['t'],
                  '      value: %s' % _money(coin['v'], c['_unit']), '      label: Coin %d' % (i + 1)]
        L += ['  events:', '    - event: c20_award', '      type: award', '      credits: %d' % c['evCredits']]
        if c['_tiers']:
            L.append('  pricing_tiers:')
            for p, n in c['_tiers']:
                L += ['    - price: %s' % _money(p, c['_unit']), '      credits: %d' % n]
        if c['fracExp']:
            L.append('  fractional_credit_expiration_time: %dms' % (c['fracExp'] * U_MS))
        if c['allExp']:
            L.append('  credit_expiration_time: %dms' % (c['allExp'] * U_MS))
        L += ['  persist_credits_while_off_time: 1h', '  free_play_string: FREE PLAY', '  credits_string: CREDITS']
        with open(os.path.join(d, 'config.yaml'), 'w') as f:
            f.write('\n'.join(L) + '\n')
    return root


def mc_module(table):
    return """----------------------------- MODULE CreditsMC -----------------------------
EXTENDS Credits
MCConfigs == {%s}
MCConfigsP2 == {c \\in MCConfigs : c.id \\in {%s}}
MCConfigsBase == {c \\in MCConfigs : c.id \\notin {%s}}
MCDev0 == {}
MCDevCap == {"CapOverwritten"}
MCDevTick == {"SameTickGate"}
MCOps == {%s}
GenOps == {%s}
GenOpsNoEnable == GenOps \\ {"credit"}
P2Ops == {%s, "press2both"}
GenOpsP2 == (P2Ops \\ {"press2both"}) \\union {"event", "toggle", "reset"}
=============================================================================
""" % (',\n   '.join(to_tla(cfg_rec(c)) for c in table),
       ', '.join(str(i) for i in P2_MC_IDS), ', '.join(str(i) for i in BIG_IDS),
       ', '.join('"%s"' % o for o in ALL_OPS if o != 'toggle'),
       ', '.join('"%s"' % o for o in ALL_OPS),
       ', '.join('"%s"' % o for o in P2_OPS))


MC_CFG = """SPECIFICATION Spec
CONSTANTS
  Configs <- %s
  Deviations <- %s
  MaxTime = %d
  MaxOps = %d
  MaxPaid = %d
  BallsPerGame = %d
  Ops <- %s
%sCHECK_DEADLOCK FALSE
"""
INVS = ('TypeOK', 'Bounds', 'ClosedForm')
PROPS = ('CoinExact', 'EveryTierInOneCoin', 'DenominationFree', 'NonTieredExact', 'FreePlayInert', 'StartGate', 'StartsPaid',
         'OnlyTheseLower', 'ExpiryRules', 'AuditsMatch', 'TierResetOncePerGame')
CHECKS = ''.join('INVARIANT %s\n' % x for x in INVS) + ''.join('PROPERTY %s\n' % x for x in PROPS)

TRACE_CFG = """SPECIFICATION TSpec
CONSTANTS
  Configs <- TConfigs
  Deviations <- %s
  MaxTime = 1000000
  MaxOps = 1000000
  MaxPaid = 1000000
  BallsPerGame = %d
  Ops <- TOps
INVARIANT Reporter
CHECK_DEADLOCK FALSE
"""
DEV_SIG = {'CapOverwritten': 'C20:cap-overwritten', 'DupHandlers': 'C20:duplicate-handlers',
           'BootFreeNoUnits': 'C20:boot-free-play-no-units', 'SameTickGate': 'C20:same-tick-start-requests'}
DEV_WHAT = {
    'CapOverwritten': 'credits.py _add_credit_units: after capping at max_credits the second `if` stores the uncapped total '
                      'whenever the previous balance was below the maximum, so the balance exceeds the configured maximum',
    'DupHandlers': 'credits.py enable_credit_play: posted while already in credit play it registers the coin / service / '
                   'credit-event handlers a second time (_enable_credit_handlers appends, nothing removes), so every coin '
                   'is credited and audited twice',
    'BootFreeNoUnits': 'credits.py mode_start: a machine booted in free play never runs _calculate_credit_units / '
                       '_calculate_pricing_tiers; after enable_credit_play / toggle_credit_play the price per game is 0 '
                       '(start gate always open, nothing deducted) and a coin divides by the zero credit unit',
    'SameTickGate': 'game.py request_player_add / credits.py _player_add_request + _player_added: two add-player requests in the '
                    'same instant (two switches tagged start hit together, sw_start posted twice) are both answered by the '
                    'player_add_request gate before the player_added handler of the first one deducts, so with one game price '
                    'left BOTH players are added; the second deduction is clamped at zero ("Somehow credit units went below '
                    '0"): a player started without a full game price, balance != money - price * players',
}
_DEVS = (('Tick', 'SameTickGate'), ('Cap', 'CapOverwritten'), ('Dup', 'DupHandlers'), ('Boot', 'BootFreeNoUnits'))
# subsets of deviations tried (in this order: one deviation, two, ...) on the traces the intended model rejects; the names
# are defined in CreditsTrace.tla
DEV_SETS = [('TDev' + ''.join(a for a, _ in comb), tuple(d for _, d in comb))
            for n in range(1, len(_DEVS) + 1) for comb in itertools.combinations(_DEVS, n)]


# ---- execution on real MPF -------------------------------------------------------------------------------------
def _boot(mdir):
    """lib.harness.boot(fake_game=True) cannot construct MpfFakeGameTestCase (its __init__ needs methodName)."""
    h = harness._HG('runTest')       # pylint: disable=protected-access
    h._machine_dir = mdir
    h._config_file = 'config.yaml'
    h._platform = 'virtual'
    h._mock_data_v = None
    h._options_v = None
    h.expected_duration = 1e9
    h.setUp()
    return h


def exec_schedule(job):
    root, cid, sched = job
    c = BY_ID[cid]
    try:
        return _exec(root, c, sched)
    except Exception as ex:  # pylint: disable=broad-except
        return {'cfg': cfg_rec(c), 'ev': [{'op': 'crash', 'during': 'harness', 'what': repr(ex)[:300]}],
                '_tb': traceback.format_exc()[-1500:]}


def _exec(root, c, sched):
    h = _boot(os.path.join(root, 'credits_%d' % c['id']))
    try:
        return _drive(h, c, sched)
    finally:
        harness.shutdown(h)


def _drive(h, c, sched):
    m = h.machine
    mode = m.modes['credits']
    if not mode.active:
        raise RuntimeError('credits mode not active after boot')
    unit = c['_unit']
    ev = []

    def _noball(**kwargs):
        del kwargs
    m.playfield.add_ball = _noball
    m.ball_controller.num_balls_known = 3

    def settle():
        for _ in range(10):
            h.advance_time_and_run(0)

    def audit(key):
        x = mode.earnings.get(key, 0) if isinstance(mode.earnings, dict) else -1
        return x

    def obs(rec):
        u = m.variables.get_machine_var('credit_units')
        g = m.game
        rec['units'] = int(u) if u else 0
        rec['game'] = g is not None
        rec['players'] = int(g.num_players) if g is not None else 0
        rec['audN'] = {t: int(audit('1 Total Coins ' + t)) for t in TYPES}
        av = {}
        for t in TYPES:
            x = audit('2 Total Earnings ' + t) / unit
            av[t] = int(round(x)) if abs(x - round(x)) < 1e-6 else -1
        rec['audV'] = av
        ev.append(rec)

    obs({'op': 'init', 'upg': int(mode.credit_units_per_game)})
    tail = [{'op': 'adv'}] * (max(c['fracExp'], c['allExp']) + 1)
    for a in list(sched) + tail:
        op = a['op']
        if op == 'init':
            continue
        rec = {'op': op}
        try:
            if op == 'coin':
                rec['i'] = a['i']
                h.hit_and_release_switch('s_coin%d' % a['i'])
            elif op == 'service':
                h.hit_and_release_switch('s_esc')
            elif op == 'event':
                m.events.post('c20_award')
            elif op == 'press':
                h.hit_and_release_switch('s_start')
            elif op == 'press2':
                # both start buttons in the same instant: the events are only processed after both were hit and released
                # (not where the second request would run into max_players, which is not part of C20; the model has the
                # same guard, this one matters only after the real machine diverged from the schedule's model state)
                if m.game is not None and m.game.num_players + 2 > c['maxPlayers']:
                    continue
                h.hit_and_release_switches_simultaneously(['s_start', 's_start2'])
            elif op == 'drain':
                if m.game is None or m.game.balls_in_play <= 0:
                    continue            # the real machine has no ball in play (only after a divergence)
                m.game.balls_in_play = 0
            elif op == 'free':
                m.events.post('enable_free_play')
            elif op == 'credit':
                m.events.post('enable_credit_play')
            elif op == 'toggle':
                m.events.post('toggle_credit_play')
            elif op == 'reset':
                m.events.post('credits_reset')
            elif op == 'adv':
                h.advance_time_and_run(U_MS * (1 + EPS) / 1000.0)
            else:
                raise ValueError(op)
            settle()
        except Exception as ex:  # pylint: disable=broad-except
            ev.append({'op': 'crash', 'during': op, 'what': repr(ex)[:200]})
            break
        obs(rec)
    return {'cfg': cfg_rec(c), 'ev': ev}


# ---- hand-written schedules ----------------------------------------------------------------------------------------
def _ops(*xs):
    out = []
    for x in xs:
        if isinstance(x, tuple):
            out.append({'op': 'coin', 'i': x[1]} if x[0] == 'coin' else {'op': x[0]})
        else:
            out.append({'op': x})
    return out


def hand_schedules():
    c1, c2, c3 = ('coin', 1), ('coin', 2), ('coin', 3)
    return [
        # ---- insertions that are large compared with the pricing table
        # one 5.00 bill against 0.50 = 1 credit / 2.00 = 5 credits: two and a half wraps of the tier counter in one insertion
        ('bill-alone', 11, _ops(c2, 'press', 'press')),
        # 1.50 in quarters, then the bill: the bill crosses the wrap-around in the middle of its units, then twice more
        ('small-coins-then-bill', 11, _ops(c1, c1, c1, c1, c1, c1, c2, c1, c1, c2)),
        # bills in a row up to the maximum of 30 credits, small coins in between
        ('bills-in-a-row-to-the-maximum', 11, _ops(c2, c2, c1, c2, c1, c2)),
        ('bill-one-unit-before-the-wrap', 11, _ops(c1, c1, c1, c1, c1, c1, c1, c2, c1)),
        ('bill-game-bill-ball2-bill', 11, _ops(c2, 'press', c1, c2, 'press', 'drain', 'drain', c1, c2, 'drain', c2, 'drain', 'drain', c2)),
        ('bill-fractional-expiry', 11, _ops(c1, c2, 'adv', 'adv', c2, c1, 'adv', 'adv', 'reset', c2)),
        # a 1.00 coin / 1.25 token against a table that wraps after 0.50
        ('dollar-two-wraps-per-coin', 12, _ops(c2, c2, c1, c2, c3, c3, c1, c3, c2)),
        ('token-wraps-in-the-middle', 12, _ops(c1, c3, 'press', c3, c3, 'press', 'drain', c3, 'drain', c1, c2, c3)),
        ('dollar-expiry', 12, _ops(c3, 'adv', c2, 'adv', 'adv', 'adv', c3, c1, c2)),
        # three tiers and a 10.00 bill worth two wraps of the whole table, up to the maximum
        ('bill-three-tiers', 13, _ops(c3, 'press', c1, c2, c3, c2, c1, c3)),
        ('bill-three-tiers-offsets', 13, _ops(c1, c1, c2, c3, 'reset', c2, c2, c2, c2, c1, c1, c1, c3, c1)),
        # ---- two start buttons hit in the same instant
        ('two-start-buttons-one-credit-left', 2, _ops(c2, 'press', 'press2', c1, c1, 'press')),
        ('two-start-buttons-one-and-a-half-credits-left', 2, _ops(c2, c1, 'press', 'press2')),
        ('two-start-buttons-enough-credits', 2, _ops(c2, c2, 'press', 'press2', c1)),
        ('two-start-buttons-attract', 2, _ops(c1, 'press2', c1, 'press2', 'press', c2, 'drain', 'drain', 'press2', 'press', c1)),
        ('two-start-buttons-attract-three-credits', 11, _ops(c1, c1, c1, c1, c1, c1, 'press2', 'press2', 'press')),
        ('two-start-buttons-free-play', 7, _ops('press2', 'press2', 'toggle', 'service', 'press')),
        ('two-start-buttons-bill', 11, _ops(c2, 'press2', 'press2', c2, 'drain', 'press')),
        ('two-start-buttons-ball-2', 2, _ops(c2, 'press', 'drain', 'press2', c1)),
        # just below the maximum plus a multi-unit coin (11 credits + a coin worth 2 credits, maximum 12)
        ('below-max-plus-multi-unit-coin', 2, _ops(*(['service'] * 11 + [c2, 'press', 'press']))),
        ('at-max-coin', 3, _ops('service', 'service', 'service', c1, c2, 'press', c2)),
        ('small-max-tier-bonus', 9, _ops(c2, c1, c2, c2)),
        # tier wrap-around across game starts and across the once-per-game reset on ball 2
        ('tier-wrap-across-game', 2, _ops(c2, c1, c1, c1, 'press', c1, c2, 'drain', c1, c1, c1, c1, 'drain', c2, c2)),
        ('tier-wrap-no-game', 10, _ops(c1, c2, c2, c1, c1, c1, c1, c2, c2, c2)),
        ('three-tiers', 4, _ops(*([c2] * 6 + ['press', 'press', 'press', 'press'] + [c1] * 9))),
        ('two-players-ball2-reset', 2, _ops(c2, c1, 'press', 'press', c1, 'drain', c1, 'drain', c1, c2, 'drain', c1, 'drain', c1)),
        # start gate: fractional credits are not enough; player add on ball 2 is refused without deduction
        ('start-gate', 5, _ops(c1, 'press', c1, 'press', c1, 'press', 'press', c2, c1, 'press', 'drain', 'drain', 'drain', 'press')),
        ('expiry', 2, _ops(c1, c1, c1, 'adv', 'adv', c1, 'adv', 'adv', 'adv', 'adv', 'adv', 'event', 'adv', 'service')),
        ('expiry-during-game', 10, _ops(c2, c1, 'press', c1, 'adv', c2, 'adv', 'adv')),
        # free-play toggles
        ('toggle', 2, _ops(c1, 'toggle', c1, 'press', 'press', 'toggle', c1, 'drain', 'drain', 'drain', 'drain', 'press')),
        ('enable-credit-twice', 2, _ops('credit', c1, 'event', 'service', 'free', 'credit', c1)),
        ('free-then-credit', 3, _ops('free', c1, 'service', 'credit', c1, c1, 'press')),
        ('boot-free-toggle', 7, _ops('press', 'drain', 'drain', 'toggle', 'press', 'service', 'event', 'press', c1)),
        ('boot-free-enable-credit', 7, _ops(c1, 'credit', 'service', 'service', 'press', 'press')),
        ('no-tiers', 6, _ops(c1, c1, c1, 'press', c1, 'press', c2, c2, c2)),
        ('half-dollar-unit', 8, _ops(c1, c2, c2, c1, 'event', 'press', 'press', 'press', c2, c2, c2)),
        ('reset', 5, _ops(c2, c1, 'reset', c1, c2, c2)),
        # the tier progress is reset when player 1 starts ball 2, not when player 2 does
        ('ball2-reset-only-player1', 2, _ops(c2, c2, 'press', 'press', 'drain', 'drain', c2, 'drain', c2, 'drain', 'drain', c1)),
        # ... and again in the next game (the once-per-game flag is cleared at game end)
        # ... also when the previous game ended with a balance of exactly zero
        ('ball2-reset-second-game-after-zero-balance', 2,
         _ops(*(['service', 'press'] + ['drain'] * BALLS_PER_GAME + [c2, 'press', c2, 'drain', c2, c1, 'drain', c2]))),
        ('ball2-reset-second-game', 2, _ops('service', 'service', 'press', 'drain', 'drain', 'press', c2, 'drain', c2, c2, 'drain')),
    ]


def _coin_is_large(c, i):
    """worth at least a whole wrap-around of the tier table (the price of the highest tier)"""
    return bool(c['tiers']) and 0 < i <= len(c['coins']) and c['coins'][i - 1]['v'] >= c['tiers'][-1][0]


def _relevant_devs(c, sched):
    """the named deviations that can change the model's behaviour for this configuration and schedule at all"""
    ops = {a.get('op') for a in sched}
    rel = set()
    if 'press2' in ops:
        rel.add('SameTickGate')
    if c['maxU'] > 0:
        rel.add('CapOverwritten')
    if 'credit' in ops:
        rel.add('DupHandlers')
    if c['bootFree']:
        rel.add('BootFreeNoUnits')
    return rel


def _describe(c, fe, pe):
    """words for the report only (what was accepted / rejected has been decided by TLC)"""
    if fe.get('op') == 'coin' and 'units' in fe and 'units' in pe and 0 < fe.get('i', 0) <= len(c['coins']):
        v = c['coins'][fe['i'] - 1]['v']
        w = c['tiers'][-1][0] if c['tiers'] else 1
        return ('an insertion worth %d credit units (%s wrap-arounds of the tier table, %d units = highest tier price; %d units per '
                'game, maximum %s) took the balance from %d to %d units (+%d), which is not what the pricing table yields for the '
                'money inserted: ' % (v, ('%.2f' % (v / w)).rstrip('0').rstrip('.'), w, c['upg'], c['maxU'] or 'none',
                                      pe['units'], fe['units'], fe['units'] - pe['units']))
    if fe.get('op') in ('press', 'press2') and 'units' in fe and 'units' in pe:
        return ('start request%s: balance %d -> %d units, players %d -> %d at %d units per game: ' % (
            's from two start buttons in the same instant' if fe['op'] == 'press2' else '', pe['units'], fe['units'],
            pe.get('players', 0), fe.get('players', 0), c['upg']))
    return ''


# ---- the check ---------------------------------------------------------------------------------------------------------
def run(ctx):
    root = write_machines(ctx.scratch)
    wd = tlc.prepare(ctx.scratch, 'Credits', 'credits')
    with open(wd + '/CreditsMC.tla', 'w') as f:
        f.write(mc_module(TABLE))
    bounds = dict(MaxTime=3, MaxOps=6, MaxPaid=1000) if ctx.quick else dict(MaxTime=4, MaxOps=7, MaxPaid=1000)
    # quick: the configurations with large insertions are model-checked in the second run only (fewer kinds of operations)
    mcconf = 'MCConfigsBase' if ctx.quick else 'MCConfigs'
    with open(wd + '/MC.cfg', 'w') as f:
        f.write(MC_CFG % (mcconf, 'MCDev0', bounds['MaxTime'], bounds['MaxOps'], bounds['MaxPaid'], BALLS_PER_GAME, 'MCOps', CHECKS))
    r = tlc.expect_ok(tlc.check(wd, 'CreditsMC', 'MC.cfg', timeout=3000), 'Credits design check (intended model)')
    ctx.add_tlc('CreditsMC', r, dict(bounds, configs=len(TABLE) - (len(BIG_IDS) if ctx.quick else 0), BallsPerGame=BALLS_PER_GAME))
    # second run: large insertions (coins worth several wrap-arounds of the tier table) and two start requests in the same
    # instant, with the operations that matter for them
    b2 = dict(MaxTime=2, MaxOps=5, MaxPaid=1000) if ctx.quick else dict(MaxTime=3, MaxOps=7, MaxPaid=1000)
    with open(wd + '/MC2.cfg', 'w') as f:
        f.write(MC_CFG % ('MCConfigsP2', 'MCDev0', b2['MaxTime'], b2['MaxOps'], b2['MaxPaid'], BALLS_PER_GAME, 'P2Ops', CHECKS))
    r2 = tlc.expect_ok(tlc.check(wd, 'CreditsMC', 'MC2.cfg', timeout=3000), 'Credits design check (large insertions, simultaneous starts)')
    ctx.add_tlc('CreditsMC large insertions + simultaneous starts', r2, dict(b2, configs=list(P2_MC_IDS), ops=list(P2_OPS)))
    ctx.coverage['monitors'] += list(INVS) + list(PROPS)

    # the code-as-is cap (Deviation CapOverwritten) must break Bounds in the model; its counterexample is a schedule
    with open(wd + '/MCcap.cfg', 'w') as f:
        f.write(MC_CFG % ('MCConfigs', 'MCDevCap', 2, 6, 1000, BALLS_PER_GAME, 'MCOps', 'INVARIANT Bounds\n'))
    rc = tlc.check(wd, 'CreditsMC', 'MCcap.cfg', workers=1, timeout=3000)      # 1 worker: deterministic counterexample
    ctx.add_tlc('CreditsMC code-as-is cap', rc, {'Deviations': ['CapOverwritten'], 'MaxOps': 6})
    jobs = []
    labels = []
    if rc.violated == 'Bounds':
        ce = [st for _, st in rc.counterexample() if isinstance(st, dict) and 'act' in st]
        if ce:
            jobs.append((root, ce[0]['cfg']['id'], [st['act'] for st in ce]))
            labels.append('tlc-counterexample-of-code-as-is-cap')
            ctx.notes.append('model with Deviation CapOverwritten violates Bounds: config %s schedule %s' % (
                ce[0]['cfg']['id'], [st['act'] for st in ce][1:]))
    else:
        ctx.notes.append('model with Deviation CapOverwritten did not violate Bounds within its budget (violated=%s)' % rc.violated)
    if not ctx.quick:
        # the code-as-is start gate (Deviation SameTickGate) must break StartsPaid in the model; counterexample = schedule
        with open(wd + '/MCtick.cfg', 'w') as f:
            f.write(MC_CFG % ('MCConfigsP2', 'MCDevTick', 0, 6, 1000, BALLS_PER_GAME, 'P2Ops', 'PROPERTY StartsPaid\n'))
        rt = tlc.check(wd, 'CreditsMC', 'MCtick.cfg', workers=1, timeout=3000)
        ctx.add_tlc('CreditsMC code-as-is start gate', rt, {'Deviations': ['SameTickGate'], 'MaxOps': 6})
        ce = [st for _, st in rt.counterexample() if isinstance(st, dict) and 'act' in st] if rt.violated == 'StartsPaid' else []
        if ce:
            jobs.append((root, ce[0]['cfg']['id'], [st['act'] for st in ce]))
            labels.append('tlc-counterexample-of-code-as-is-start-gate')
            ctx.notes.append('model with Deviation SameTickGate violates StartsPaid: config %s schedule %s' % (
                ce[0]['cfg']['id'], [st['act'] for st in ce][1:]))
        else:
            ctx.notes.append('model with Deviation SameTickGate did not violate StartsPaid (violated=%s)' % rt.violated)
    for label, cid, sched in hand_schedules():
        jobs.append((root, cid, sched))
        labels.append('hand:' + label)

    with open(wd + '/Gen.cfg', 'w') as f:
        f.write(MC_CFG % ('MCConfigs', 'MCDev0', 10, 26, 1000000, BALLS_PER_GAME, 'GenOps', ''))
    # a second generator never posts enable_credit_play (credit play is re-entered with toggle_credit_play only), so
    # that a good share of the schedules is not cut short by the duplicate-handler defect
    with open(wd + '/Gen2.cfg', 'w') as f:
        f.write(MC_CFG % ('MCConfigs', 'MCDev0', 10, 26, 1000000, BALLS_PER_GAME, 'GenOpsNoEnable', ''))
    # a third generator has two start buttons hit in the same instant (fewer kinds of other operations)
    with open(wd + '/Gen3.cfg', 'w') as f:
        f.write(MC_CFG % ('MCConfigs', 'MCDev0', 10, 26, 1000000, BALLS_PER_GAME, 'GenOpsP2', ''))
    num = 480 if ctx.quick else 6000
    depth = 30 if ctx.quick else 44
    for gcfg, n, lab, seed in (('Gen.cfg', num // 3, 'sim', ctx.seed), ('Gen2.cfg', num - num // 3, 'sim-no-enable', ctx.seed + 1000),
                               ('Gen3.cfg', num // 6, 'sim-two-start-buttons', ctx.seed + 2000)):
        behs, _ = tlc.simulate(wd, 'CreditsMC', gcfg, num=n, depth=depth, seed=seed)
        for b in behs:
            jobs.append((root, b[0]['cfg']['id'], [st['act'] for st in b]))
            labels.append(lab)
    traces = harness.pmap(exec_schedule, jobs, chunk=8)

    for name, _ in [('TDev0', ())] + DEV_SETS:
        with open(wd + '/Trace_%s.cfg' % name, 'w') as f:
            f.write(TRACE_CFG % (name, BALLS_PER_GAME))
    v = tlc.validate_traces(wd, 'CreditsTrace', 'Trace_TDev0.cfg', traces, batch=1000, diagnose=False)
    ctx.add_trace_verdict('CreditsTrace', v, len(traces))
    ctx.coverage['configs_exercised'] = sorted({j[1] for j in jobs})
    ctx.coverage['ops_executed'] = sum(len(t['ev']) for t in traces)
    ctx.coverage['large_insertions_executed'] = sum(
        1 for j in jobs for a in j[2] if a.get('op') == 'coin' and _coin_is_large(BY_ID[j[1]], a['i']))
    ctx.coverage['simultaneous_start_requests_executed'] = sum(1 for j in jobs for a in j[2] if a.get('op') == 'press2')
    ctx.sample({'kind': 'credits-trace', 'label': labels[0], 'cfg': traces[0]['cfg'], 'trace': traces[0]['ev'][:12]})

    # where does the intended model stop following each rejected execution (one TLC run for all of them)
    rej = sorted(v.rejected)
    if rej:
        tlc.finish_diagnosis(wd, 'CreditsTrace', 'Trace_TDev0.cfg', traces, v)
    # classify the FIRST divergence of every rejected trace: which named code-as-is deviation(s) make the model follow the
    # real execution up to and including the line the intended model rejects?  (What comes after a divergence is not
    # classified: the schedule was generated for the state the intended model was in.  A deviation is only tried on the
    # traces whose configuration / schedule it can influence at all.)
    def prefix(i):
        n = v.rejected[i].get('line') or 0
        return dict(traces[i], ev=traces[i]['ev'][:n]) if n > 0 and v.rejected[i].get('failing_event') else traces[i]

    def sched_prefix(i):
        n = v.rejected[i].get('line') or 0
        return [dict(a) for a in traces[i]['ev'][:n]] if n > 0 else jobs[i][2]
    explained = {}
    todo = list(rej)
    for name, devs in DEV_SETS:
        cand = [i for i in todo if set(devs) <= _relevant_devs(BY_ID[jobs[i][1]], sched_prefix(i))]
        if not cand:
            continue
        vd = tlc.validate_traces(wd, 'CreditsTrace', 'Trace_%s.cfg' % name, [prefix(i) for i in cand], diagnose=False, batch=1000)
        ctx.log('classification with %s: %d of %d rejected traces explained' % (name, len(vd.accepted), len(cand)))
        for k in sorted(vd.accepted):
            explained[cand[k]] = devs
        todo = [i for i in todo if i not in explained]
    ctx.coverage['rejected_by_intended_model'] = len(rej)
    ctx.coverage['rejected_explained_by_deviation'] = {
        '+'.join(d): sum(1 for x in explained.values() if x == d) for d in sorted(set(explained.values()))}
    undiagnosed = []
    n_unexplained = 0
    for i in rej:
        info = v.rejected[i]
        fe = info.get('failing_event') or {}
        pe = info.get('prev_event') or {}
        c = BY_ID[jobs[i][1]]
        rd = {'cid': jobs[i][1], 'sched': jobs[i][2], 'label': labels[i], 'trace': traces[i], 'info': info}
        if i in explained:
            for d in explained[i]:
                ctx.violation(DEV_SIG[d], '%s [schedule %s, config %s; intended model rejects line %s: %s after %s]' % (
                    DEV_WHAT[d], labels[i], cfg_rec(c), info.get('line'), fe, pe), rd)
        else:
            if not fe or fe.get('op') == 'undiagnosed':
                undiagnosed.append(i)
                continue
            n_unexplained += 1
            ctx.violation('C20:unexplained:%s' % (fe.get('during') if fe.get('op') == 'crash' else fe.get('op', '?')),
                          'credits execution not explained by the Credits spec (nor by the known deviations) at line %s: %s%s '
                          '(prev %s; schedule %s; cfg %s)%s' % (
                              info.get('line'), _describe(c, fe, pe), fe, pe, labels[i],
                              cfg_rec(c), ('\n' + traces[i]['_tb']) if '_tb' in traces[i] else ''), rd)
    if undiagnosed and not n_unexplained:
        i = undiagnosed[0]
        ctx.violation('C20:unexplained:undiagnosed', 'credits execution not explained by the Credits spec (schedule %s; cfg %s)' % (
            labels[i], cfg_rec(BY_ID[jobs[i][1]])),
            {'cid': jobs[i][1], 'sched': jobs[i][2], 'label': labels[i], 'trace': traces[i], 'info': v.rejected[i]})
    ctx.coverage['rejected_unexplained'] = n_unexplained + len(undiagnosed)
    ctx.assumptions += [
        'real credits mode + real attract/game modes; ball handling faked (balls_in_play set to 0 to drain), %d balls per game' % BALLS_PER_GAME,
        'one machine boot per schedule; virtual time, one abstract time unit = %d ms' % U_MS,
        'all currency values are multiples of the smallest coin (credit unit), so unit conversion is exact',
        'two simultaneous start requests are only driven where the second one cannot run into max_players (not part of C20); '
        'from attract the second press may or may not add a player (statement silent)',
        'earnings observed in the mode object (data manager double), keys "1 Total Coins <type>" / "2 Total Earnings <type>"',
    ]


def replay(ctx, data):
    d = data['replay']
    root = write_machines(ctx.scratch)
    tr = exec_schedule((root, d['cid'], d['sched']))
    print('config:', cfg_rec(BY_ID[d['cid']]))
    for e in tr['ev']:
        print('  ', e)
    if '_tb' in tr:
        print(tr['_tb'])
