"""C16 — templates evaluate like Python and never act on stale values (specs/Templates).

Part A (semantics): every expression AST up to a size bound (plus random bigger ones with floats, missing names,
index-style access ...) is rendered to source text and evaluated (i) with the real placeholder manager
(`build_raw_template(src).evaluate(params)` and `.evaluate_and_subscribe(params)`), (ii) with Python's own `eval`
over an equivalent namespace (and / or evaluating all operands, as the statement says).  Each case is a one-line trace;
TemplatesTrace compares python, template and the TLA+ transcription `Eval`.

Part B (freshness): the Templates state machine is model checked (NoStaleAtRest, Notified ...); schedules from TLC
are executed on a booted machine with a running two player game, with a manual subscriber, a consumer in the
`_update_subscription` pattern, a condition-driven event_player entry and a conditional event handler.
Settings are a variable source of their own: `st` is stored under its own name, `sq` in a differently named machine
variable (`machine_var: qv` in the config), `sc` is a SettingEntry added by code with a machine variable of its own;
they change through the settings controller (`set`) and directly through the backing machine variable (`setm`).
Machine variables (also those behind settings) are missing, declared but unset (`declare` = configure_machine_var; what
set_setting_value does before the first write) or set; the values written include the falsy value of every type
(0, False, '', None), so that every transition between value classes is driven from every one of the three states.
"""
import ast
import asyncio
import os
import random
import warnings

from lib import tlc, harness
from lib.tlaval import to_tla

LEVEL = 'model_checking'

# ----------------------------------------------------------------------------------------------- values / ASTs
CH = {'a': 1, 'b': 2}
RCH = {v: k for k, v in CH.items()}
DFLT = 'DFLT-' + 'sentinel'       # the templates' default value (compared by identity)
OUT = {'k': 'out'}


def I(n):
    return {'k': 'int', 'v': n}


def B(b):
    return {'k': 'bool', 'v': b}


NONE = {'k': 'none'}


def S(s):
    return {'k': 'str', 'v': [CH[c] for c in s]}


def enc(v):
    """Python value -> value record of the spec ({'k': 'out'} if not representable)."""
    if v is DFLT:
        return {'k': 'dflt'}
    if isinstance(v, bool):
        return B(v)
    if isinstance(v, int):
        return I(v) if abs(v) <= 1000000 else OUT
    if v is None:
        return NONE
    if isinstance(v, str):
        return S(v) if len(v) <= 4096 and all(c in CH for c in v) else OUT
    if isinstance(v, tuple):
        if len(v) > 256:
            return OUT
        el = [enc(x) for x in v]
        return OUT if any(x['k'] in ('out', 'dflt') for x in el) else {'k': 'tup', 'v': el}
    return OUT


def dec(r):
    k = r['k']
    if k in ('int', 'bool'):
        return r['v']
    if k == 'none':
        return None
    if k == 'str':
        return ''.join(RCH[c] for c in r['v'])
    if k == 'tup':
        return tuple(dec(x) for x in r['v'])
    raise ValueError(r)


def lit(v):
    return {'t': 'lit', 'v': v}


def flit(f):
    return {'t': 'lit', 'v': {'k': 'out', 's': repr(float(f))}}


def var(n, acc='attr'):
    return {'t': 'var', 'n': n, 'acc': acc}


def un(o, a):
    return {'t': 'un', 'o': o, 'a': a}


def bin_(o, a, b):
    return {'t': 'bin', 'o': o, 'a': a, 'b': b}


def cmp_(o, a, b):
    return {'t': 'cmp', 'o': o, 'a': a, 'b': b}


def bool_(o, a, b):
    return {'t': 'bool', 'o': o, 'a': a, 'b': b}


def if_(c, a, b):
    return {'t': 'if', 'c': c, 'a': a, 'b': b}


def tup(*e):
    return {'t': 'tup', 'e': list(e)}


def idx(a, i):
    return {'t': 'idx', 'a': a, 'i': i}


UNOPS = ('neg', 'not')
BINOPS = ('add', 'sub', 'mul', 'fdiv', 'div', 'mod', 'pow', 'xor')
CMPOPS = ('eq', 'ne', 'lt', 'le', 'gt', 'ge')
BOOLOPS = ('and', 'or')
PYOP = {'add': '+', 'sub': '-', 'mul': '*', 'fdiv': '//', 'div': '/', 'mod': '%', 'pow': '**', 'xor': '^',
        'eq': '==', 'ne': '!=', 'lt': '<', 'le': '<=', 'gt': '>', 'ge': '>=', 'neg': '-', 'not': 'not ',
        'and': 'and', 'or': 'or'}
VARSRC = {('ma', 'attr'): 'machine.a', ('ma', 'idx'): 'machine["a"]',
          ('mb', 'attr'): 'machine.b', ('mb', 'idx'): 'machine["b"]',
          ('px', 'attr'): 'current_player.x', ('px', 'idx'): 'current_player["x"]',
          ('p2x', 'attr'): 'players[1].x', ('p2x', 'idx'): 'players[1]["x"]',
          ('st', 'attr'): 'settings.st', ('sq', 'attr'): 'settings.sq', ('sc', 'attr'): 'settings.sc',
          ('mq', 'attr'): 'machine.qv', ('mq', 'idx'): 'machine["qv"]',
          ('sw', 'attr'): 'device.switches.s1.state', ('sw', 'idx'): 'device["switches"]["s1"]["state"]',
          ('cv', 'attr'): 'device.counters.c1.value', ('cv', 'idx'): 'device["counters"]["c1"]["value"]',
          ('kp', 'attr'): 'kp', ('kq', 'attr'): 'kq'}
ENUM_LITS = [I(0), I(1), I(2), B(True), B(False), NONE, S(''), S('a')]
ENUM_VARS = ['ma', 'px', 'st', 'sw']
LEAVES = [lit(v) for v in ENUM_LITS] + [var(n) for n in ENUM_VARS] + [tup()]


def render(e, eager=False, top=True):
    """Source text of an AST, fully parenthesised.  eager: and/or as function calls evaluating all operands."""
    t = e['t']
    if t == 'lit':
        v = e['v']
        if v['k'] == 'out':
            return v['s']
        if v['k'] == 'int':
            return str(v['v']) if v['v'] >= 0 else '(%d)' % v['v']
        if v['k'] == 'bool':
            return 'True' if v['v'] else 'False'
        if v['k'] == 'none':
            return 'None'
        return '"%s"' % dec(v)
    if t == 'var':
        return VARSRC[(e['n'], e['acc'])]
    r = lambda x: render(x, eager, False)     # noqa: E731
    if t == 'un':
        return '(%s%s)' % (PYOP[e['o']], r(e['a']))
    if t in ('bin', 'cmp'):
        return '(%s %s %s)' % (r(e['a']), PYOP[e['o']], r(e['b']))
    if t == 'bool':
        if eager:
            return '_%s(%s, %s)' % (e['o'].upper(), r(e['a']), r(e['b']))
        a = r(e['a'])
        if e['a']['t'] == 'bool' and e['a']['o'] == e['o']:
            a = a[1:-1]                 # a and b and c: one n-ary BoolOp node
        return '(%s %s %s)' % (a, PYOP[e['o']], r(e['b']))
    if t == 'if':
        return '(%s if %s else %s)' % (r(e['a']), r(e['c']), r(e['b']))
    if t == 'tup':
        el = [r(x) for x in e['e']]
        return '()' if not el else '(%s,)' % el[0] if len(el) == 1 else '(%s)' % ', '.join(el)
    if t == 'idx':
        return '(%s[%s])' % (r(e['a']), r(e['i']))
    raise ValueError(t)


def children(e):
    t = e['t']
    if t == 'un':
        return [e['a']]
    if t in ('bin', 'cmp', 'bool'):
        return [e['a'], e['b']]
    if t == 'if':
        return [e['c'], e['a'], e['b']]
    if t == 'tup':
        return list(e['e'])
    if t == 'idx':
        return [e['a'], e['i']]
    return []


def size(e):
    return 1 + sum(size(c) for c in children(e))


def vars_of(e):
    if e['t'] == 'var':
        return {e['n']}
    out = set()
    for c in children(e):
        out |= vars_of(c)
    return out


def node_class(e):
    t = e['t']
    if t == 'idx':      # a negative literal is a unary minus node, not a constant
        const = e['i']['t'] == 'lit' and not (e['i']['v']['k'] == 'int' and e['i']['v']['v'] < 0)
        return 'index' if const else 'computed-index'
    if t == 'var':
        return 'var-' + e['acc']
    return {'un': 'unary', 'bin': 'arith', 'cmp': 'compare', 'bool': 'boolop', 'if': 'ifexp', 'tup': 'tuple',
            'lit': 'literal'}[t]


def exprs_of_size(n, memo):
    """Mirror of ExprsOfSize in Templates.tla."""
    if n in memo:
        return memo[n]
    if n == 1:
        out = list(LEAVES)
    else:
        out = []
        sub = exprs_of_size(n - 1, memo)
        out += [un(o, a) for o in UNOPS for a in sub]
        out += [tup(a) for a in sub]
        for i in range(1, n - 1):
            A = exprs_of_size(i, memo)
            Bs = exprs_of_size(n - 1 - i, memo)
            for a in A:
                for b in Bs:
                    out += [bin_(o, a, b) for o in BINOPS]
                    out += [cmp_(o, a, b) for o in CMPOPS]
                    out += [bool_(o, a, b) for o in BOOLOPS]
                    out.append(idx(a, b))
                    out.append(tup(a, b))
        for i in range(1, n - 2):
            for j in range(1, n - 1 - i):
                k = n - 1 - i - j
                for c in exprs_of_size(i, memo):
                    for a in exprs_of_size(j, memo):
                        for b in exprs_of_size(k, memo):
                            out.append(if_(c, a, b))
    memo[n] = out
    return out


def count_of_size(n, memo=None):
    """Number of ASTs with n nodes (the recurrence behind exprs_of_size, without building them)."""
    memo = {} if memo is None else memo
    if n not in memo:
        if n == 1:
            memo[n] = len(LEAVES)
        else:
            c = lambda k: count_of_size(k, memo)     # noqa: E731
            two = len(BINOPS) + len(CMPOPS) + len(BOOLOPS) + 2
            memo[n] = ((len(UNOPS) + 1) * c(n - 1) + sum(two * c(i) * c(n - 1 - i) for i in range(1, n - 1))
                       + sum(c(i) * c(j) * c(n - 1 - i - j) for i in range(1, n - 2) for j in range(1, n - 1 - i)))
    return memo[n]


# random bigger expressions over an extended leaf set (floats, negative ints, index-style access, parameters)
X_LITS = ENUM_LITS + [I(3), I(5), I(-1), I(-2), S('b'), S('ab')]
X_VARS = [var('ma'), var('mb'), var('px'), var('p2x'), var('st'), var('sw'), var('cv'), var('kp'), var('kq'),
          var('ma', 'idx'), var('px', 'idx'), var('sw', 'idx'), var('cv', 'idx'),
          var('sq'), var('sc'), var('mq'), var('mq', 'idx')]
X_FLOATS = [0.0, 0.5, 1.5, 2.0, -1.0]


def rand_expr(rnd, n, in_exp=False, basic=False):
    """A random AST with n nodes (basic: over the leaves of the exhaustive enumeration only)."""
    if basic:
        if n <= 1:
            return rnd.choice(LEAVES)
        forms = ['un'] * 2 + ['tup1'] + (['bin'] * 8 + ['cmp'] * 6 + ['bool'] * 2 + ['idx', 'tup2'] if n >= 3 else []) + (
            ['if'] * 3 if n >= 4 else [])
        f = rnd.choice(forms)
        if f == 'un':
            return un(rnd.choice(UNOPS), rand_expr(rnd, n - 1, basic=True))
        if f == 'tup1':
            return tup(rand_expr(rnd, n - 1, basic=True))
        if f == 'if':
            i = rnd.randint(1, n - 3)
            j = rnd.randint(1, n - 2 - i)
            return if_(rand_expr(rnd, i, basic=True), rand_expr(rnd, j, basic=True), rand_expr(rnd, n - 1 - i - j, basic=True))
        i = rnd.randint(1, n - 2)
        a, b = rand_expr(rnd, i, basic=True), rand_expr(rnd, n - 1 - i, basic=True)
        if f == 'bin':
            return bin_(rnd.choice(BINOPS), a, b)
        if f == 'cmp':
            return cmp_(rnd.choice(CMPOPS), a, b)
        if f == 'bool':
            return bool_(rnd.choice(BOOLOPS), a, b)
        return idx(a, b) if f == 'idx' else tup(a, b)
    if n <= 1:
        x = rnd.random()
        if x < 0.07:
            return flit(rnd.choice(X_FLOATS))
        if x < 0.55:
            return lit(rnd.choice(X_LITS))
        return dict(rnd.choice(X_VARS))
    x = rnd.random()
    if n == 2 or x < 0.15:
        return un(rnd.choice(UNOPS), rand_expr(rnd, n - 1, in_exp))
    if n >= 4 and x < 0.27:
        i = rnd.randint(1, n - 3)
        j = rnd.randint(1, n - 2 - i)
        return if_(rand_expr(rnd, i, in_exp), rand_expr(rnd, j, in_exp), rand_expr(rnd, n - 1 - i - j, in_exp))
    i = rnd.randint(1, n - 2)
    if x < 0.30:
        return tup(rand_expr(rnd, i, in_exp), rand_expr(rnd, n - 1 - i, in_exp))
    if x < 0.34:
        return idx(rand_expr(rnd, i, in_exp), rand_expr(rnd, n - 1 - i, in_exp))
    if x < 0.62:
        o = rnd.choice(BINOPS)
        if o == 'pow':      # keep numbers small: the exponent is a leaf
            return bin_(o, rand_expr(rnd, n - 2, in_exp), rand_expr(rnd, 1, True))
        return bin_(o, rand_expr(rnd, i, in_exp), rand_expr(rnd, n - 1 - i, in_exp))
    if x < 0.82:
        return cmp_(rnd.choice(CMPOPS), rand_expr(rnd, i, in_exp), rand_expr(rnd, n - 1 - i, in_exp))
    return bool_(rnd.choice(BOOLOPS), rand_expr(rnd, i, in_exp), rand_expr(rnd, n - 1 - i, in_exp))


# ----------------------------------------------------------------------------------------------- environments
DNAMES = ('ma', 'mb', 'st', 'sq', 'sc')


def mkenv(ma, mb, px, st, sw, cv, kp, game=True, cur=1, sq=None, sc=None, declared=()):
    """st, sq, sc: the value of the machine variable behind the setting (NONE: that variable is unset).
    declared: names whose machine variable exists although it is unset (dc: does the variable exist)."""
    env = {'ma': ma, 'mb': mb, 'px': list(px), 'st': st, 'sq': sq or NONE, 'sc': sc or I(3), 'sw': sw, 'cv': cv, 'kp': kp,
           'game': game, 'cur': cur}
    env['dc'] = {n: bool(env[n] != NONE or n in declared) for n in DNAMES}
    return env


# settings: name -> (machine variable it is stored in, default); all have the value table {0, 1, 2, 3}
SETTINGS = {'st': ('st', 2), 'sq': ('qv', 1), 'sc': ('c_store', 3)}
SVALID = {0: 'zero', 1: 'one', 2: 'two', 3: 'three'}
ENVS_A = [mkenv(NONE, I(2), (I(0), I(1)), I(2), I(0), I(0), I(1)),
          mkenv(I(3), NONE, (I(2), I(0)), I(1), I(1), I(5), S('a'), sq=I(3), sc=I(5)),
          mkenv(S('a'), I(0), (I(1), I(3)), I(3), I(0), I(2), NONE, sq=S('a'), sc=I(1))]
ENV_B = mkenv(I(1), NONE, (I(0), I(0)), I(2), I(0), I(0), I(1))
# no game running at the start; b and the variable behind sq are declared but unset (subscribers attach after the
# declaration), the setting st has never been changed (its variable is missing)
ENV_B0 = mkenv(I(1), NONE, (I(0), I(0)), NONE, I(0), I(0), I(1), game=False, declared=('mb', 'sq'))
MVALS = [I(0), I(1), I(3), S('a'), S(''), B(False), NONE]
# Player.__setattr__ posts no player_<var> event for a value that is not an int / str / float, so a player variable
# written to None is a finding of its own (signature ...:set-player-write-of-none-...); VERIF_C16_PLAYER_NONE=0 leaves it out.
PLAYER_NONE = os.environ.get('VERIF_C16_PLAYER_NONE', '1') != '0'
PVALS = [I(0), I(1), I(2), S('')] + ([NONE] if PLAYER_NONE else [])
SVALS = [I(0), I(1), I(2), I(3)]
# assigned to the machine variable behind a setting: 5, 'a' and '' are not in the table, False counts as 0
SMVALS = [I(0), I(1), I(3), I(5), S('a'), S(''), B(False)]
# the exhaustive design check uses one value per class (schedules are generated over the full sets)
MVALS_Q = [I(0), I(3), S(''), B(False), NONE]
SVALS_Q = [I(0), I(2), I(3)]
SMVALS_Q = [I(0), I(5), S(''), B(False)]
WVALS = [I(0), I(1)]
CVALS = [I(0), I(2), I(3)]


class _Missing(Exception):
    pass


class _NS:
    """Attribute and index access over a dict, like the placeholder roots."""

    def __init__(self, d, default=_Missing):
        self.__dict__['_d'] = d
        self.__dict__['_default'] = default

    def __getattr__(self, k):
        d = self.__dict__['_d']
        if k in d:
            return d[k]
        if self.__dict__['_default'] is _Missing:
            raise _Missing(k)
        return self.__dict__['_default']

    __getitem__ = __getattr__


class _NoGame:
    def __getattr__(self, k):
        raise _Missing(k)

    __getitem__ = __getattr__


def py_namespace(env):
    """The environment as plain Python objects for eval()."""
    px = [dec(x) for x in env['px']]
    if env['game']:
        players = [_NS({'x': px[0]}, 0), _NS({'x': px[1]}, 0)]
        cur = players[env['cur'] - 1]
    else:
        players = [_NoGame(), _NoGame()]
        cur = _NoGame()
    dev = {'switches': _NS({'s1': _NS({'state': dec(env['sw'])})}), 'counters': _NS({'c1': _NS({'value': dec(env['cv'])})})}
    sett = {}
    for s, (_, default) in SETTINGS.items():     # the stored value if it is one of the setting's values, else the default
        raw = dec(env[s])
        sett[s] = raw if (raw is not None and raw in SVALID) else default
    return {'machine': _NS({'a': dec(env['ma']), 'b': dec(env['mb']), 'qv': dec(env['sq'])}, None), 'current_player': cur,
            'players': players, 'settings': _NS(sett), 'device': _NS(dev), 'kp': dec(env['kp']),
            '_AND': lambda a, b: a and b, '_OR': lambda a, b: a or b}


def py_eval(src, ns):
    try:
        return 'value', eval(compile(src, '<c16>', 'eval'), {'__builtins__': {}}, ns)   # pylint: disable=eval-used
    except TypeError:
        return 'type', None
    except ZeroDivisionError:
        return 'zerodiv', None
    except NameError:
        return 'noname', None
    except _Missing:
        return 'missing', None
    except Exception:  # pylint: disable=broad-except
        return 'other', None


def deep_eq(a, b):
    """Equal on real values including the type."""
    if type(a) is not type(b):      # pylint: disable=unidiomatic-typecheck
        return False
    if isinstance(a, tuple):
        return len(a) == len(b) and all(deep_eq(x, y) for x, y in zip(a, b))
    if isinstance(a, float) and a != a:
        return b != b
    return a == b


# ----------------------------------------------------------------------------------------------- the machine
def slug(s):
    return ''.join(c if c.isalnum() else '-' for c in s).strip('-')


def C(i, name, expr, ep=True, hnd=True, cls='attr', ge=True):
    return {'id': i, 'name': name, 'expr': expr, 'vars': sorted(vars_of(expr)), 'ep': ep, 'hnd': hnd, 'src': render(expr),
            'cls': cls, 'ge': ge}


MA, MB, PX, P2X, ST, SW, CV = var('ma'), var('mb'), var('px'), var('p2x'), var('st'), var('sw'), var('cv')
SQ, SC, MQ = var('sq'), var('sc'), var('mq')
L = lambda n: lit(I(n))     # noqa: E731
TABLE = [
    C(1, 'machine-var', MA),
    C(2, 'machine-var-plus-1', bin_('add', MA, L(1))),
    C(3, 'machine-var-gt-1', cmp_('gt', MA, L(1))),
    C(4, 'unset-var-right-of-compare', cmp_('lt', L(5), MB)),
    C(5, 'unset-var-left-of-compare', cmp_('lt', MB, L(5))),
    C(6, 'two-vars-compare', cmp_('lt', MA, MB)),
    C(7, 'and-of-nonbool-vars', bool_('and', MA, MB)),
    C(8, 'or-of-nonbool-vars', bool_('or', MA, MB)),
    C(9, 'setting-eq', cmp_('eq', ST, L(2))),
    C(10, 'setting-plus-machine-var', bin_('add', ST, MA)),
    C(11, 'player-var', PX),
    C(12, 'player-var-gt-1', cmp_('gt', PX, L(1))),
    C(13, 'player-var-plus-machine-var', bin_('add', PX, MA)),
    C(14, 'numbered-player-var', bin_('add', P2X, L(1))),
    C(15, 'switch-state-eq', cmp_('eq', SW, L(1))),
    C(16, 'counter-value-ge', cmp_('ge', CV, L(2))),
    C(17, 'counter-plus-player-var', bin_('add', CV, PX)),
    C(18, 'ifexp-branches', if_(SW, MA, ST)),
    C(19, 'ifexp-failing-branch', if_(MA, bin_('add', MB, L(1)), L(5)), cls='ifexp-failing-branch'),
    C(20, 'machine-var-by-index', var('ma', 'idx'), cls='index'),
    C(21, 'device-attr-by-index', cmp_('eq', var('sw', 'idx'), L(1)), cls='index'),
    C(22, 'player-var-by-index', cmp_('gt', var('px', 'idx'), L(0)), ep=False, cls='index', ge=False),
    C(23, 'not-unset-var', un('not', MB)),
    C(24, 'and-of-compares', bool_('and', cmp_('gt', MA, L(1)), cmp_('gt', PX, L(1)))),
    C(25, 'or-of-compares', bool_('or', cmp_('eq', MA, L(1)), cmp_('eq', ST, L(3)))),
    C(26, 'arith-two-vars', bin_('sub', bin_('mul', MA, L(2)), MB)),
    C(27, 'neg-player-var', cmp_('lt', un('neg', PX), L(0))),
    C(28, 'two-vars-ne', cmp_('ne', MA, MB)),
    C(29, 'ifexp-compare-test', if_(cmp_('gt', MA, MB), L(1), L(2))),
    C(30, 'ifexp-three-families', if_(PX, ST, CV)),
    C(31, 'const-left-of-compare', cmp_('ge', L(2), CV)),
    C(32, 'and-three-operands', bool_('and', bool_('and', MA, SW), ST)),
    # settings stored in a machine variable with another name (sc is added by code after the boot: no event_player entry)
    C(33, 'setting-own-mvar', SQ),
    C(34, 'setting-own-mvar-eq', cmp_('eq', SQ, L(3))),
    C(35, 'setting-own-mvar-plus-machine-var', bin_('add', SQ, MA)),
    C(36, 'setting-added-in-code-ge', cmp_('ge', SC, L(2)), ep=False),
    C(37, 'setting-and-its-machine-var', bin_('add', SQ, MQ)),
    C(38, 'two-settings-compare', cmp_('lt', ST, SQ)),
    C(39, 'ifexp-over-settings', if_(cmp_('eq', SQ, L(1)), SC, ST), ep=False),
    C(40, 'machine-var-behind-setting', cmp_('gt', MQ, L(1))),
]
TAB = {c['id']: c for c in TABLE}


def write_machine(scratch):
    d = os.path.join(scratch, 'machines', 'templates')
    os.makedirs(d + '/config', exist_ok=True)
    Ls = ['#config_version=6', 'game:', '  balls_per_game: 60', 'machine_vars:', '  a:', '    initial_value: 1',
          '    value_type: int', 'settings:', '  st:', '    label: St', '    values:', '      0: "zero"', '      1: "one"',
          '      2: "two"', '      3: "three"', '    default: 2', '    key_type: int', '    sort: 1',
          '  sq:', '    label: Sq', '    values:', '      0: "zero"', '      1: "one"', '      2: "two"', '      3: "three"',
          '    default: %d' % SETTINGS['sq'][1], '    key_type: int', '    sort: 2', '    machine_var: %s' % SETTINGS['sq'][0],
          'switches:', '  s_start:',
          '    number: 1', '    tags: start', '  s1:', '    number: 2', 'counters:', '  c1:', '    count_events: c1_hit',
          '    starting_count: 0', '    persist_state: false', '    control_events:']
    for v in sorted({dec(x) for x in CVALS} | {0, 1, 5}):
        Ls += ['      - action: jump', '        event: c1_jump%d' % v, '        value: %d' % v]
    Ls.append('event_player:')
    for c in TABLE:
        if c['ep']:
            Ls.append("  '{%s}': ep_%d" % (c['src'], c['id']))
    with open(d + '/config/config.yaml', 'w') as f:
        f.write('\n'.join(Ls) + '\n')
    return d


_H = {}


def _boot(mdir):
    h = harness._HG('runTest')      # pylint: disable=protected-access
    h._machine_dir = mdir
    h._config_file = 'config.yaml'
    h._platform = 'virtual'
    h._mock_data_v = None
    h._options_v = None
    h.expected_duration = 1e9
    h.setUp()
    return h


def _machine(mdir):
    if _H.get('dirty') and 'h' in _H:
        harness.shutdown(_H.pop('h'))
        _H['dirty'] = False
    if 'h' not in _H:
        warnings.simplefilter('ignore', SyntaxWarning)
        h = _boot(mdir)
        _H['h'] = h
        _H['ep'] = {}
        _H['hnd'] = {}
        from mpf.core.settings_controller import SettingEntry
        h.machine.settings.add_setting(SettingEntry('sc', 'Sc', 3, SETTINGS['sc'][0], SETTINGS['sc'][1], dict(SVALID),
                                                    'standard'))
        for c in TABLE:
            if c['ep']:
                h.machine.events.add_handler('ep_%d' % c['id'], _counter('ep', c['id']))
            if c['hnd']:
                h.machine.events.add_handler('ch_%d{%s}' % (c['id'], c['src']), _counter('hnd', c['id']))
        h.start_game()
        h.add_player()
        _run(h)
    return _H['h']


def _counter(kind, cid):
    def hnd(**kwargs):
        del kwargs
        _H[kind][cid] = _H[kind].get(cid, 0) + 1
    return hnd


def _run(h, n=6):
    for _ in range(n):
        h.advance_time_and_run(0)


def install_env(h, env, restart=False):
    """Bring the real machine into the state described by env (setup, not part of a schedule)."""
    m = h.machine
    if restart and m.game:
        h.stop_game()
    dc = env.get('dc', {})
    for name, key in (('a', 'ma'), ('b', 'mb')):
        v = dec(env[key])
        if v is None:
            if name in m.variables.machine_vars:          # unset: tell subscribers first, then drop the variable
                if m.variables.machine_vars[name]['value'] is not None:
                    m.variables.set_machine_var(name, None)
                    _run(h, 3)
                m.variables.machine_vars.pop(name, None)
            if dc.get(key):                               # declared, still unset
                m.variables.configure_machine_var(name, persist=False)
        else:
            m.variables.set_machine_var(name, v)
    for s, (mvar, _) in SETTINGS.items():
        v = dec(env[s])
        if v is None:
            if mvar in m.variables.machine_vars:
                if m.variables.machine_vars[mvar]['value'] is not None:
                    m.variables.set_machine_var(mvar, None)
                    _run(h, 3)
                m.variables.machine_vars.pop(mvar, None)
            if dc.get(s):
                m.variables.configure_machine_var(mvar, persist=False)
        elif v in SVALID:
            m.settings.set_setting_value(s, v)
        else:
            m.variables.set_machine_var(mvar, v)
    if bool(m.switch_controller.is_active(m.switches['s1'])) != bool(dec(env['sw'])):
        if dec(env['sw']):
            h.hit_switch_and_run('s1', 0)
        else:
            h.release_switch_and_run('s1', 0)
    m.counters['c1'].value = dec(env['cv'])
    if env['game']:
        if not m.game:
            h.start_game()
            h.add_player()
        if m.game.player.number != env['cur']:
            h.drain_all_balls()
        if m.game.player.number != env['cur'] or len(m.game.player_list) != 2:
            raise RuntimeError('cannot reach player %s' % env['cur'])
        for i in (0, 1):
            m.game.player_list[i].x = dec(env['px'][i])
    elif m.game:
        h.stop_game()
    _run(h)


# ----------------------------------------------------------------------------------------------- part A
def tpl_outcome(fn, pyk, pyv):
    try:
        r = fn()
    except Exception as ex:  # pylint: disable=broad-except
        c = ex.__cause__
        return {'kind': 'exc', 'val': OUT, 'eq': False, '_exc': '%s/%s' % (type(ex).__name__, type(c).__name__ if c else '-')}
    if r is DFLT:
        return {'kind': 'default', 'val': OUT, 'eq': False}
    return {'kind': 'value', 'val': enc(r), 'eq': pyk == 'value' and deep_eq(r, pyv), '_repr': repr(r)[:80]}


def monitor_ok(py, t, exc_on_noname):
    """Mirror of MonitorOK in TemplatesTrace.tla (used only to label failures; TLC decides)."""
    k = py['kind']
    if k == 'value':
        return t['kind'] == 'default' if py['val']['k'] == 'none' else (t['kind'] == 'value' and t['eq'])
    if k == 'type':
        return t['kind'] == 'default'
    if k == 'missing':
        return t['kind'] == 'default'
    if k == 'noname':
        return t['kind'] == 'default' or (exc_on_noname and t['kind'] == 'exc')
    if k == 'zerodiv':
        return t['kind'] == 'exc'
    return True


def ornone_ok(py, t):
    """Mirror of the evaluate_or_none clause of CaseOK (labels only)."""
    if py['kind'] == 'value' and py['val']['k'] != 'none':
        return t['kind'] == 'value' and t['eq']
    if py['kind'] in ('type', 'missing', 'noname', 'zerodiv', 'value'):
        return t['kind'] != 'value'
    return True


def symptom(py, t):
    k, tk = py['kind'], t['kind']
    if k == 'value':
        if py['val']['k'] == 'none':
            return 'none-not-defaulted' if tk == 'value' else 'none-raises'
        return {'value': 'wrong-value', 'default': 'value-defaulted', 'exc': 'value-raises'}[tk]
    if k == 'type':
        return 'typeerror-not-defaulted' if tk == 'exc' else 'typeerror-gives-value'
    if k in ('missing', 'noname'):
        return 'missing-raises' if tk == 'exc' else 'missing-gives-value'
    if k == 'zerodiv':
        return 'zerodiv-defaulted' if tk == 'default' else 'zerodiv-gives-value'
    return 'other'


def eval_case(h, expr, env, ns):
    pm = h.machine.placeholder_manager
    full = render(expr)
    pyk, pyv = py_eval(render(expr, eager=True), ns)
    lazyk, _ = py_eval(full, ns)
    try:
        minimal = ast.unparse(ast.parse(full, mode='eval'))
    except Exception:  # pylint: disable=broad-except
        minimal = full
    params = {'kp': dec(env['kp'])}
    py = {'kind': pyk, 'val': enc(pyv) if pyk == 'value' else OUT}
    te = tpl_outcome(lambda: pm.build_raw_template(minimal, DFLT).evaluate(params), pyk, pyv)

    def subscribe():
        r, fut = pm.build_raw_template(full, DFLT).evaluate_and_subscribe(params)
        fut.cancel()
        return r
    ts = tpl_outcome(subscribe, pyk, pyv)

    def or_none():
        r = pm.build_raw_template(minimal, DFLT).evaluate_or_none(params)
        return DFLT if r is None else r
    tn = tpl_outcome(or_none, pyk, pyv)
    return {'op': 'case', 'py': py, 'te': te, 'ts': ts, 'tn': tn, '_src': minimal, '_lazy': lazyk, '_py': repr(pyv)[:80]}


def minimal_failure(h, expr, env, ns):
    """Descend into the first failing child until no child fails: (class, symptom, source)."""
    while True:
        for c in children(expr):
            e = eval_case(h, c, env, ns)
            if not (monitor_ok(e['py'], e['te'], False) and monitor_ok(e['py'], e['ts'], True) and ornone_ok(e['py'], e.get('tn', e['te']))):
                expr = c
                break
        else:
            e = eval_case(h, expr, env, ns)
            if not monitor_ok(e['py'], e['te'], False):
                sym = symptom(e['py'], e['te'])
            elif not monitor_ok(e['py'], e['ts'], True):
                sym = symptom(e['py'], e['ts']) + '-on-subscribe'
            elif not ornone_ok(e['py'], e['tn']):
                sym = symptom(e['py'], e['tn']) + '-on-evaluate_or_none'
            else:
                sym = 'only-in-context'
            if node_class(expr) == 'computed-index' and 'exc' in (e['te']['kind'], e['ts']['kind']):
                sym = 'unsupported'       # one root cause: a non-constant subscript is rejected (TypeError(ast node))
            return {'cls': node_class(expr), 'sym': sym, 'src': e['_src'], 'py': e['py']['kind'] + ' ' + e['_py'],
                    'te': e['te'].get('_repr', e['te'].get('_exc', e['te']['kind'])),
                    'ts': e['ts'].get('_repr', e['ts'].get('_exc', e['ts']['kind']))}


def exec_cases(job):
    """job = (mdir, env index or env, [exprs]) -> list of one-line traces."""
    mdir, env, exprs = job
    try:
        h = _machine(mdir)
        if _H.get('env') != env:
            install_env(h, env)
            _H['env'] = env
        ns = py_namespace(env)
        out = []
        for k, expr in enumerate(exprs):
            e = eval_case(h, expr, env, ns)
            tr = {'cfg': {'id': 0, 'expr': expr, 'vars': [], 'ep': False}, 'env0': env, 'ev': [e]}
            if not (monitor_ok(e['py'], e['te'], False) and monitor_ok(e['py'], e['ts'], True) and ornone_ok(e['py'], e.get('tn', e['te']))):
                tr['_min'] = minimal_failure(h, expr, env, ns)
            out.append(tr)
            if k % 64 == 63:
                _run(h, 2)
        _run(h, 2)
        return out
    except Exception as ex:  # pylint: disable=broad-except
        import traceback
        _H['dirty'] = True
        _H.pop('env', None)
        return [{'cfg': {'id': 0, 'expr': lit(I(0)), 'vars': [], 'ep': False}, 'env0': env,
                 'ev': [{'op': 'crash', 'what': repr(ex)[:300]}], '_tb': traceback.format_exc()[-1500:]}]


# ----------------------------------------------------------------------------------------------- part B
class Auto:
    """A consumer in the pattern of ConfigPlayer._update_subscription."""

    def __init__(self, machine, template):
        self.machine = machine
        self.template = template
        self.last = None
        self.future = None
        self.stopped = False
        self.evals = 0
        self._update(None)

    def _update(self, future):
        if future:
            try:
                future.result()
            except asyncio.CancelledError:
                return
        if self.machine.stop_future.done() or self.stopped:
            return
        self.evals += 1
        try:
            value, subscription = self.template.evaluate_and_subscribe([])
        except Exception as ex:  # pylint: disable=broad-except
            self.last = ex
            return
        self.future = subscription
        subscription.add_done_callback(self._update)
        self.last = value

    def stop(self):
        self.stopped = True
        if self.future:
            self.future.cancel()


def encv(v):
    if isinstance(v, Exception):
        return {'k': 'exc'}
    r = enc(v)
    return {'k': 'dflt'} if r['k'] == 'none' else r


def exec_schedule(job):
    mdir, cid, sched = job[:3]
    env0 = job[3] if len(job) > 3 else ENV_B
    try:
        return _exec_b(mdir, cid, sched, env0)
    except Exception as ex:  # pylint: disable=broad-except
        import traceback
        _H['dirty'] = True
        c = TAB[cid]
        return {'cfg': {'id': cid, 'expr': c['expr'], 'vars': c['vars'], 'ep': c['ep']}, 'env0': env0,
                'ev': [{'op': 'crash', 'what': repr(ex)[:300]}], '_tb': traceback.format_exc()[-1500:]}


def _exec_b(mdir, cid, sched, env0):
    h = _machine(mdir)
    m = h.machine
    c = TAB[cid]
    _H.pop('env', None)
    install_env(h, env0, restart=True)
    pm = m.placeholder_manager
    tp = pm.build_raw_template(c['src'], DFLT)
    chk = pm.build_raw_template(c['src'], DFLT)
    st = {}
    st['val'], st['fut'] = tp.evaluate_and_subscribe([])
    auto = Auto(m, pm.build_raw_template(c['src'], DFLT))
    _run(h)
    ev = []

    def counts():
        return _H['ep'].get(cid, 0), _H['hnd'].get(cid, 0)

    def fresh():
        try:
            return encv(chk.evaluate({}))
        except Exception as ex:  # pylint: disable=broad-except
            return encv(ex)

    def state_of(n):
        """missing / declared-unset / set: the state of the machine variable (behind) n before a step."""
        name = {'ma': 'a', 'mb': 'b'}.get(n) or SETTINGS.get(n, (None,))[0]
        if name is None:
            return '-'
        mv = m.variables.machine_vars.get(name)
        return 'missing' if mv is None else 'declared-unset' if mv['value'] is None else 'set'

    def obs(rec, ep0):
        rec.update({'done': bool(st['fut'].done()), 'alast': encv(auto.last), 'fired': counts()[0] > ep0,
                    '_fresh': fresh(), '_last': encv(st['val']), '_reevaluated': auto.evals > st.get('evals', 0)})
        st['evals'] = auto.evals
        ev.append(rec)

    ev.append({'op': 'obs', 'val': encv(st['val']), 'alast': encv(auto.last), 'done': bool(st['fut'].done())})
    st['evals'] = auto.evals
    # The event_player entry lives across schedules.  If it holds a stale value at the start (a consequence of a
    # missed notification in an earlier schedule or during setup), its posts are not judged in this schedule.
    ep = c['ep']
    if ep:
        try:
            held = m.event_player.instances['_global']['event_player'].get(c['src'], None)
            now = pm.build_raw_template(c['src']).evaluate({})
            ep = (held == now) and (type(held) is type(now))      # pylint: disable=unidiomatic-typecheck
        except Exception:  # pylint: disable=broad-except
            ep = False
    try:
        for s in sched:
            op = s['op']
            if op == 'init':
                continue
            ep0, h0 = counts()
            if op == 'set':
                v = dec(s['v'])
                n = s['var']
                was = state_of(n)
                if n in ('ma', 'mb'):
                    m.variables.set_machine_var({'ma': 'a', 'mb': 'b'}[n], v)
                elif n in SETTINGS:
                    m.settings.set_setting_value(n, v)
                elif n == 'sw':
                    if v:
                        h.hit_switch_and_run('s1', 0)
                    else:
                        h.release_switch_and_run('s1', 0)
                elif n == 'cv':
                    m.events.post('c1_jump%d' % v)
                elif n == 'px':
                    m.game.player_list[s['p'] - 1].x = v
                else:
                    raise ValueError(n)
                _run(h)
                obs({'op': 'set', 'var': n, 'p': s.get('p', 0), 'v': s['v'], '_was': was}, ep0)
            elif op == 'setm':
                was = state_of(s['var'])
                m.variables.set_machine_var(SETTINGS[s['var']][0], dec(s['v']))
                _run(h)
                obs({'op': 'setm', 'var': s['var'], 'v': s['v'], '_was': was}, ep0)
            elif op == 'declare':
                n = s['var']
                m.variables.configure_machine_var({'ma': 'a', 'mb': 'b'}.get(n) or SETTINGS[n][0], persist=False)
                _run(h)
                obs({'op': 'declare', 'var': n}, ep0)
            elif op == 'remove':
                m.variables.remove_machine_var({'ma': 'a', 'mb': 'b'}[s['var']])
                _run(h)
                obs({'op': 'remove', 'var': s['var']}, ep0)
            elif op == 'turn':
                h.drain_all_balls()
                _run(h)
                obs({'op': 'turn', '_player': m.game.player.number if m.game else 0}, ep0)
            elif op == 'gend':
                h.stop_game()
                _run(h)
                obs({'op': 'gend'}, ep0)
            elif op == 'gstart':
                h.start_game()
                h.add_player()
                _run(h)
                obs({'op': 'gstart'}, ep0)
            elif op == 'reeval':
                try:
                    st['val'], st['fut'] = tp.evaluate_and_subscribe([])
                    _run(h, 2)
                    ev.append({'op': 'reeval', 'val': encv(st['val'])})
                except Exception as ex:  # pylint: disable=broad-except
                    ev.append({'op': 'reeval', 'val': encv(ex)})
                    break
            elif op == 'post':
                m.events.post('ch_%d' % cid)
                _run(h)
                ev.append({'op': 'post', 'hfired': counts()[1] > h0})
            else:
                raise ValueError(op)
    finally:
        st['fut'].cancel()
        auto.stop()
        _run(h, 2)
    return {'cfg': {'id': cid, 'expr': c['expr'], 'vars': c['vars'], 'ep': ep}, 'env0': env0, 'ev': ev, '_ep_judged': ep}


def b_symptom(fe, cls='attr'):
    """Label a rejected step of part B from the driver's own ground truth (a fresh evaluate after the step)."""
    op = fe.get('op', '?')
    if op == 'set' and cls != 'index':
        op = 'set-' + {'ma': 'mvar', 'mb': 'mvar', 'st': 'setting', 'sq': 'setting-own-mvar', 'sc': 'setting-own-mvar',
                       'sw': 'device', 'cv': 'device', 'px': 'player'}[fe['var']]
    if op == 'setm':        # the machine variable behind a setting was assigned directly
        op = 'setm-' + ('setting' if fe['var'] == 'st' else 'setting-own-mvar')
    if op.startswith('set') and cls != 'index' and fe.get('var') in DNAMES:
        # the first write to a variable that existed unset (declared, or a setting changed for the first time) and writes
        # of falsy values are classes of their own
        falsy = fe.get('v') in (I(0), B(False), S(''), NONE)
        if fe.get('_was') == 'declared-unset' or (fe.get('_was') == 'missing' and fe['var'] in SETTINGS and fe['op'] == 'set'):
            op += '-first-write-of-' + ('falsy' if falsy else 'value')
    if op == 'set-player' and fe.get('v') == NONE:
        op += '-write-of-none'                  # a class of its own (Player.__setattr__ announces int / str / float only)
    if op in ('reeval', 'obs'):
        return op + '-wrong-value'
    if op == 'post':
        return 'post-handler-' + ('ran-on-false' if fe.get('hfired') else 'skipped-on-true')
    if op == 'crash':
        return 'crash'
    if not fe.get('done'):
        return op + '-not-notified'             # the subscriber's future did not complete
    if fe.get('alast') != fe.get('_fresh'):     # the re-evaluating consumer holds an old value: was it notified at all?
        return op + ('-consumer-stale' if fe.get('_reevaluated') else '-not-notified')
    return op + '-observation-mismatch'


# ----------------------------------------------------------------------------------------------- TLC plumbing
def _sset(xs):
    return '{' + ', '.join(to_tla(x) for x in xs) + '}'


def _vals_defs():
    return ('MCMVals == %s\nMCPVals == %s\nMCSVals == %s\nMCWVals == %s\nMCCVals == %s\nMCSMVals == %s\n'
            'MCMValsQ == %s\nMCSValsQ == %s\nMCSMValsQ == %s' % (
                _sset(MVALS), _sset(PVALS), _sset(SVALS), _sset(WVALS), _sset(CVALS), _sset(SMVALS),
                _sset(MVALS_Q), _sset(SVALS_Q), _sset(SMVALS_Q)))


def mc_module_a():
    return """----------------------------- MODULE TemplatesMCA -----------------------------
EXTENDS Templates
MCEnvs == %s
MCConfigs == {}
%s
ASSUME OpsDistinct
=============================================================================
""" % (_sset(ENVS_A), _vals_defs())


def mc_module_b():
    cfgs = ',\n   '.join(to_tla({'id': c['id'], 'expr': c['expr'], 'vars': set(c['vars']), 'ep': c['ep'], 'ge': c['ge']}) for c in TABLE)
    return """----------------------------- MODULE TemplatesMCB -----------------------------
EXTENDS Templates
MCEnvs == {%s, %s}
MCConfigs == {%s}
%s
=============================================================================
""" % (to_tla(ENV_B), to_tla(ENV_B0), cfgs, _vals_defs())


CFG = """SPECIFICATION %s
CONSTANTS
  Configs <- MCConfigs
  Envs <- MCEnvs
  MVals <- MCMVals
  PVals <- MCPVals
  SVals <- MCSVals
  WVals <- MCWVals
  CVals <- MCCVals
  SMVals <- MCSMVals
  MaxOps = %d
  MaxSize = %d
  Spurious = %s
%sCHECK_DEADLOCK FALSE
"""
PROPS_B = ('INVARIANT NoStaleAtRest\nINVARIANT AutoFresh\nINVARIANT EvalTotal\nINVARIANT DeclOK\nPROPERTY Notified\n'
           'PROPERTY ReevalCurrent\n')
TRACE_CFG = """SPECIFICATION TSpec
CONSTANTS
  Configs <- TConfigs
  Envs <- TConfigs
  MVals <- TConfigs
  PVals <- TConfigs
  SVals <- TConfigs
  WVals <- TConfigs
  CVals <- TConfigs
  SMVals <- TConfigs
  MaxOps = 1000000
  MaxSize = 0
  Spurious = {TRUE, FALSE}
INVARIANT Reporter
CHECK_DEADLOCK FALSE
"""

HAND = [
    (4, [{'op': 'set', 'var': 'mb', 'v': I(3)}, {'op': 'reeval'}, {'op': 'post'}, {'op': 'set', 'var': 'mb', 'v': I(0)}]),
    (7, [{'op': 'set', 'var': 'ma', 'v': I(3)}, {'op': 'set', 'var': 'mb', 'v': I(1)}, {'op': 'reeval'}, {'op': 'post'}]),
    (8, [{'op': 'set', 'var': 'ma', 'v': I(0)}, {'op': 'reeval'}, {'op': 'set', 'var': 'mb', 'v': I(3)}, {'op': 'reeval'}]),
    (1, [{'op': 'remove', 'var': 'ma'}, {'op': 'reeval'}]),
    (6, [{'op': 'set', 'var': 'mb', 'v': I(3)}, {'op': 'remove', 'var': 'mb'}]),
    (11, [{'op': 'set', 'var': 'px', 'p': 1, 'v': I(2)}, {'op': 'reeval'}, {'op': 'turn'}, {'op': 'reeval'},
          {'op': 'set', 'var': 'px', 'p': 1, 'v': I(1)}, {'op': 'gend'}, {'op': 'reeval'}, {'op': 'gstart'}, {'op': 'reeval'}]),
    (19, [{'op': 'set', 'var': 'ma', 'v': I(0)}, {'op': 'post'}]),
    (18, [{'op': 'set', 'var': 'st', 'v': I(3)}, {'op': 'set', 'var': 'sw', 'v': I(1)}, {'op': 'reeval'},
          {'op': 'set', 'var': 'st', 'v': I(1)}, {'op': 'set', 'var': 'ma', 'v': I(3)}]),
    (32, [{'op': 'set', 'var': 'sw', 'v': I(1)}, {'op': 'reeval'}, {'op': 'post'}, {'op': 'set', 'var': 'st', 'v': I(3)}]),
    (33, [{'op': 'set', 'var': 'sq', 'v': I(3)}, {'op': 'reeval'}, {'op': 'setm', 'var': 'sq', 'v': I(5)}, {'op': 'reeval'},
          {'op': 'setm', 'var': 'sq', 'v': S('a')}, {'op': 'set', 'var': 'sq', 'v': I(2)}, {'op': 'reeval'}]),
    (34, [{'op': 'set', 'var': 'sq', 'v': I(3)}, {'op': 'post'}, {'op': 'reeval'}, {'op': 'set', 'var': 'sq', 'v': I(1)},
          {'op': 'post'}]),
    (36, [{'op': 'set', 'var': 'sc', 'v': I(1)}, {'op': 'reeval'}, {'op': 'post'}, {'op': 'setm', 'var': 'sc', 'v': I(5)},
          {'op': 'reeval'}, {'op': 'post'}]),
    (38, [{'op': 'set', 'var': 'sq', 'v': I(3)}, {'op': 'post'}, {'op': 'set', 'var': 'st', 'v': I(3)}, {'op': 'reeval'}]),
    (40, [{'op': 'set', 'var': 'sq', 'v': I(3)}, {'op': 'reeval'}, {'op': 'setm', 'var': 'sq', 'v': I(1)}]),
    (9, [{'op': 'setm', 'var': 'st', 'v': I(5)}, {'op': 'reeval'}, {'op': 'post'}, {'op': 'set', 'var': 'st', 'v': I(3)}]),
]


def _set(var, v, **kw):
    return dict({'op': 'set', 'var': var, 'v': v}, **kw)


def _setm(var, v):
    return {'op': 'setm', 'var': var, 'v': v}


RE, PO = {'op': 'reeval'}, {'op': 'post'}
ENV_SC = dict(ENV_B, sc=NONE, dc=dict(ENV_B['dc'], sc=False))     # the setting added by code has never been changed


def first_write_family():
    """Hand-written schedules for variables that exist before they get their first value and for writes of falsy values:
    every source (machine variable, setting under its own / another variable, setting added by code, the variable behind a
    setting read as machine.<name>, player variable), subscribers attached before (declare in the schedule) and after the
    declaration (env0).  `reeval` only follows steps that change what the template read (the spec's Reeval needs a
    completed future)."""
    out = []
    falsy = (I(0), B(False), S(''))
    for cid in (4, 5, 8, 23):                                  # machine variable b (missing in ENV_B, declared in ENV_B0)
        for v in falsy + (I(3),):
            seq = [_set('mb', v), RE, PO, _set('mb', I(3) if v != I(3) else I(1)), RE, _set('mb', v), RE, PO]
            out.append((cid, [{'op': 'declare', 'var': 'mb'}] + seq, ENV_B))
            out.append((cid, seq, ENV_B0))
        out.append((cid, [{'op': 'declare', 'var': 'mb'}, _set('mb', NONE), _set('mb', I(0)), RE, _set('mb', B(False)), PO,
                          _set('mb', S('')), RE, _set('mb', I(0)), RE, _set('mb', NONE), RE, _set('mb', B(False)), RE, PO,
                          _set('mb', NONE), RE, _set('mb', S('')), RE, PO], ENV_B))
        # removed (while unset: nothing changes) and set again
        out.append((cid, [{'op': 'remove', 'var': 'mb'}, _set('mb', I(0)), RE, PO], ENV_B0))
        out.append((cid, [{'op': 'declare', 'var': 'mb'}, {'op': 'remove', 'var': 'mb'}, {'op': 'declare', 'var': 'mb'},
                          _set('mb', B(False)), RE, PO], ENV_B))
    for cid in (33, 34, 37, 40):                               # setting sq stored in the machine variable qv
        out.append((cid, [_set('sq', I(0)), RE, PO, _set('sq', I(2)), RE, _set('sq', I(0)), RE, PO, _setm('sq', B(False)), PO,
                          _setm('sq', S('')), RE, _set('sq', I(0)), RE, PO], ENV_B))
        out.append((cid, [_set('sq', I(0)), RE, PO, _setm('sq', I(5)), RE, _setm('sq', I(0)), RE, PO], ENV_B0))
        out.append((cid, [{'op': 'declare', 'var': 'sq'}, _set('sq', I(0)), RE, PO], ENV_B))
        out.append((cid, [{'op': 'declare', 'var': 'sq'}, _setm('sq', B(False)), RE, PO, _set('sq', I(3)), RE], ENV_B))
        out.append((cid, [_set('sq', I(3)), RE, PO, _set('sq', I(0)), RE, PO], ENV_B0))
    for cid in (9, 10, 25):                                    # setting st under its own name, never changed in ENV_B0
        out.append((cid, [_set('st', I(0)), RE, PO, _set('st', I(2)), RE, _set('st', I(0)), RE, PO], ENV_B0))
        out.append((cid, [{'op': 'declare', 'var': 'st'}, _setm('st', I(0)), RE, PO, _setm('st', S('')), RE,
                          _set('st', I(0)), RE, PO], ENV_B0))
        out.append((cid, [{'op': 'declare', 'var': 'st'}, _set('st', I(0)), RE, PO], ENV_B0))
        out.append((cid, [_set('st', I(0)), RE, PO, _setm('st', B(False)), PO, _set('st', I(2)), RE], ENV_B))
    out.append((36, [_set('sc', I(0)), RE, PO, _set('sc', I(3)), RE, _set('sc', I(0)), RE, PO], ENV_SC))
    out.append((36, [{'op': 'declare', 'var': 'sc'}, _set('sc', I(0)), RE, PO], ENV_SC))
    out.append((36, [_set('sc', I(0)), RE, PO, _setm('sc', B(False)), PO, _setm('sc', S('')), RE], ENV_B))
    for cid in (11, 12, 27):                                   # player variable: falsy after non-zero, '' and back
        out.append((cid, [_set('px', I(2), p=1), RE, PO, _set('px', I(0), p=1), RE, PO, _set('px', S(''), p=1), RE, PO,
                          _set('px', I(0), p=1), RE, _set('px', I(2), p=1), RE, _set('px', S(''), p=1), RE, PO], ENV_B))
    return out


def extended_cases():
    """A fixed family around every leaf of the extended set (so that each seed sees the same classes)."""
    out = []
    leaves = X_VARS + [flit(f) for f in X_FLOATS] + [lit(v) for v in X_LITS]
    for x in leaves:
        out += [x, un('neg', x), un('not', x), cmp_('lt', L(5), x), cmp_('lt', x, L(5)), cmp_('eq', x, x),
                bool_('and', L(1), x), bool_('or', x, L(2)), bool_('and', x, lit(S('a'))), bin_('add', x, L(1)),
                bin_('mul', x, L(2)), bin_('div', L(1), x), bin_('mod', L(5), x), bin_('pow', L(2), x),
                if_(x, x, L(0)), if_(L(0), L(1), x), tup(x), idx(x, L(0)), idx(lit(S('ab')), x), idx(tup(L(1), x), L(1)),
                un('neg', un('neg', x)), cmp_('ge', bin_('sub', x, L(1)), L(0))]
    return out


def diagnose_all(wd, traces, ids):
    """One VERBOSE run over all rejected traces: the furthest position TLC reached in each -> failing line."""
    import json
    import re
    out = {}
    ids = list(ids)
    for b0 in range(0, len(ids), 300):
        part = ids[b0:b0 + 300]
        path = os.path.join(wd, 'diag.ndjson')
        with open(path, 'w') as f:
            for k, i in enumerate(part):
                rec = {k2: v2 for k2, v2 in traces[i].items() if not k2.startswith('_')}
                rec['tid'] = k + 1
                f.write(json.dumps(rec, separators=(',', ':')) + '\n')
        r = tlc.check(wd, 'TemplatesTrace', 'Trace.cfg', workers=4, timeout=1200, env={'TRACE_FILE': path, 'VERBOSE': '1'})
        if not r.ok:
            raise tlc.TLCError('diagnosis run failed: %s\n%s' % (r.errors[:3], r.out[-2000:]))
        reached = {}
        for m in re.finditer(r'AT (\d+) (\d+)', r.out):
            t, ln = int(m.group(1)), int(m.group(2))
            reached[t] = max(reached.get(t, 0), ln)
        for k, i in enumerate(part):
            mx = reached.get(k + 1, 0)
            ev = traces[i].get('ev', [])
            out[i] = {'line': mx, 'failing_event': ev[mx - 1] if 0 < mx <= len(ev) else None,
                      'prev_event': ev[mx - 2] if 1 < mx <= len(ev) + 1 else None}
    return out


def part_a_cases(ctx):
    """[(env, [exprs])]: exhaustive small sizes over all environments, then samples."""
    memo = {}
    nfull = 3 if ctx.quick else 4
    jobs = []
    exh = [e for n in range(1, nfull + 1) for e in exprs_of_size(n, memo)]
    for env in ENVS_A:
        jobs.append((env, exh))
    rnd = random.Random(1000 + ctx.seed)
    if ctx.quick:
        nxt = rnd.sample(exprs_of_size(nfull + 1, memo), 6000)
    else:
        nxt = [rand_expr(rnd, nfull + 1, basic=True) for _ in range(60000)]
    for k, env in enumerate(ENVS_A):           # the next size: each expression under one of the environments
        jobs.append((env, nxt[k::len(ENVS_A)]))
    nrand = 6000 if ctx.quick else 150000
    xenvs = ENVS_A + [dict(ENVS_A[1], game=False), dict(ENVS_A[0], cur=2)]
    per = [[] for _ in xenvs]
    for k in range(nrand):
        per[k % len(xenvs)].append(rand_expr(rnd, rnd.randint(3, 7)))
    for env, ex in zip(xenvs, per):
        jobs.append((env, ex))
    for env in xenvs:
        jobs.append((env, extended_cases()))
    return jobs, len(exh), nfull


def run(ctx):
    mdir = write_machine(ctx.scratch)
    wd = tlc.prepare(ctx.scratch, 'Templates', 'templates')
    nmc = 3 if ctx.quick else 4       # (5 nodes: 4.9M states, ~5-8 min; verified once by hand)
    with open(wd + '/TemplatesMCA.tla', 'w') as f:
        f.write(mc_module_a())
    with open(wd + '/TemplatesMCB.tla', 'w') as f:
        f.write(mc_module_b())
    # ---- part A: TLC enumerates every AST up to nmc nodes under every environment; Eval / Deps total
    with open(wd + '/A.cfg', 'w') as f:
        f.write(CFG % ('SpecA', 0, nmc, '{FALSE}', 'INVARIANT EvalTotalA\n'))
    r = tlc.expect_ok(tlc.check(wd, 'TemplatesMCA', 'A.cfg', timeout=3000), 'Templates enumeration (part A)')
    ctx.add_tlc('TemplatesMCA', r, {'ast_nodes': nmc, 'envs': len(ENVS_A)})
    memo = {}
    if any(len(exprs_of_size(n, memo)) != count_of_size(n) for n in range(1, 5)):
        raise tlc.TLCError('exprs_of_size and count_of_size disagree')
    nexpr = sum(count_of_size(n) for n in range(1, nmc + 1))
    if r.distinct != nexpr * len(ENVS_A):
        raise tlc.TLCError('driver and TLC enumerate different AST sets: %d x %d envs vs %d states' % (
            nexpr, len(ENVS_A), r.distinct))
    # ---- part B: freshness state machine
    mo = 4 if ctx.quick else 6
    with open(wd + '/B.cfg', 'w') as f:
        bcfg = CFG % ('Spec', mo, 0, '{FALSE}', PROPS_B)
        for n in ('MCMVals', 'MCSVals', 'MCSMVals'):      # one value per class (schedules are generated over the full sets)
            bcfg = bcfg.replace('<- %s\n' % n, '<- %sQ\n' % n)
        f.write(bcfg)
    r = tlc.expect_ok(tlc.check(wd, 'TemplatesMCB', 'B.cfg', timeout=3000), 'Templates freshness design check (part B)')
    ctx.add_tlc('TemplatesMCB', r, {'configs': len(TABLE), 'MaxOps': mo, 'value_sets': 'one per class'})
    ctx.coverage['monitors'] += ['EvalTotal', 'OpsDistinct', 'NoStaleAtRest', 'AutoFresh', 'Notified', 'ReevalCurrent',
                                 'trace:OracleOK', 'trace:MonitorOK', 'trace:ModelOK', 'trace:Obs']
    with open(wd + '/Trace.cfg', 'w') as f:
        f.write(TRACE_CFG)
    # ---- part A on the real code
    cases, nexh, nfull = part_a_cases(ctx)
    jobs = []
    for env, exprs in cases:
        for i in range(0, len(exprs), 250):
            jobs.append((mdir, env, exprs[i:i + 250]))
    res = harness.pmap(exec_cases, jobs, chunk=1, item_timeout=300)
    traces = [t for chunk in res for t in chunk]
    ctx.log('part A: %d cases executed' % len(traces))
    v = tlc.validate_traces(wd, 'TemplatesTrace', 'Trace.cfg', traces, batch=20000, diagnose=False, timeout=3000)
    ctx.add_trace_verdict('TemplatesTrace/A', v, len(traces))
    ctx.coverage['bounds']['part_a'] = {'exhaustive_nodes': nfull, 'exhaustive_asts': nexh, 'envs': len(ENVS_A),
                                        'cases': len(traces)}
    lazy = sum(1 for t in traces if t['ev'][0].get('_lazy') != t['ev'][0].get('py', {}).get('kind'))
    ctx.notes.append('%d cases where short-circuit eval() differs in outcome kind from all-operands evaluation' % lazy)
    ok = [t for i, t in enumerate(traces) if i in v.accepted]
    if ok:
        ctx.sample({'kind': 'semantics-case', 'src': ok[len(ok) // 2]['ev'][0]['_src'], 'case': {
            k: x for k, x in ok[len(ok) // 2]['ev'][0].items() if not k.startswith('_')}})
    per_sig = {}
    for i in sorted(v.rejected):
        t = traces[i]
        e = t['ev'][0]
        if e['op'] == 'crash':
            raise tlc.TLCError('part A worker crashed: %s\n%s' % (e['what'], t.get('_tb')))
        mn = t.get('_min')
        if mn is None:
            raise tlc.TLCError('TLA+ Eval disagrees with Python although template and Python agree (spec defect): %s %s' % (
                e['_src'], {k: x for k, x in e.items() if not k.startswith('_')}))
        sig = 'C16:semantics:%s-%s' % (mn['cls'], mn['sym'])
        per_sig[sig] = per_sig.get(sig, 0) + 1
        if per_sig[sig] <= 3:
            ctx.violation(sig, 'template %r: python %s, evaluate -> %s, evaluate_and_subscribe -> %s (smallest failing '
                               'sub-expression of %r; %s)' % (mn['src'], mn['py'], mn['te'], mn['ts'], e['_src'],
                                                             'env ' + _envstr(t['env0'])),
                          {'part': 'A', 'expr': t['cfg']['expr'], 'env': t['env0']})
    unflagged = [i for i, t in enumerate(traces) if '_min' in t and i in v.accepted]
    if unflagged:
        raise tlc.TLCError('driver-side monitor flagged a case TLC accepted: %s' % traces[unflagged[0]]['ev'][0])
    ctx.coverage['semantics_rejections'] = per_sig
    # ---- part B on the real code
    with open(wd + '/Gen.cfg', 'w') as f:
        f.write(CFG % ('Spec', 14, 0, '{FALSE}', ''))
    behs, _ = tlc.simulate(wd, 'TemplatesMCB', 'Gen.cfg', num=1500 if ctx.quick else 10000, depth=12 if ctx.quick else 15,
                           seed=ctx.seed)
    jobs = [(mdir, b[0]['cfg']['id'], [_act(s['act']) for s in b], ENV_B if b[0]['env']['game'] else ENV_B0) for b in behs]
    jobs += [(mdir, cid, sched) for cid, sched in HAND]
    jobs += [(mdir, cid, sched, env0) for cid, sched, env0 in first_write_family()]
    btr = harness.pmap(exec_schedule, jobs, chunk=4, item_timeout=300)
    vb = tlc.validate_traces(wd, 'TemplatesTrace', 'Trace.cfg', btr, diagnose=False, timeout=3000)
    for i, info in diagnose_all(wd, btr, sorted(vb.rejected)).items():
        vb.rejected[i].update(info)
    ctx.add_trace_verdict('TemplatesTrace/B', vb, len(btr))
    ctx.coverage['configs_exercised'] = sorted({j[1] for j in jobs})
    okb = [t for i, t in enumerate(btr) if i in vb.accepted]
    if okb:
        ctx.sample({'kind': 'freshness-trace', 'template': TAB[okb[0]['cfg']['id']]['src'],
                    'trace': [{k: x for k, x in e.items() if not k.startswith('_')} for e in okb[0]['ev'][:8]]})
    bsig = {}
    for i, info in sorted(vb.rejected.items()):
        t = btr[i]
        fe = info.get('failing_event') or {}
        if fe.get('op') == 'crash':
            ctx.log('part B crash: %s' % t.get('_tb'))
        c = TAB[t['cfg']['id']]
        sig = 'C16:freshness:%s:%s' % (c['cls'], b_symptom(fe, c['cls']))
        bsig[sig] = bsig.get(sig, 0) + 1
        if bsig[sig] > 3:
            continue
        pub = {k: x for k, x in fe.items() if not k.startswith('_')}
        ctx.violation(sig,
                      'template %r: step %s is not explained by the Templates spec (trace line %s): subscriber future '
                      'done=%s, re-evaluating consumer %s and holds %s, a fresh evaluation now gives %s; previous step %s' % (
                          c['src'], pub, info.get('line'), fe.get('done'),
                          'was re-run' if fe.get('_reevaluated') else 'was not re-run', _vstr(fe.get('alast')),
                          _vstr(fe.get('_fresh')), {k: x for k, x in (info.get('prev_event') or {}).items()
                                                    if not k.startswith('_')}),
                      {'part': 'B', 'cid': t['cfg']['id'], 'sched': jobs[i][2], 'env0': t['env0'], 'trace': t, 'info': info})
    ctx.coverage['freshness_rejections'] = bsig
    ctx.assumptions += [
        'and/or are judged against Python with all operands evaluated (as the statement says), not short-circuit eval',
        'a result of None counts as "the default"; evaluate_and_subscribe may raise instead of defaulting for an '
        'undefined bare name (deliberate AssertionError in evaluate_and_subscribe_template)',
        'freshness: a read that cannot influence the outcome while another operand keeps aborting need not notify',
        'a setting changed when its value (the stored value if it is in the value table, else the default) changed; '
        'a notification for a change of the backing machine variable that leaves that value alone is allowed',
        'virtual time; game changes are driven by the fake-game test helpers (start_game/add_player/drain/stop)']


def _vstr(r):
    if not isinstance(r, dict):
        return '-'
    try:
        return repr(dec(r))
    except (ValueError, KeyError):
        return {'dflt': 'the default', 'exc': 'an exception'}.get(r.get('k'), str(r))


def _envstr(env):
    return ' '.join('%s=%s' % (k, [dec(x) for x in v] if k == 'px' else (v if k in ('game', 'cur') else repr(dec(v))))
                    for k, v in env.items() if k != 'dc')


def _act(a):
    return dict(a)


def replay(ctx, data):
    d = data['replay']
    mdir = write_machine(ctx.scratch)
    if d.get('part') == 'A':
        tr = exec_cases((mdir, d['env'], [d['expr']]))[0]
        print('source:', tr['ev'][0].get('_src'))
        print('replay case:', tr['ev'][0])
        print('smallest failing sub-expression:', tr.get('_min'))
    else:
        tr = exec_schedule((mdir, d['cid'], d['sched'], d.get('env0', ENV_B)))
        print('template:', TAB[d['cid']]['src'])
        for e in tr['ev']:
            print('  ', e)
