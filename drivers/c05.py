"""C05 — ball requests make progress: no lost or stuck ejects (shares specs/BallWorld and the executions of C04)."""
from drivers import c04

LEVEL = 'model_checking'


def run(ctx):
    jobs, traces, rejected = c04.run_world(ctx)
    ctx.coverage['monitors'] += ['IdleAtRest', 'RequestsServedAtRest (pf = min(want, balls))', 'EveryFireResolved']
    c04.report(ctx, 'C05', jobs, traces, rejected)
    ctx.assumptions += ['the world double is trusted; eject failures: ball falls back / does not move, a bounded number of times',
                        'requests are direct playfield.add_ball calls (no ball_save / multiball devices)']


replay = c04.replay
