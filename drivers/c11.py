"""C11 — player state is isolated per player and restored on their next turn (specs/Players)."""
import os
import random

from lib import tlc, harness
from lib.tlaval import to_tla

LEVEL = 'model_checking'
EPS = 1e-6
ALL_ACTS = ['modereq', 'addplayer', 'burst', 'score', 'var', 'pvar', 'eb', 'lb', 'shot', 'ach', 'mode', 'timer', 'endgame', 'tv', 'hold', 'late',
            'read']
INTVARS = ['score', 'bonus', 'ball', 'extra_balls', 'shot_sh1', 'shot_sh2', 'shot_sh3', 'shot_sh1_enabled',
           'shot_sh2_enabled', 'gm2_t2_tick']
TVARS = ['ini', 'sel']         # player variables holding strings / None / ints (Players!TVars)
KNOWN_VARS = set(INTVARS) | set(TVARS) | {'index', 'number', 'restart_modes_on_next_ball', 'c1_state', 'a1_state', 'q1_state', 'c2_state',
                             'achievements'}
# variables that schedules READ (Players!RVars) and the ones among them whose player_<var> event nobody listens to yet
RVARS = INTVARS + TVARS + ['c1_state', 'a1_state', 'q1_state', 'c2_state', 'achievements', 'restart_modes_on_next_ball',
                           'shot_sh3_enabled', 'foo']
XVARS = [n for n in RVARS if n not in INTVARS and n not in TVARS]
RPATHS = ['cond', 'attr', 'tmpl', 'item', 'condcur', 'sub', 'tmplcur', 'tsub']
CONFIGS = [dict(bpg=2, maxp=3), dict(bpg=3, maxp=2), dict(bpg=2, maxp=1), dict(bpg=2, maxp=4)]
MAXP = 4                       # Players!MaxP of the generated schedules and of the trace validation
BURST_WAYS = ['switch', 'call', 'event', 'direct']
# code-as-is deviations from the statement that the Trace spec can name (PlayersTrace!DevLate)
DEVIATIONS = ['LateModeStart']
DEV_WHAT = {'LateModeStart': 'a game mode that is started while the ended ball still waits for another game mode to stop (held '
                             'mode_<name>_stopping / ball_ending queue) is not stopped when the ball finally ends: it keeps running '
                             'with its devices attached to the state of the player who played that ball, so progress events during '
                             'the NEXT player\'s turn change the previous player\'s persisted state (mode.py start() only asks for '
                             'game and player; mode_controller._ball_ending stops the modes active at that moment only; '
                             '_player_turn_ended stops nothing)'}
MONITORS = ['NumbersOK', 'FrameOK', 'FreshOK', 'RestoreOK', 'VarEventOK', 'TurnOK', 'LiveOK', 'OwnOK', 'VarSetOK', 'ReadOK']


# ---- machine under test ------------------------------------------------------------------------------------------
def write_machine(root, bpg, maxp):
    d = os.path.join(root, 'machines', 'players_b_%d_%d' % (bpg, maxp))
    if os.path.exists(d + '/config/config.yaml'):
        return d
    os.makedirs(d + '/config', exist_ok=True)
    os.makedirs(d + '/modes/gm1/config', exist_ok=True)
    os.makedirs(d + '/modes/gm2/config', exist_ok=True)
    with open(d + '/config/config.yaml', 'w') as f:
        f.write("""#config_version=6
game:
  balls_per_game: %d
  max_players: %d
  add_player_event: add_my_player
switches:
  s_start:
    number:
    tags: start
  s_sh1:
    number:
  s_sh2:
    number:
  s_sh3:
    number:
modes:
  - gm1
  - gm2
player_vars:
  bonus:
    initial_value: 2
    value_type: int
  ini:
    initial_value: ""
    value_type: str
shot_profiles:
  prof3:
    loop: false
    states:
      - name: unlit
      - name: lit
      - name: done
event_player:
%s
""" % (bpg, maxp, '\n'.join(
            ['  rd_%d_%s{players[%d].%s}: rdres' % (q, v, q - 1, v) for q in range(1, MAXP + 1) for v in RVARS] +
            ['  rdc_%s{current_player.%s}: rdres' % (v, v) for v in RVARS])))
    with open(d + '/modes/gm1/config/gm1.yaml', 'w') as f:
        f.write("""#config_version=6
mode:
  start_events: ball_starting, start_gm1
  priority: 100
counters:
  c1:
    count_events: c1_hit
    starting_count: 0
    count_complete_value: 3
    persist_state: true
    reset_on_complete: false
    disable_on_complete: true
    start_enabled: true
    enable_events: c1_enable
    disable_events: c1_disable
accruals:
  a1:
    events:
      - a1_s0
      - a1_s1
    persist_state: true
    reset_on_complete: false
    disable_on_complete: false
sequences:
  q1:
    events:
      - q1_s0
      - q1_s1
    persist_state: true
    reset_on_complete: true
    disable_on_complete: true
shots:
  sh1:
    switch: s_sh1
    profile: prof3
    start_enabled: true
    enable_events: sh1_enable
    disable_events: sh1_disable
  sh2:
    switch: s_sh2
    profile: prof3
    start_enabled: false
    enable_events: sh2_enable
    disable_events: sh2_disable
shot_groups:
  sg:
    shots: sh1, sh2
    rotate_events: sg_rotate
achievements:
  ach:
    enable_events: ach_enable
    start_events: ach_start
    complete_events: ach_complete
    stop_events: ach_stop
    disable_events: ach_disable
    start_enabled: false
    restart_on_next_ball_when_started: true
    enable_on_next_ball_when_enabled: true
variable_player:
  score_100:
    score: 100
  logicblock_c1_hit:
    score: 10
  set_bonus_5:
    bonus:
      action: set
      int: 5
  add_bonus:
    bonus: 1
  award_eb:
    extra_balls: 1
  add_score_p1:
    score:
      int: 7
      player: 1
  add_score_p2:
    score:
      action: add
      int: 7
      player: 2
  set_bonus_p1:
    bonus:
      action: set
      int: 9
      player: 1
  set_bonus_p2:
    bonus:
      action: set
      int: 9
      player: 2
""")
    with open(d + '/modes/gm2/config/gm2.yaml', 'w') as f:
        f.write("""#config_version=6
mode:
  start_events: start_gm2
  stop_events: stop_gm2
  priority: 200
  restart_on_next_ball: true
counters:
  c2:
    count_events: c2_hit
    starting_count: 0
    persist_state: true
  c3:
    count_events: c3_hit
    starting_count: 0
timers:
  t2:
    start_value: current_player.gm2_t2_tick
    tick_interval: 1s
    control_events:
      - event: t2_start
        action: start
      - event: t2_stop
        action: stop
      - event: t2_pause
        action: pause
        value: 2
shots:
  sh3:
    switch: s_sh3
    profile: prof3
    persist_enable: false
    start_enabled: true
    enable_events: sh3_enable
    disable_events: sh3_disable
variable_player:
  logicblock_c2_hit:
    score: 1
""")
    return d


# ---- TLC configs ----------------------------------------------------------------------------------------------------
def mc_module(configs):
    return r"""----------------------------- MODULE PlayersMC -----------------------------
EXTENDS Players
MCConfigs == {%s}
\* schedule shaping for simulation only: most of the time players join right at the start of a first ball
\* a ball that waits for the held stop is released after a few steps; a held stop is often followed by the drain
\* (one at a time or in bursts of add requests made within one instant)
GenShape == /\ (ph = "ball" /\ P[cur].ball = 1 /\ np < cfg.maxp /\ bops = 0 /\ nops %% 4 # 3) => act'.op \in {"addplayer", "addburst"}
\* bursts that are refused (game full, after ball 1): now and then only
            /\ (act'.op = "addburst" /\ np' = np) => nops %% 9 = 4
            /\ (ph = "ending" /\ bops >= 2) => act'.op = "release"
            /\ (ph = "ball" /\ vol.stp /\ nops %% 2 = 0) => act'.op \in {"ballend", "endgame"}
            /\ (act'.op = "ballend" /\ act'.h) => nops %% 3 = 0
\* start requests while an ended ball waits: now and then, as the code answers them (granted)
            /\ (act'.op = "latereq") => (act'.run /\ act'.m = "gm1" /\ bops = 0 /\ nops %% 5 = 0)
            /\ (ph = "ending" /\ bops = 0 /\ nops %% 5 = 0 /\ "late" \in Acts /\ nops < MaxOps) => act'.op = "latereq"
\* reads: one variable and one path per position of the schedule (every player), so that reads do not crowd out the rest
            /\ (act'.op = "read") => /\ act'.var = RVarSeq[((nops + 2 * bops + cur) %% Len(RVarSeq)) + 1]
                                     /\ act'.path = RPathSeq[((nops + (nops \div 8) + 3 * bops) %% Len(RPathSeq)) + 1]
=============================================================================
""" % ', '.join(to_tla(c) for c in configs)


# exhaustive runs: a read is the same step of the model whatever is read and however: representatives (a persisted enable
# flag, a logic block state, a name nobody writes; Player API, condition, current_player template)
MC_READS = (['shot_sh1_enabled', 'c2_state', 'foo'], ['attr', 'cond', 'tmplcur'])


def cfg_text(spec, configs_def, acts, maxops, maxadv, maxgames, maxeb, props, ballops=1000000, maxreq=2, dev=(), reads=None,
             maxp=MAXP):
    rvars, rpaths = reads or (sorted(set(RVARS)), RPATHS)
    return """SPECIFICATION %s
CONSTANTS
  Configs <- %s
  Acts = {%s}
  MaxP = %d
  MaxOps = %d
  MaxAdv = %d
  MaxGames = %d
  MaxEB = %d
  MaxBallOps = %d
  MaxReq = %d
  Deviations = {%s}
  ReadVars = {%s}
  ReadPaths = {%s}
%sCHECK_DEADLOCK FALSE
""" % (spec, configs_def, ', '.join('"%s"' % a for a in acts), maxp, maxops, maxadv, maxgames, maxeb, ballops, maxreq,
       ', '.join('"%s"' % d for d in dev), ', '.join('"%s"' % x for x in rvars), ', '.join('"%s"' % x for x in rpaths), props)


PROPS = ('INVARIANT TypeOK\nINVARIANT Attached\nINVARIANT NothingSurvives\nINVARIANT NumbersDistinct\nPROPERTY Frame\nPROPERTY Restore\n'
         'PROPERTY FreshGame\nPROPERTY VarEvent\nPROPERTY ReadPure\nPROPERTY NumbersKept\n')
# exhaustive runs, partitioned by action family: (label, configs, acts, MaxOps quick/thorough, MaxAdv, MaxGames, MaxEB)
MC_RUNS = [
    ('skeleton+score+counter', [dict(bpg=2, maxp=3)], ['modereq', 'addplayer', 'score', 'lb', 'eb', 'endgame'], (4, 6), 0, 1, 1),
    ('two-games', [dict(bpg=2, maxp=2)], ['modereq', 'addplayer', 'score', 'mode', 'endgame'], (4, 7), 0, 2, 0),
    ('shots+achievement+vars', [dict(bpg=2, maxp=2), dict(bpg=3, maxp=1)], ['addplayer', 'shot', 'ach', 'var'], (4, 6), 0, 1, 0),
    ('gm2+timer', [dict(bpg=2, maxp=2)], ['addplayer', 'mode', 'timer', 'eb'], (5, 7), (3, 4), 1, 1),
    ('held-stop', [dict(bpg=2, maxp=2)], ['addplayer', 'mode', 'hold', 'late', 'lb', 'eb', 'endgame'], (4, 6), 0, 1, 1),
    ('typed-vars', [dict(bpg=2, maxp=2)], ['addplayer', 'tv', 'endgame'], (3, 4), 0, 1, 0),
    ('targeted-vars', [dict(bpg=2, maxp=3), dict(bpg=2, maxp=1)], ['addplayer', 'pvar', 'var', 'score'], (4, 5), 0, 1, 0),
    ('reads', [dict(bpg=2, maxp=2)], ['addplayer', 'read', 'shot', 'mode'], (3, 4), 0, 1, 0),
    # add requests in bursts (two or three within one instant) next to single adds, up to four players, two games
    ('bursts', [dict(bpg=2, maxp=4), dict(bpg=2, maxp=3)], ['addplayer', 'burst', 'score', 'pvar', 'endgame'], (4, 5), 0, 2, 0),
]

# schedule generation profiles: (action families, ops per ball, share of the schedules)
GEN_PROFILES = [
    ([a for a in ALL_ACTS if a not in ('tv', 'late', 'read')], 6, 0.27),
    (['modereq', 'addplayer', 'burst', 'lb', 'mode', 'score', 'eb', 'hold', 'late'], 5, 0.23),
    (['modereq', 'addplayer', 'burst', 'shot', 'ach', 'var', 'pvar', 'endgame', 'eb'], 5, 0.18),
    (['modereq', 'addplayer', 'burst', 'mode', 'timer', 'hold'], 6, 0.22),
    (['addplayer', 'burst', 'tv', 'var', 'pvar', 'endgame', 'eb'], 5, 0.10),
    # reads of player variables (own, other players', players who have not joined) between everything the devices persist
    (['modereq', 'addplayer', 'burst', 'read', 'shot', 'lb', 'mode', 'timer', 'eb', 'tv', 'endgame'], 6, 0.15),
    # many players, joining one at a time and in bursts; every player scores, progresses in the persisted devices and is
    # written to by name during everybody's turn: whose number do the events carry, whose state comes back
    (['addplayer', 'burst', 'score', 'var', 'pvar', 'lb', 'shot', 'mode', 'eb'], 3, 0.12),
]

# ---- execution on real mpf -------------------------------------------------------------------------------------------
_W = {}


def _lbp(x):
    if x is None:
        return {'x': False, 'v': 0, 'en': False, 'done': False}
    if not hasattr(x, 'completed'):     # the variable exists and is not a logic block state
        return {'x': True, 'v': -99, 'en': False, 'done': False}
    v = x.value
    if isinstance(v, (list, tuple)):
        v = sum((1 << i) for i, b in enumerate(v) if b)
    return {'x': True, 'v': int(v) if v is not None else 0, 'en': bool(x.enabled), 'done': bool(x.completed)}


def enc(x):
    """A player variable value / change as written in Players!TVals."""
    if x is None:
        return 'n'
    if x is True:
        return 'T'
    if x is False:
        return 'F'
    if isinstance(x, int):
        return 'i:%d' % x
    if isinstance(x, str):
        return 's:' + x
    return '?:' + repr(x)[:40]


def dec(s):
    return None if s == 'n' else int(s[2:]) if s[0] == 'i' else s[2:]


def _flag(v, name):
    return int(bool(v[name])) if name in v else -1


def project_player(p, pos):
    v = p.vars
    ach = v.get('achievements') or {}
    xv = len(set(v) - KNOWN_VARS) + len(set(ach) - {'ach'})
    if v.get('number') != pos + 1 or v.get('index') != pos:
        xv += 1
    rs = v.get('restart_modes_on_next_ball') or []
    return {'ex': True, 'score': int(v.get('score', 0)), 'bonus': int(v.get('bonus', 0)), 'ball': int(v.get('ball', 0)),
            'eb': int(v.get('extra_balls', 0)),
            'c1': _lbp(v.get('c1_state')), 'a1': _lbp(v.get('a1_state')), 'q1': _lbp(v.get('q1_state')), 'c2': _lbp(v.get('c2_state')),
            's': [int(v.get('shot_sh1', 0)), int(v.get('shot_sh2', 0)), int(v.get('shot_sh3', 0))],
            'e': [_flag(v, 'shot_sh1_enabled'), _flag(v, 'shot_sh2_enabled')],
            'ach': (ach.get('ach') or [None])[0] or 'none',
            'tick': int(v['gm2_t2_tick']) if v.get('gm2_t2_tick') is not None else -1,
            'rs': any(getattr(x, 'name', None) == 'gm2' for x in rs), 'xv': xv + sum(1 for x in rs if getattr(x, 'name', None) != 'gm2'),
            'tv': {n: enc(v[n]) if n in v else '-' for n in TVARS},
            'num': v['number'] if isinstance(v.get('number'), int) else -1}


def project_live(m):
    active = {x.name for x in m.mode_controller.active_modes}

    def dev(d):
        return _lbp(d._state)     # pylint: disable=protected-access
    t = m.timers['t2']
    return {'g1': 'gm1' in active, 'g2': 'gm2' in active,
            'c1': dev(m.counters['c1']), 'a1': dev(m.accruals['a1']), 'q1': dev(m.sequences['q1']),
            'c2': dev(m.counters['c2']), 'c3': dev(m.counters['c3']),
            's': [int(m.shots['sh%d' % i].state) for i in (1, 2, 3)],
            'e': [bool(m.shots['sh%d' % i].enabled) for i in (1, 2, 3)],
            'ach': m.achievements['ach'].state or 'none',
            'tick': int(t.ticks) if t.ticks is not None else -1, 'trun': bool(t.running), 'stp': bool(m.modes['gm2'].stopping)}


class GameRun:
    def __init__(self, mdir, sched, seed):
        self.h = harness.boot(None, machine_dir=mdir, fake_game=True)
        self.m = self.h.machine
        self.sched = sched
        self.rnd = random.Random(seed)
        self.evlog = []
        self.tevlog = []
        self.held = []
        self.stopq = []         # held mode_gm2_stopping queue events
        self.arm = False        # hold the next mode_gm2_stopping
        self.ev = []
        self.fb = False
        self.xevlog = []
        self.rdres = []
        self.rd = {}
        self.way = ''
        for n in XVARS:
            self.m.events.add_handler('player_' + n, self._mkx(n), priority=1)
        self.m.events.add_handler('rdres', self._rdres, priority=1)
        self.m.events.add_handler('c11_burst', self._burst, priority=1)
        for n in INTVARS:
            self.m.events.add_handler('player_' + n, self._mk(n), priority=1)
        for n in TVARS:
            self.m.events.add_handler('player_' + n, self._mkt(n), priority=1)
        self.m.events.add_handler('player_turn_starting', self._hold, priority=1)
        self.m.events.add_handler('mode_gm2_stopping', self._hold_stop, priority=1)
        self.m.playfield.add_ball = lambda **kwargs: None
        self.m.ball_controller.num_balls_known = 3

    def _mk(self, n):
        def hnd(**kwargs):
            def num(x):
                return int(x) if isinstance(x, (int, bool)) else -9999
            self.evlog.append([n, num(kwargs.get('value')), num(kwargs.get('prev_value')), num(kwargs.get('change')),
                               num(kwargs.get('player_num'))])
        return hnd

    def _mkt(self, n):
        def hnd(**kwargs):
            pn = kwargs.get('player_num')
            self.tevlog.append([n, enc(kwargs.get('value', '?')), enc(kwargs.get('prev_value', '?')), enc(kwargs.get('change', '?')),
                                pn if isinstance(pn, int) else -9999])
        return hnd

    def _mkx(self, n):
        def hnd(**kwargs):
            self.xevlog.append(n)
        return hnd

    def _burst(self, k, **kwargs):
        """E.g. custom code / a coin door handler that adds several players at once."""
        for _ in range(k):
            self.m.game.request_player_add()

    def _rdres(self, **kwargs):
        self.rdres.append(1)

    def read(self, a):
        """Read variable a['var'] of player a['q'] through a['path']; returns the observation of the read line."""
        m, g = self.m, self.m.game
        q, var, path = a['q'], a['var'], a['path']
        val, seen = None, True
        if path in ('attr', 'item'):
            pl = g.player_list[q - 1]
            if g.player is not None and g.player.number == q and self.rnd.random() < 0.5:
                pl = g.player
            val = getattr(pl, var) if path == 'attr' else pl[var]
        elif path in ('cond', 'condcur'):
            del self.rdres[:]
            m.events.post('rd_%d_%s' % (q, var) if path == 'cond' else 'rdc_' + var)
            self.settle()
            seen, val = False, bool(self.rdres)
        else:
            text = {'tmpl': 'players[%d].%s', 'sub': "players[%d]['%s']", 'tsub': 'players[%d].%s'}.get(path)
            text = text % (q - 1, var) if text else 'current_player.' + var
            tmpl = m.placeholder_manager.build_raw_template(text)
            if path == 'tsub':
                val, fut = tmpl.evaluate_and_subscribe({})
                fut.cancel()
            else:
                val = tmpl.evaluate({})
        if isinstance(val, bool) and seen:
            val = int(val)
        simple = val is None or isinstance(val, (int, str))
        joined = q <= len(g.player_list)
        return {'rv': '-' if not seen else enc(val) if simple else '?', 'rt': bool(val),
                'has': bool(joined and g.player_list[q - 1].is_player_var(var))}

    def _hold_stop(self, queue, **kwargs):
        """E.g. a show or slide that is played out before the mode is torn down."""
        if self.arm:
            self.arm = False
            queue.wait()
            self.stopq.append(queue)

    def _hold(self, queue, **kwargs):
        queue.wait()
        self.held.append(queue)

    def settle(self, n=12):
        for _ in range(n):
            self.h.advance_time_and_run(0)

    def snap(self, a):
        g = self.m.game
        rec = dict(a)
        if a['op'] == 'latereq':        # whether the request was granted is observed, not prescribed
            rec['run'] = bool(self.m.modes[a['m']].active)
        if a['op'] == 'pvar':           # an entry for a player who has not joined: dropped or applied to the player who is up
            rec['fb'] = self.fb
        if a['op'] == 'read':
            rec.update(self.rd)
        if a['op'] == 'addburst':
            rec['way'] = self.way
        rec['pl'] = [project_player(p, i) for i, p in enumerate(g.player_list)] if g else []
        rec['vs'] = [sorted(p.vars) for p in g.player_list] if g else []
        rec['xevs'] = self.xevlog[:]
        del self.xevlog[:]
        rec['live'] = project_live(self.m)
        rec['evs'] = self.evlog[:]
        del self.evlog[:]
        rec['tevs'] = self.tevlog[:]
        del self.tevlog[:]
        rec['cur'] = int(g.player.number) if g and g.player else 0
        tp = self.m.modes['gm1'].player
        rec['turn'] = int(tp.number) if tp else 0
        self.ev.append(rec)

    def do(self, a):
        m, h = self.m, self.h
        op = a['op']
        if op == 'newgame':
            h.hit_and_release_switch('s_start')
        elif op == 'modereq':
            if a['m'] == 'gm2' and self.rnd.random() < 0.5:
                m.events.post('start_gm2')
            else:
                m.modes[a['m']].start()
        elif op == 'latereq':
            if a['m'] == 'gm2' or self.rnd.random() < 0.5:
                m.events.post('start_' + a['m'])
            else:
                m.modes[a['m']].start()
        elif op == 'turnstart':
            self.held.pop(0).clear()
        elif op == 'addplayer':
            h.hit_and_release_switch('s_start')
        elif op == 'addburst':
            # k add requests within one instant: nothing runs between them, all are handled in the same drain of the event queue
            way = a.get('way') or self.rnd.choice(BURST_WAYS)
            self.way = way
            if way == 'switch':         # k presses of the start button
                for _ in range(a['k']):
                    m.switch_controller.process_switch('s_start', state=1, logical=True)
                    m.switch_controller.process_switch('s_start', state=0, logical=True)
            elif way == 'call':         # one event handler that calls request_player_add() k times
                m.events.post('c11_burst', k=a['k'])
            elif way == 'event':        # k add-player events (game: add_player_event)
                for _ in range(a['k']):
                    m.events.post('add_my_player')
            else:                       # k direct calls from outside the event queue
                for _ in range(a['k']):
                    m.game.request_player_add()
        elif op == 'score':
            m.events.post('score_100')
        elif op == 'var':
            m.events.post('set_bonus_5' if a['kind'] == 'set' else 'add_bonus')
        elif op == 'pvar':
            var = 'bonus' if a['kind'] == 'set' else 'score'
            before = m.game.player.vars.get(var) if a['n'] > len(m.game.player_list) else None
            up = m.game.player
            m.events.post('%s_p%d' % ('set_bonus' if a['kind'] == 'set' else 'add_score', a['n']))
            self.settle()
            self.fb = a['n'] > len(m.game.player_list) and up.vars.get(var) != before
        elif op == 'awardeb':
            m.events.post('award_eb')
        elif op == 'lb':
            if a['kind'] == 'hit':
                m.events.post('%s_hit' % a['dev'] if a['dev'][0] == 'c' else '%s_s%d' % (a['dev'], a['k']))
            else:
                m.events.post('%s_%s' % (a['dev'], a['kind']))
        elif op == 'shot':
            if a['kind'] == 'hit':
                h.hit_and_release_switch('s_sh%d' % a['i'])
            else:
                m.events.post('sh%d_%s' % (a['i'], a['kind']))
        elif op == 'rotate':
            m.events.post('sg_rotate')
        elif op == 'ach':
            m.events.post('ach_' + a['kind'])
        elif op == 'modestart':
            m.events.post('start_gm2')
        elif op == 'modestop':
            self.arm = bool(a.get('h'))
            m.events.post('stop_gm2')
        elif op == 'release':
            self.stopq.pop(0).clear()
        elif op == 'settv':
            pl = m.game.player_list[a['q'] - 1]
            if self.rnd.random() < 0.5:
                pl[a['var']] = dec(a['val'])
            else:
                setattr(pl, a['var'], dec(a['val']))
        elif op == 'timer':
            m.events.post('t2_' + a['kind'])
        elif op == 'read':
            self.rd = self.read(a)
        elif op == 'adv':
            h.advance_time_and_run(1 + EPS)
        elif op == 'ballend':
            self.arm = bool(a.get('h'))
            h.post_relay_event_with_params('ball_drain', balls=1)
        elif op == 'endgame':
            if self.rnd.random() < 0.5:
                m.events.post('end_game')
            else:
                m.game.end_game()
        else:
            raise ValueError(op)
        self.settle()
        self.arm = False

    def run(self):
        try:
            self.settle()
            for a in self.sched:
                if a['op'] == 'init':
                    continue
                self.do(a)
                self.snap(a)
        finally:
            harness.shutdown(self.h)
        return self.ev


def exec_schedule(job):
    root, cfg, sched, seed = job
    gr = None
    try:
        mdir = write_machine(root, cfg['bpg'], cfg['maxp'])
        gr = GameRun(mdir, sched, seed)
        return {'cfg': cfg, 'ev': gr.run()}
    except BaseException as ex:  # pylint: disable=broad-except
        import traceback
        # what was observed before the crash stays in the trace: the model judges it up to the line that crashed
        return {'cfg': cfg, 'ev': (gr.ev if gr else []) + [{'op': 'crash', 'what': repr(ex)[:300]}],
                '_tb': traceback.format_exc()[-2000:]}


# ---- hand-written schedules -------------------------------------------------------------------------------------------
def A(op, **kw):
    d = {'op': op}
    d.update(kw)
    return d


def handmade():
    NG, TS, BE, AP = A('newgame'), A('turnstart'), A('ballend', h=False), A('addplayer')
    hit = lambda dev, k=0: A('lb', dev=dev, kind='hit', k=k)
    req = lambda m: A('modereq', m=m)
    out = []
    # player 1 completes the counter, player 2 does not; several hand-overs; mode start requests between the turns
    out.append((0, [req('gm2'), NG, req('gm2'), req('gm1'), TS, AP, AP, hit('c1'), hit('c1'), hit('c1'), A('score'), A('modestart'), hit('c2'),
                    BE, req('gm2'), TS, hit('c1'), hit('c2'), hit('a1', 1), BE, req('gm1'), TS, hit('c1'), hit('c2'), A('shot', i=1, kind='hit'), BE,
                    req('gm2'), TS, hit('c1'), hit('c2'), hit('c2'), BE, TS, hit('c1'), hit('c2'), A('modestart'), hit('c2'), BE, req('gm2'), TS,
                    hit('c2'), hit('c1'), BE, req('gm2'), NG, req('gm2'), req('gm1'), TS, hit('c2'), hit('c1'), A('modestart'), hit('c2'), BE]))
    # a timer paused for 2 s when its player's ball ends; the next player plays on for a few seconds
    out.append((0, [NG, TS, AP, A('modestart'), A('timer', kind='start'), A('adv'), A('adv'), A('timer', kind='pause'), BE, TS,
                    A('adv'), A('adv'), A('adv'), A('adv'), BE, TS, A('adv'), A('timer', kind='start'), A('adv'), A('timer', kind='pause'),
                    A('adv'), A('modestop', h=False), A('adv'), A('adv'), A('adv'), BE, TS, A('modestart'), A('timer', kind='start'), A('adv'), BE]))
    # extra ball, early game end with an extra ball pending, shots rotate, achievement across turns
    out.append((1, [NG, TS, A('awardeb'), A('shot', i=1, kind='hit'), A('rotate'), A('ach', kind='enable'), A('ach', kind='start'),
                    A('shot', i=2, kind='enable'), AP, BE, A('shot', i=2, kind='hit'), A('var', kind='set'), BE, TS, A('var', kind='add'),
                    A('shot', i=1, kind='disable'), A('shot', i=1, kind='hit'), A('ach', kind='enable'), BE, TS, A('ach', kind='complete'),
                    A('shot', i=1, kind='hit'), A('awardeb'), A('endgame'), NG, TS, A('score'), AP, BE, TS, BE]))
    # single player
    out.append((2, [NG, TS, AP, hit('q1', 0), hit('q1', 1), hit('a1', 0), A('modestart'), hit('c3'), A('shot', i=3, kind='hit'),
                    A('shot', i=3, kind='disable'), BE, TS, hit('c3'), A('shot', i=3, kind='hit'), hit('a1', 1), A('lb', dev='c1', kind='disable', k=0),
                    hit('c1'), BE, NG, TS, hit('c1'), BE]))
    # the stop of gm2 is held by a handler of its stopping event: across the end of the ball (the ball end waits, the
    # devices stay with the player who played it), released before the drain, held at the drain itself, with an extra
    # ball, with end_game
    MS, MSH, BEH, REL = A('modestart'), A('modestop', h=True), A('ballend', h=True), A('release')
    sh3 = A('shot', i=3, kind='hit')
    out.append((0, [NG, TS, AP, MS, hit('c2'), hit('c2'), A('timer', kind='start'), A('adv'), MSH, hit('c2'), sh3, BE, hit('c2'), A('adv'),
                    hit('c1'), sh3, hit('c3'), REL, req('gm2'), TS, hit('c2'), MS, hit('c2'), BEH, hit('c2'), A('adv'), REL, TS, hit('c2'),
                    MSH, hit('c2'), REL, hit('c2'), MS, hit('c2'), MSH, MS, A('modestop', h=False), A('endgame'), hit('c2'), REL,
                    NG, TS, A('awardeb'), MS, hit('c2'), MSH, BE, hit('c2'), REL, hit('c2'), BE, TS]))
    out.append((1, [NG, TS, AP, hit('c1'), MS, hit('c2'), MSH, BE, hit('c2'), hit('c1'), REL, TS, hit('c2'), hit('c1'), MS, hit('c2'), BE, TS,
                    hit('c2'), hit('c1'), MSH, BE, REL, TS, hit('c2'), BE, TS, hit('c2'), BE]))
    # a start request for gm1 while the ended ball waits for gm2: whatever is granted must be gone before player 2 is up
    late = lambda m: A('latereq', m=m, run=True)
    out.append((0, [NG, TS, AP, hit('c1'), MS, MSH, BE, late('gm2'), late('gm1'), hit('c1'), REL, TS, hit('c1'), hit('c1'), BE, TS,
                    hit('c1'), BE]))
    # player variables holding strings / None: '' set again, '' <-> 'A', None -> 0, None -> 'A', another player's variable
    tv = lambda q, var, val: A('settv', q=q, var=var, val=val)
    out.append((1, [NG, TS, AP, tv(1, 'ini', 's:'), tv(1, 'ini', 's:A'), tv(1, 'ini', 's:A'), tv(1, 'ini', 's:'), tv(1, 'ini', 's:'),
                    tv(2, 'ini', 's:A'), tv(1, 'sel', 'n'), tv(1, 'sel', 'i:0'), tv(1, 'sel', 'n'), tv(1, 'sel', 's:A'), tv(1, 'sel', 'i:1'),
                    tv(1, 'sel', 'i:0'), tv(2, 'sel', 'i:0'), tv(2, 'sel', 'i:1'), tv(1, 'ini', 'n'), tv(1, 'ini', 'i:0'), BE, TS,
                    tv(2, 'ini', 's:'), tv(2, 'ini', 'i:0'), tv(1, 'ini', 's:'), tv(2, 'sel', 'n'), tv(2, 'sel', 'n'), tv(2, 'sel', 's:'),
                    tv(2, 'sel', 'i:0'), BE, TS, tv(1, 'ini', 'i:1'), A('endgame'), NG, TS, tv(1, 'ini', 's:'), tv(1, 'sel', 's:'), BE]))
    # variable_player entries with an explicit target player, fired during everybody's turn (and before the target joined)
    pv = lambda kind, n: A('pvar', kind=kind, n=n, fb=False)
    allpv = [pv('add', 1), pv('add', 2), pv('set', 2), pv('set', 1)]
    out.append((0, [NG, TS, pv('add', 2), pv('set', 2), pv('add', 1), AP, pv('add', 2), AP, A('score'), pv('set', 1), BE, TS] + allpv +
                   [A('var', kind='add'), BE, TS] + allpv + [A('score'), pv('add', 2), BE, TS, pv('add', 2), pv('set', 2), A('var', kind='set'),
                    pv('add', 1), BE, TS, pv('add', 1), pv('set', 1), pv('add', 2), BE, TS] + allpv + [BE]))
    out.append((2, [NG, TS, pv('add', 1), pv('add', 2), pv('set', 2), AP, pv('set', 1), BE, TS, pv('add', 2), pv('add', 1), BE]))
    # reads of variables that do not exist yet - above all the persisted state of the mode devices before the device was
    # loaded for that player for the first time (player up before his first ball, players waiting for their first turn,
    # gm2's devices before gm2 ever ran) - through every path; then everybody's first (and second) ball
    R = lambda q, var, path: A('read', q=q, var=var, path=path)
    sh = lambda i, kind='hit': A('shot', i=i, kind=kind)
    out.append((0, [NG, R(1, 'shot_sh1_enabled', 'tmplcur'), R(1, 'c1_state', 'item'), R(1, 'foo', 'condcur'), R(2, 'score', 'tmpl'), TS,
                    R(1, 'c2_state', 'attr'), R(1, 'gm2_t2_tick', 'condcur'), R(1, 'shot_sh3', 'sub'), AP, AP,
                    R(2, 'shot_sh1_enabled', 'cond'), R(3, 'shot_sh1_enabled', 'attr'), R(2, 'shot_sh2_enabled', 'tmpl'),
                    R(3, 'shot_sh2_enabled', 'item'), R(2, 'c1_state', 'sub'), R(3, 'c1_state', 'cond'), R(2, 'a1_state', 'tsub'),
                    R(3, 'q1_state', 'attr'), R(2, 'achievements', 'item'), R(3, 'extra_balls', 'tmpl'), R(2, 'shot_sh1', 'attr'),
                    R(3, 'shot_sh2', 'cond'), R(2, 'foo', 'attr'), R(3, 'sel', 'tmpl'), R(2, 'ball', 'item'), R(1, 'shot_sh1_enabled', 'tmplcur'),
                    sh(1), hit('c1'), MS, hit('c2'), R(2, 'c2_state', 'cond'), R(3, 'c2_state', 'item'), R(2, 'gm2_t2_tick', 'tsub'),
                    R(3, 'gm2_t2_tick', 'attr'), R(1, 'c2_state', 'tmplcur'), BE, R(2, 'shot_sh1_enabled', 'condcur'), R(1, 'shot_sh1', 'tmpl'),
                    R(3, 'a1_state', 'item'), TS, R(2, 'shot_sh1_enabled', 'tmplcur'), sh(1), sh(2), sh(2, 'enable'), sh(2), hit('c1'),
                    hit('a1', 0), R(1, 'shot_sh1', 'cond'), R(3, 'shot_sh2_enabled', 'cond'), R(2, 'c2_state', 'condcur'), BE, TS, sh(1), sh(2),
                    hit('c1'), hit('c1'), R(1, 'c1_state', 'attr'), R(2, 'shot_sh2_enabled', 'item'), R(3, 'c2_state', 'tmplcur'), MS,
                    hit('c2'), BE, TS, sh(1), hit('c1'), hit('c2'), BE, TS, sh(1), sh(2), MS, hit('c2'), R(3, 'gm2_t2_tick', 'cond'), BE, TS,
                    sh(1), hit('c2'), BE]))
    out.append((1, [NG, TS, R(2, 'shot_sh1_enabled', 'cond'), R(2, 'c1_state', 'tmpl'), R(3, 'foo', 'sub'), AP, R(2, 'shot_sh1_enabled', 'item'),
                    R(2, 'shot_sh2_enabled', 'attr'), R(2, 'q1_state', 'cond'), R(2, 'c2_state', 'tsub'), R(2, 'gm2_t2_tick', 'sub'),
                    R(2, 'ini', 'attr'), R(2, 'sel', 'cond'), R(2, 'bonus', 'tmpl'), R(3, 'score', 'cond'), sh(1), A('score'), BE,
                    R(2, 'achievements', 'condcur'), R(2, 'restart_modes_on_next_ball', 'tmplcur'), TS, sh(1), sh(1), R(1, 'shot_sh1', 'attr'),
                    R(1, 'score', 'cond'), R(2, 'score', 'condcur'), MS, A('timer', kind='start'), A('adv'), R(1, 'gm2_t2_tick', 'tmpl'),
                    R(2, 'gm2_t2_tick', 'tmplcur'), BE, TS, sh(1), BE, TS, sh(1), R(1, 'shot_sh1', 'tsub'), BE, TS, BE, TS, BE]))
    out.append((2, [NG, R(1, 'shot_sh1_enabled', 'attr'), R(2, 'shot_sh1_enabled', 'tmpl'), R(3, 'c1_state', 'cond'), TS, AP,
                    R(2, 'shot_sh1_enabled', 'sub'), R(1, 'c2_state', 'item'), sh(1), BE, TS, R(1, 'c2_state', 'condcur'), MS, hit('c2'), sh(1),
                    R(1, 'shot_sh3_enabled', 'attr'), BE, NG, R(1, 'shot_sh1_enabled', 'condcur'), R(1, 'c2_state', 'tmplcur'), TS, sh(1), BE]))
    # add requests in bursts: two or three within one instant (presses of the start button, calls of request_player_add() in one
    # handler, add-player events, direct calls), at the start of the game, after a single add, during player 2's first ball;
    # refused bursts (game full, after ball 1).  Every player then scores, makes progress in the persisted devices and is
    # written to by name; on their second balls everybody gets back what he had
    AB = lambda k, way: A('addburst', k=k, way=way)
    SC = A('score')
    out.append((3, [NG, TS, SC, AB(3, 'switch'), hit('c1'), pv('add', 2), BE, TS, SC, SC, hit('c1'), hit('c1'), sh(1), pv('add', 1), BE,
                    TS, SC, hit('a1', 0), MS, hit('c2'), A('var', kind='add'), pv('set', 2), BE, TS, hit('c1'), hit('c1'), hit('c1'), sh(1),
                    sh(1), pv('add', 2), A('awardeb'), BE, SC, BE, TS, hit('c1'), AB(2, 'call'), SC, BE, TS, hit('c1'), BE, TS, hit('c2'),
                    BE, TS, hit('c1'), AP, BE, NG, TS, AB(2, 'event'), BE, TS, SC, BE, TS, BE]))
    out.append((0, [NG, TS, AB(2, 'call'), AB(2, 'event'), hit('c1'), SC, MS, hit('c2'), BE, TS, hit('c1'), hit('c1'), AB(3, 'direct'), BE,
                    TS, SC, tv(3, 'sel', 's:A'), tv(1, 'sel', 'i:1'), BE, TS, hit('c2'), AB(2, 'switch'), BE, TS, hit('c1'), BE, TS, SC, BE]))
    out.append((3, [NG, TS, AP, AB(2, 'event'), AP, SC, BE, TS, hit('c1'), BE, TS, sh(1), BE, TS, SC, A('endgame'), NG, TS, AB(2, 'direct'),
                    hit('c1'), BE, TS, AP, SC, BE, TS, sh(1), BE, TS, SC, SC, BE, TS, hit('c1'), BE, TS, SC, BE, TS, sh(1), BE, TS, SC, BE]))
    out.append((3, [NG, TS, AP, SC, BE, TS, SC, AB(2, 'switch'), hit('c1'), BE, TS, SC, pv('add', 2), BE, TS, hit('c1'), hit('c1'), BE, TS,
                    SC, BE, TS, hit('c1'), BE, TS, SC, BE, TS, hit('c1'), BE]))
    out.append((1, [NG, TS, AP, AB(2, 'switch'), SC, BE, TS, AB(2, 'call'), hit('c1'), BE, TS, AB(2, 'event'), BE, TS, BE, TS, SC, BE, TS, BE]))
    out.append((2, [NG, TS, AB(2, 'switch'), AB(3, 'event'), SC, BE, TS, AB(2, 'direct'), hit('c1'), BE]))
    for way in BURST_WAYS:
        out.append((3, [NG, TS, AB(3, way), SC, BE, TS, SC, SC, BE, TS, hit('c1'), BE, TS, SC, sh(1), BE, TS, BE, TS, SC, BE, TS, hit('c1'),
                        BE, TS, BE], 'once'))       # (nothing in these two is left to the random choices of the execution)
        out.append((0, [NG, TS, SC, AB(2, way), hit('c1'), BE, TS, SC, BE, TS, hit('c1'), hit('c1'), BE, TS, SC, BE, TS, BE, TS, hit('c1'), BE],
                    'once'))
    return out


def validate(wd, traces):
    """All traces in big batches; if violations are pervasive, small batches until a dozen traces are rejected.
    Traces at which the model got stuck are diagnosed later (run), after the named deviations have been tried."""
    agg = tlc.TraceVerdict()
    n = 0

    def merge(v, b0, k):
        agg.accepted.update(b0 + i for i in v.accepted)
        agg.rejected.update({b0 + i: info for i, info in v.rejected.items()})
        agg.states += v.states
        agg.transitions += v.transitions
        agg.wall += v.wall
        agg.runs += v.runs
        return n + k
    n = merge(tlc.validate_traces(wd, 'PlayersTrace', 'Trace.cfg', traces[:24], batch=24, diagnose=False), 0, len(traces[:24]))
    if len(agg.rejected) >= 8:
        return agg, n
    try:
        return agg, merge(tlc.validate_traces(wd, 'PlayersTrace', 'Trace.cfg', traces[24:], batch=150, diagnose=False), 24, len(traces[24:]))
    except tlc.TLCError as ex:
        if 'too many monitor violations' not in str(ex):
            raise
    for b0 in range(24, len(traces), 24):
        part = traces[b0:b0 + 24]
        n = merge(tlc.validate_traces(wd, 'PlayersTrace', 'Trace.cfg', part, batch=24, diagnose=False), b0, len(part))
        if len(agg.rejected) >= 12:
            break
    return agg, n


def run(ctx):
    wd = tlc.prepare(ctx.scratch, 'Players', 'players')
    q = 0 if ctx.quick else 1
    for label, cfgs, acts, maxops, maxadv, maxgames, maxeb in MC_RUNS:
        with open(wd + '/PlayersMC.tla', 'w') as f:
            f.write(mc_module(cfgs))
        with open(wd + '/MC.cfg', 'w') as f:
            f.write(cfg_text('Spec', 'MCConfigs', acts, maxops[q], maxadv[q] if isinstance(maxadv, tuple) else maxadv,
                             maxgames, maxeb, PROPS, reads=MC_READS, maxp=max([3] + [c['maxp'] for c in cfgs])))
        r = tlc.expect_ok(tlc.check(wd, 'PlayersMC', 'MC.cfg', workers=6, timeout=1500), 'Players design check (%s)' % label)
        ctx.add_tlc('PlayersMC ' + label, r, {'configs': cfgs, 'Acts': acts, 'MaxOps': maxops[q], 'MaxAdv': maxadv, 'MaxGames': maxgames})
    ctx.coverage['monitors'] += ['Frame', 'Restore', 'FreshGame', 'NothingSurvives', 'VarEvent', 'Attached'] + MONITORS
    # schedules
    with open(wd + '/PlayersMC.tla', 'w') as f:
        f.write(mc_module(CONFIGS))
    behs = []
    for gi, (acts, ballops, share) in enumerate(GEN_PROFILES):
        with open(wd + '/Gen%d.cfg' % gi, 'w') as f:
            f.write(cfg_text('Spec', 'MCConfigs', acts, 70, 16, 2, 1, 'ACTION_CONSTRAINT GenShape\n', ballops=ballops, maxreq=1))
        b, _ = tlc.simulate(wd, 'PlayersMC', 'Gen%d.cfg' % gi, num=int((240 if ctx.quick else 3200) * share),
                            depth=64 if ctx.quick else 90, seed=ctx.seed + gi)
        behs += b
    jobs = []
    for item in handmade():
        ci, s = item[:2]
        jobs.append((ctx.scratch, CONFIGS[ci], s, 7))
        if len(item) == 2:
            jobs.append((ctx.scratch, CONFIGS[ci], s, 8))
    jobs += [(ctx.scratch, {'bpg': b[0]['cfg']['bpg'], 'maxp': b[0]['cfg']['maxp']}, [s['act'] for s in b], ctx.seed * 1000 + i)
             for i, b in enumerate(behs)]
    for c in CONFIGS:
        write_machine(ctx.scratch, c['bpg'], c['maxp'])
    traces = harness.pmap(exec_schedule, jobs, nproc=8, chunk=4, item_timeout=120)
    with open(wd + '/Trace.cfg', 'w') as f:
        f.write(cfg_text('TSpec', 'TConfigs', ALL_ACTS, 1000000, 1000000, 1000000, 1000000,
                         ''.join('INVARIANT %s\n' % x for x in MONITORS) + 'INVARIANT Reporter\n'))
    v, nval = validate(wd, traces)
    ctx.add_trace_verdict('PlayersTrace', v, nval)
    # rejected executions: explained by a named code-as-is deviation?
    explained = {}
    cand = [i for i in sorted(v.rejected) if any(e.get('op') == 'latereq' for e in traces[i]['ev'])]
    if cand:
        with open(wd + '/TraceDev.cfg', 'w') as f:
            f.write(cfg_text('TSpec', 'TConfigs', ALL_ACTS, 1000000, 1000000, 1000000, 1000000,
                             ''.join('INVARIANT %s\n' % x for x in MONITORS) + 'INVARIANT Reporter\n', dev=DEVIATIONS))
        v2 = tlc.validate_traces(wd, 'PlayersTrace', 'TraceDev.cfg', [traces[i] for i in cand], batch=24, diagnose=False)
        ctx.add_trace_verdict('PlayersTrace(Deviations={%s})' % ','.join(DEVIATIONS), v2, 0)
        explained = {cand[a]: DEVIATIONS[0] for a in v2.accepted}
    stuck = [i for i, info in sorted(v.rejected.items()) if i not in explained and info.get('line') is None][:12]
    if stuck:       # where did the model get stuck?
        v3 = tlc.validate_traces(wd, 'PlayersTrace', 'Trace.cfg', [traces[i] for i in stuck], batch=24)
        for a, info in v3.rejected.items():
            v.rejected[stuck[a]] = info
    ops = {}
    for t in traces:
        for e in t['ev']:
            ops[e['op']] = ops.get(e['op'], 0) + 1
    ctx.coverage['actions_executed'] = ops
    ctx.coverage['ball_ends_waiting_for_held_stop'] = {
        'stop requested before the drain': sum(1 for t in traces for k, e in enumerate(t['ev'])
                                               if k and e['op'] in ('ballend', 'endgame') and t['ev'][k - 1].get('live', {}).get('stp')),
        'held at the drain': sum(1 for t in traces for e in t['ev'] if e['op'] == 'ballend' and e.get('h')),
        'progress events while waiting': sum(1 for t in traces for k, e in enumerate(t['ev'])
                                             if k and e['op'] in ('lb', 'shot', 'adv') and t['ev'][k - 1].get('live', {}).get('stp')
                                             and not t['ev'][k - 1].get('live', {}).get('g1')),
        'start requests while waiting': sum(1 for t in traces for e in t['ev'] if e['op'] == 'latereq')}
    ctx.coverage['typed_variable_writes'] = {
        'total': sum(1 for t in traces for e in t['ev'] if e['op'] == 'settv'),
        'other player': sum(1 for t in traces for k, e in enumerate(t['ev']) if e['op'] == 'settv' and e['q'] != e.get('cur')),
        'events seen': sum(len(e.get('tevs', [])) for t in traces for e in t['ev'] if e['op'] == 'settv')}
    pv = [(e, t['ev'][k - 1].get('cur', 0)) for t in traces for k, e in enumerate(t['ev']) if k and e['op'] == 'pvar']
    ctx.coverage['variable_player_entries_with_target_player'] = {
        'total': len(pv), 'target is up': sum(1 for e, c in pv if e['n'] == c),
        'player after the target is up': sum(1 for e, c in pv if e['n'] == c - 1),
        'other player (not up)': sum(1 for e, c in pv if e['n'] != c and e['n'] <= len(e['pl'])),
        'target has not joined': sum(1 for e, c in pv if e['n'] > len(e['pl'])),
        'events seen': sum(len(e.get('evs', [])) for e, c in pv)}
    rd = [(e, t['ev'][k - 1]) for t in traces for k, e in enumerate(t['ev']) if k and e['op'] == 'read' and 'has' in e]
    ctx.coverage['reads_of_player_variables'] = {
        'total': len(rd), 'by path': {p: sum(1 for e, _ in rd if e['path'] == p) for p in RPATHS},
        'variable does not exist': sum(1 for e, _ in rd if not e['has']),
        'of another player': sum(1 for e, _ in rd if e['q'] != e.get('cur') and e['q'] <= len(e['pl'])),
        'of a player who has not joined': sum(1 for e, _ in rd if e['q'] > len(e['pl'])),
        'persisted device state before the first load for that player': sum(
            1 for e, _ in rd if not e['has'] and (e['var'].endswith('_state') or e['var'].endswith('_enabled') or
                                                  e['var'] == 'gm2_t2_tick') and e['var'] != 'shot_sh3_enabled'
            and e['q'] <= len(e['pl'])),
        'first loads after such a read': sum(
            1 for t in traces for q in (1, 2, 3) if (lambda ev: any(
                e['op'] == 'read' and e.get('q') == q and not e.get('has', True) and e['var'] in ('shot_sh1_enabled', 'shot_sh2_enabled', 'c1_state')
                and q <= len(e.get('pl', [])) and any(x['op'] in ('turnstart', 'ballend', 'release') and x.get('cur') == q
                                                      and x.get('live', {}).get('g1') for x in ev[k + 1:])
                for k, e in enumerate(ev)))(t['ev']))}
    ctx.coverage['games_with_players'] = {str(n): sum(1 for t in traces if max([len(e.get('pl', [])) for e in t['ev']] or [0]) == n)
                                          for n in range(1, MAXP + 1)}
    ab = [(e, t['ev'][k - 1], t['ev'][k + 1:]) for t in traces for k, e in enumerate(t['ev']) if k and e['op'] == 'addburst']
    ctx.coverage['add_requests_in_bursts'] = {
        'total': len(ab), 'by way': {w: sum(1 for e, _, _ in ab if e.get('way') == w) for w in BURST_WAYS},
        'granted (2 players joined)': sum(1 for e, p, _ in ab if len(e['pl']) - len(p['pl']) == 2),
        'granted (3 players joined)': sum(1 for e, p, _ in ab if len(e['pl']) - len(p['pl']) == 3),
        'refused (game full / after ball 1)': sum(1 for e, p, _ in ab if len(e['pl']) == len(p['pl'])),
        'not during player 1\'s turn': sum(1 for e, p, _ in ab if e.get('cur') != 1),
        'after progress in the ball': sum(1 for e, p, _ in ab if p['op'] not in ('turnstart', 'addplayer', 'addburst')),
        'balls later started for players who joined in a burst': sum(
            1 for e, p, rest in ab for x in rest
            if x['op'] in ('turnstart', 'ballend', 'release') and x.get('live', {}).get('g1') and len(p['pl']) < x.get('cur', 0) <= len(e['pl'])),
        'player_<var> events of players who joined in a burst': sum(
            1 for e, p, rest in ab for x in rest for y in x.get('evs', []) if len(p['pl']) < y[4] <= len(e['pl']) and y[3] != 0)}
    ctx.sample({'kind': 'player-trace', 'cfg': traces[0]['cfg'],
                'trace': [{k: e[k] for k in e if k not in ('live',)} for e in traces[0]['ev'][:5]]})
    for i, info in sorted(v.rejected.items()):
        ev = traces[i]['ev']
        if i in explained:
            ln = min([k + 1 for k, e in enumerate(ev) if k and e['op'] == 'release' and e['live']['g1'] and e['turn'] == 0]
                     or [0])
            ctx.violation('C11:' + explained[i], '%s [first seen at line %s of the schedule %s, cfg=%s]' % (
                DEV_WHAT[explained[i]], ln, [dict(a) for a in jobs[i][2] if a['op'] != 'init'][:ln][-12:], traces[i]['cfg']),
                {'job': [None, jobs[i][1], jobs[i][2], jobs[i][3]], 'line': ln, 'info': {k: x for k, x in info.items() if k != 'state'}})
            continue
        if info.get('reason') == 'monitor':
            ln = (info.get('line') or 2) - 1        # l points at the next line to consume
            fe = ev[ln - 1] if 0 < ln <= len(ev) else {}
            pe = ev[ln - 2] if ln >= 2 else {}
            sig = 'C11:%s:%s' % (info.get('monitor'), fe.get('op', '?'))
            what = 'monitor %s violated after line %d' % (info.get('monitor'), ln)
        else:
            if info.get('line') is None:
                continue
            fe = info.get('failing_event') or {}
            pe = info.get('prev_event') or {}
            ln = info.get('line')
            sig = 'C11:unexplained:%s' % fe.get('op', 'end')
            what = 'step not explained by the Players spec at line %s' % ln
        if fe.get('op') == 'read':
            what = ('a mere READ of player variable %r of player %s (path %s; afterwards is_player_var=%s, value read %s) is not the '
                    'no-op the statement demands - %s' % (fe.get('var'), fe.get('q'), fe.get('path'), fe.get('has'), fe.get('rv'), what))
        ctx.violation(sig, '%s: op=%s args=%s players=%s live=%s evs=%s (previous line: op=%s players=%s) cfg=%s %s' % (
            what, fe.get('op'), {k: fe[k] for k in fe if k not in ('pl', 'live', 'evs', 'op')}, fe.get('pl'), fe.get('live'),
            fe.get('evs'), pe.get('op'), pe.get('pl'), traces[i]['cfg'], traces[i].get('_tb', '')),
            {'job': [None, jobs[i][1], jobs[i][2], jobs[i][3]], 'line': ln, 'info': {k: x for k, x in info.items() if k != 'state'}})
    ctx.assumptions += [
        'fake-game harness (no ball devices): a ball ends by the ball_drain relay event; the game is held at the player_turn_starting '
        'queue event so that the moment between two turns (and before the first turn) is observable and mode start requests can be '
        'placed there',
        'virtual time; all actions of a schedule happen at whole seconds (adv = 1 s + 1 us), timer tick interval 1 s, timed pause 2 s',
        'add requests in bursts: k = 2 or 3 requests made without running the machine in between (presses of the start switch, '
        'calls of game.request_player_add() inside one handler of a test event, events named by game: add_player_event, direct calls), '
        'only during a ball; bursts larger than the free slots are not generated (they overshoot max_players on the unchanged '
        'tree: known finding C06:AddRace, judged by C06); nobody denies a player_add_request and no player_adding queue event is held',
        'achievement transitions are taken from the observation (only ownership/restoration of the state is constrained)',
        'zero-change announce events (player added, variable created with its default) are not player-variable changes and are ignored',
        'string/None/int valued player variables are written through the Player API (player[var] = v / setattr), also for a player '
        'who is not up; a write of None posts no event (player.py announces ints, floats and strings only, as its docstring says); '
        'floats are not exercised (not representable in the trace format)',
        'variable_player entries with an explicit target (player: 1 / player: 2; add to score, set bonus) live in game mode gm1; '
        'what such an entry does when the named player has not joined is taken from the observation (dropped, or applied to '
        'the player who is up); show "variables" steps are not exercised',
        'reads: Player attribute / item access (on game.player and game.player_list[n]), raw templates players[n].x, players[n][\'x\'], '
        'current_player.x (evaluate and evaluate_and_subscribe), conditions of conditional events of a machine-wide event_player; '
        'reading a player who has not joined through a template/condition yields nothing (None / false) and creates nothing; '
        'the values of variables holding objects (logic block states, achievements, restart list) are not compared',
        'the stop of gm2 is held by a test handler of the mode_gm2_stopping queue event (stands for a show / slide / queue_relay '
        'played out before the mode is torn down) and let go by the release step',
        'whether a start request for a game mode is granted while the ended ball waits for the held stop is taken from the '
        'observation; either way the mode must have let go of the player when the turn is over',
    ]


def replay(ctx, data):
    d = data['replay']
    job = d['job']
    tr = exec_schedule((ctx.scratch, job[1], job[2], job[3]))
    for i, e in enumerate(tr['ev']):
        print(i + 1, {k: e[k] for k in e if k not in ('pl', 'live', 'evs')})
        print('     pl', e.get('pl'))
        print('     live', e.get('live'), 'evs', e.get('evs'))
    print(tr.get('_tb', ''))
