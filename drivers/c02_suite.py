"""C02 — the repository's own tests as trace sources for queue events: every dispatch of a queue event recorded by
lib/suite_rec.py (handlers in priority order, one at a time, never while a wait is outstanding, completion callback once
after all waits are cleared) must be a behaviour of QueueEvents (QueueEventsSuiteTrace)."""
from lib import tlc

SUITE_CFG = """SPECIFICATION TSpec
CONSTANTS
  Ev = {}
  Hid = {}
  Prio = {1}
  MaxTasks = 1
  MaxOps = 1000000
  HkSet = {FALSE}
  CondSet <- NoCondSet
  CSet = {0}
  ModeKinds = {"none"}
INVARIANT Reporter
CHECK_DEADLOCK FALSE
"""


def suite_traces(ctx, modules=None, sigprefix='C02'):
    from lib import suite
    mods = modules or (suite.QUICK_MODULES if ctx.quick else suite.all_modules())
    segs, st = suite.record(ctx, mods, 'q')
    ctx.log('suite recorder (queue events): %d modules, %d dispatches (%d distinct, %d lines), tainted %s' % (
        st.get('modules', 0), st.get('q:segments', 0), len(segs), sum(len(t['ev']) for t in segs),
        {k: v for k, v in st.items() if k.startswith('q:tainted')}))
    if not segs or st.get('q:segments', 0) < 100 * min(1, len(mods) // 10):
        raise tlc.TLCError('suite recorder produced no / too few queue dispatches: %s' % {k: v for k, v in st.items() if k != 'module_results'})
    wd = tlc.prepare(ctx.scratch, 'QueueEvents', 'queueevents_suite')
    with open(wd + '/Suite.cfg', 'w') as f:
        f.write(SUITE_CFG)
    v = tlc.validate_traces(wd, 'QueueEventsSuiteTrace', 'Suite.cfg', segs, workers=8, batch=3000)
    ctx.add_trace_verdict('QueueEventsSuiteTrace (queue dispatches recorded from the repository tests)', v, len(segs))
    ctx.coverage['suite'] = {k: v2 for k, v2 in st.items() if k != 'module_results'}
    ctx.sample({'kind': 'suite-queue-dispatch', 'src': segs[0]['_src'], 'event': segs[0]['qev'], 'reg0': segs[0]['reg0'][:6],
                'trace': segs[0]['ev'][:14]})
    if v.rejected:
        tlc.finish_diagnosis(wd, 'QueueEventsSuiteTrace', 'Suite.cfg', segs, v)
        for i, info in sorted(v.rejected.items()):
            fe = info.get('failing_event') or {}
            pe = info.get('prev_event') or {}
            ctx.violation('%s:suite:%s-after-%s' % (sigprefix, fe.get('op', 'end'), pe.get('op', 'start')),
                          'dispatch of queue event %s recorded from %s is not a behaviour of QueueEvents at line %s: %s (prev %s)' % (
                              segs[i]['qev'], segs[i]['_src'], info.get('line'), fe, pe),
                          {'kind': 'suite', 'src': segs[i]['_src'], 'trace': dict(segs[i]), 'info': info})
    return len(segs)
