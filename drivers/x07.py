"""X07 - extra balls and extra ball groups inside a running game (specs/ExtraBalls)."""
import os
import traceback

from lib import tlc, harness
from lib.tlaval import to_tla

LEVEL = 'model_checking'
ALLDEV = ['keeplit', 'nounlit', 'lightcrash', 'lightnocount']
EVKEYS = ('dis', 'awd', 'g_awd', 'g_dis', 'g_lit', 'g_litawd', 'g_unlit', 'e1_lit', 'e2_lit', 'e1_awd', 'e2_awd', 'e1_dis', 'e2_dis')
BPG, MAXP = 2, 2


def E(en=True, mpg=1, grp=True):
    return dict(en=en, mpg=mpg, grp=grp)


def C(i, gen=True, gmpg=0, gmpb=0, ml=0, mem=True, eb=None):
    return dict(id=i, gen=gen, gmpg=gmpg, gmpb=gmpb, ml=ml, mem=mem, eb=list(eb or (E(), E(grp=False))))


TABLE = [
    C(1, eb=(E(mpg=1), E(mpg=2))),                                              # group without limits (the defaults)
    C(2, ml=1, eb=(E(mpg=0), E(mpg=1, grp=False))),
    C(3, ml=2, gmpb=1, mem=False, eb=(E(mpg=0), E(mpg=0))),
    C(4, gmpg=2, mem=False, eb=(E(mpg=0), E(mpg=2, grp=False))),
    C(5, ml=2, gmpb=1, gmpg=2, eb=(E(mpg=2), E(mpg=0))),
    C(6, gen=False, eb=(E(mpg=0), E(en=False, mpg=0, grp=False))),
    C(7, ml=1, gmpb=1, gmpg=1, eb=(E(mpg=1), E(en=False, mpg=1))),
    C(8, ml=2, gmpg=1, eb=(E(mpg=0), E(mpg=0, grp=False))),
    C(9, gmpb=1, eb=(E(mpg=0), E(mpg=1, grp=False))),
    C(10, ml=0, gmpg=0, gmpb=0, mem=False, eb=(E(mpg=1), E(mpg=1))),
]
BYID = {c['id']: c for c in TABLE}


def cfg_rec(c):
    return {k: c[k] for k in ('id', 'gen', 'gmpg', 'gmpb', 'ml', 'mem', 'eb')}


def yn(b):
    return 'true' if b else 'false'


def write_machine(scratch):
    d = os.path.join(scratch, 'machines', 'extraballs')
    os.makedirs(d + '/config', exist_ok=True)
    os.makedirs(d + '/modes/ebm/config', exist_ok=True)
    G, X = [], []
    for c in TABLE:
        g = 'g%d' % c['id']
        G += ['  %s:' % g, '    enabled: %s' % yn(c['gen']), '    light_events: %s_light' % g, '    award_events: %s_award' % g,
              '    award_lit_events: %s_award_lit' % g, '    max_per_game: %d' % c['gmpg'], '    max_per_ball: %d' % c['gmpb'],
              '    max_lit: %d' % c['ml'], '    lit_memory: %s' % yn(c['mem'])]
        for i, e in enumerate(c['eb'], 1):
            n = 'e%d_%d' % (c['id'], i)
            X += ['  %s:' % n, '    enabled: %s' % yn(e['en']), '    light_events: %s_light' % n, '    award_events: %s_award' % n,
                  '    max_per_game: %d' % e['mpg']]
            if e['grp']:
                X.append('    group: %s' % g)
    with open(d + '/config/config.yaml', 'w') as f:
        f.write('#config_version=6\ngame:\n  balls_per_game: %d\n  max_players: %d\nswitches:\n  s_start:\n    number:\n    tags: start\n'
                'modes:\n  - ebm\nextra_ball_groups:\n%s\n' % (BPG, MAXP, '\n'.join(G)))
    with open(d + '/modes/ebm/config/ebm.yaml', 'w') as f:
        f.write('#config_version=6\nmode:\n  start_events: ball_starting\n  priority: 200\nextra_balls:\n%s\n' % '\n'.join(X))
    return d


def mc_module():
    return """----------------------------- MODULE ExtraBallsMC -----------------------------
EXTENDS ExtraBalls
MCConfigs == {%s}
MCNoDev == {}
MCAllDev == {%s}
MCGenDev == {%s}
=============================================================================
""" % (',\n   '.join(to_tla(cfg_rec(c)) for c in TABLE), ', '.join('"%s"' % d for d in ALLDEV),
       ', '.join('"%s"' % d for d in ALLDEV if d != 'lightcrash'))


CFG = """SPECIFICATION %s
CONSTANTS
  Configs <- %s
  Deviations <- %s
  MaxOps = %d
  MaxP = %d
  BPG = %d
  MaxGames = %d
%sCHECK_DEADLOCK FALSE
"""
INVS = ['TypeOK', 'EbLimit', 'GroupGameLimit', 'GroupBallLimit', 'LitLimit', 'DisabledInert']
PROPS = ['AwardAccounting', 'RefusedChangesNothing', 'OutsideBallInert', 'AwardLitConsumesOne', 'ShootAgain', 'TurnResetsPerBall',
         'RelitAtBallStart', 'NoMemoryClears']


def props(intent):
    return ''.join('INVARIANT %s\n' % i for i in INVS + (['NoneLitAtLimit'] if intent else [])) + \
        ''.join('PROPERTY %s\n' % p for p in PROPS)


# ---- execution on real mpf -------------------------------------------------------------------------------------------
_W = {}


def _machine(mdir):
    if _W.get('dirty') and 'h' in _W:
        harness.shutdown(_W.pop('h'))
    _W['dirty'] = False
    if 'h' not in _W:
        h = harness.boot(None, machine_dir=mdir, fake_game=True)
        m = h.machine
        m.playfield.add_ball = lambda **kwargs: None
        m.ball_controller.num_balls_known = 3
        _W['h'] = h
        _W['log'] = []
        names = {'extra_ball_award_disabled': (0, 'dis'), 'extra_ball_awarded': (0, 'awd')}
        for c in TABLE:
            g = 'extra_ball_group_g%d_' % c['id']
            for suffix, key in (('awarded', 'g_awd'), ('award_disabled', 'g_dis'), ('lit', 'g_lit'), ('lit_awarded', 'g_litawd'),
                                ('unlit', 'g_unlit')):
                names[g + suffix] = (c['id'], key)
            for i in (1, 2):
                e = 'extra_ball_e%d_%d_' % (c['id'], i)
                for suffix, key in (('lit', 'lit'), ('awarded', 'awd'), ('award_disabled', 'dis')):
                    names[e + suffix] = (c['id'], 'e%d_%s' % (i, key))
        for n, tag in names.items():
            m.events.add_handler(n, _mk(tag), priority=1)
    return _W['h']


def _mk(tag):
    def hnd(**kwargs):
        _W['log'].append(tag)
    return hnd


def exec_schedule(job):
    mdir, cid, sched = job
    ev = []
    try:
        _exec(mdir, cid, sched, ev)
        return {'cfg': cfg_rec(BYID[cid]), 'ev': ev}
    except Exception as ex:  # pylint: disable=broad-except
        _W['dirty'] = True
        ev.append({'op': 'crash', 'after': 'setup', 'attr': False, 'what': repr(ex)[:300]})
        return {'cfg': cfg_rec(BYID[cid]), 'ev': ev, '_tb': traceback.format_exc()[-1500:]}


def _settle(h, n=12):
    for _ in range(n):
        h.advance_time_and_run(0)


def _exec(mdir, cid, sched, ev):
    h = _machine(mdir)
    m = h.machine
    log = _W['log']
    if m.game:
        m.game.end_game()
        _settle(h)
        h.advance_time_and_run(1)
    if m.game:
        raise RuntimeError('game did not end')
    g = 'g%d' % cid
    gv = 'extra_ball_group_%s_' % g

    def obs(a):
        rec = dict(a)
        out = dict.fromkeys(EVKEYS, 0)
        foreign = []
        for (i, key) in log:
            if i in (0, cid):
                out[key] += 1
            else:
                foreign.append([i, key])
        del log[:]
        rec['out'] = out
        if foreign:
            rec['_foreign'] = foreign
            raise RuntimeError('events of a configuration that is not under test: %r' % foreign)
        game = m.game
        run = bool(game is not None and game.player is not None and game.balls_in_play > 0 and m.modes['ebm'].active)
        rec['run'] = run
        if run:
            pl = game.player_list
            rec.update(np=len(pl), cur=int(game.player.number), ball=int(game.player.ball),
                       xb=[int(p.vars.get('extra_balls', 0)) for p in pl],
                       lit=[int(p.vars.get(gv + 'num_lit', 0)) for p in pl],
                       gg=[int(p.vars.get(gv + 'num_awarded_game', 0)) for p in pl],
                       gb=[int(p.vars.get(gv + 'num_awarded_ball', 0)) for p in pl],
                       ebn=[[int(p.vars.get('extra_ball_e%d_%d_num_awarded' % (cid, i), 0)) for i in (1, 2)] for p in pl])
        ev.append(rec)

    _settle(h)
    del log[:]
    for a in sched:
        op = a['op']
        if op == 'init':
            continue
        try:
            if op == 'newgame':
                h.hit_and_release_switch('s_start')
            elif op == 'addplayer':
                h.hit_and_release_switch('s_start')
            elif op == 'ballend':
                h.post_relay_event_with_params('ball_drain', balls=1)
            elif op == 'endgame':
                m.game.end_game()
            elif op in ('eblight', 'ebaward'):
                m.events.post('e%d_%d_%s' % (cid, a['i'], 'light' if op == 'eblight' else 'award'))
            elif op in ('glight', 'gaward', 'gawardlit'):
                m.events.post('%s_%s' % (g, {'glight': 'light', 'gaward': 'award', 'gawardlit': 'award_lit'}[op]))
            else:
                raise ValueError(op)
            _settle(h, 12 if op in ('newgame', 'addplayer', 'ballend', 'endgame') else 4)
        except Exception as ex:  # pylint: disable=broad-except
            # an exception of the real code: never swallowed; the line is accepted only where the model names the deviation
            _W['dirty'] = True
            root = ex
            while root.__cause__ is not None or root.__context__ is not None:
                root = root.__cause__ or root.__context__
            ev.append({'op': 'crash', 'after': op, 'what': repr(root)[:300],
                       'attr': bool(isinstance(root, AttributeError) and '_extra_ball_award_disabled' in str(root)),
                       '_tb': traceback.format_exc()[-1200:]})
            del log[:]
            return
        obs(a)


def A(op, **kw):
    d = {'op': op}
    d.update(kw)
    return d


def handmade():
    NG, AP, BE, EG = A('newgame'), A('addplayer'), A('ballend'), A('endgame')
    GL, GA, GAL = A('glight'), A('gaward'), A('gawardlit')
    L1, L2, A1, A2 = A('eblight', i=1), A('eblight', i=2), A('ebaward', i=1), A('ebaward', i=2)
    return [
        # two lit, award_lit reaches max_per_ball with one still lit (keeplit, nounlit); next turn; the other player
        (3, [NG, AP, L1, L2, GAL, GAL, GL, BE, GAL, BE, GAL, L1, BE, GAL, BE, GAL]),
        (5, [NG, L1, L2, GAL, GAL, BE, GAL, GAL, BE, GAL, L2, GAL, BE]),
        # shoot again keeps the ball number and the per-ball count; the turn start resets it
        (9, [NG, AP, GA, GA, A2, BE, GA, A1, BE, BE, GA, BE, GA, GA, BE, BE]),
        (7, [NG, A1, A1, GA, L1, BE, A1, GA, BE, A1, L1, GAL, BE]),
        # lit memory over the turns of two players / without memory
        (1, [NG, AP, L1, L2, BE, GAL, BE, GAL, GAL, GAL, BE, BE, L2, BE, BE]),
        (10, [NG, AP, L1, L2, BE, GAL, L1, BE, GAL, A1, BE, GAL, BE, BE]),
        (4, [NG, L1, L1, GAL, GAL, GAL, A2, A2, A2, BE, L1, GA, BE, BE, BE]),
        # nothing happens outside a ball; disabled devices; a new game starts from zero
        (2, [GA, GAL, L1, A1, NG, L1, L1, GAL, A2, A2, EG, GA, NG, A2, L1, BE, L1, BE, BE]),
        (6, [NG, L1, A1, L2, A2, GA, GAL, BE, BE]),
        (8, [NG, AP, L1, L1, L1, GAL, GAL, A1, L1, BE, L1, A2, GAL, BE, BE, BE, BE]),
        # refused lighting of the group itself
        (2, [NG, GL, GL]),
        (6, [NG, GL]),
        (1, [GL]),
    ]


def dev_counts(traces):
    n = dict.fromkeys(ALLDEV, 0)
    for t in traces:
        c = t['cfg']
        for e in t['ev']:
            if e['op'] == 'crash':
                n['lightcrash'] += 1 if e.get('attr') else 0
                continue
            o = e['out']
            if e['op'] == 'eblight' and (o['e1_lit'] or o['e2_lit']):
                n['lightnocount'] += 1
            if o['g_awd'] and e.get('run'):
                p = e['cur'] - 1
                over = (c['gmpg'] and c['gmpg'] <= e['gg'][p]) or (c['gmpb'] and c['gmpb'] <= e['gb'][p])
                if over and e['lit'][p] > 0:
                    n['keeplit'] += 1
                    if e['op'] == 'gawardlit' and not o['g_unlit']:
                        n['nounlit'] += 1
    return n


def run(ctx):
    mdir = write_machine(ctx.scratch)
    wd = tlc.prepare(ctx.scratch, 'ExtraBalls', 'extraballs')
    with open(wd + '/ExtraBallsMC.tla', 'w') as f:
        f.write(mc_module())
    ops, games = (6, 1) if ctx.quick else (8, 2)
    for label, devs, intent in (('intent', 'MCNoDev', True), ('as-coded', 'MCAllDev', False)):
        with open(wd + '/MC_%s.cfg' % label, 'w') as f:
            f.write(CFG % ('Spec', 'MCConfigs', devs, ops, MAXP, BPG, games, props(intent)))
        r = tlc.expect_ok(tlc.check(wd, 'ExtraBallsMC', 'MC_%s.cfg' % label, timeout=1500, coverage=(label == 'as-coded')),
                          'ExtraBalls design check (%s)' % label)
        ctx.add_tlc('ExtraBallsMC/' + label, r, {'configs': len(TABLE), 'MaxOps': ops, 'MaxP': MAXP, 'BPG': BPG, 'MaxGames': games,
                                                'Deviations': [] if intent else ALLDEV})
        if label == 'as-coded':
            cov = r.coverage()
            missing = [a for a in ('GAward', 'GAwardLit', 'GLight', 'EbLight', 'EbAward', 'NewGame', 'AddPlayer', 'BallEnd', 'EndGame')
                       if a in cov and cov[a][0] == 0]
            if missing:
                raise tlc.TLCError('actions never taken in the design check: %s' % missing)
            ctx.coverage['action_coverage'] = {k: list(v) for k, v in cov.items()}
    ctx.coverage['monitors'] += INVS + ['NoneLitAtLimit (intent model only)'] + PROPS
    with open(wd + '/Gen.cfg', 'w') as f:
        f.write(CFG % ('GSpec', 'MCConfigs', 'MCGenDev', 26, MAXP, BPG, 2, ''))
    behs, _ = tlc.simulate(wd, 'ExtraBallsGen', 'Gen.cfg', num=240 if ctx.quick else 2000, depth=56, seed=ctx.seed)
    jobs = []
    for b in behs:
        sched = [s['act'] for k, s in enumerate(b) if k > 0 and s['nops'] != b[k - 1]['nops']]
        jobs.append((mdir, b[0]['cfg']['id'], sched))
    jobs += [(mdir, cid, sched) for cid, sched in handmade()]
    traces = harness.pmap(exec_schedule, jobs, chunk=8)
    with open(wd + '/Trace.cfg', 'w') as f:
        f.write(CFG % ('TSpec', 'TConfigs', 'TAllDev', 1000000, MAXP, BPG, 1000000,
                       'INVARIANT Reporter\n' + ''.join('INVARIANT %s\n' % i for i in INVS if i != 'TypeOK')))
    v = tlc.validate_traces(wd, 'ExtraBallsTrace', 'Trace.cfg', traces)
    ctx.add_trace_verdict('ExtraBallsTrace', v, len(traces))
    ctx.coverage['configs_exercised'] = sorted({j[1] for j in jobs})
    ctx.coverage['steps'] = sum(len(t['ev']) for t in traces)
    ctx.sample({'kind': 'extra-ball-trace', 'cfg': traces[-13]['cfg'], 'trace': traces[-13]['ev'][:8]})
    n = dev_counts(traces)
    ctx.coverage['deviations_used'] = n
    ctx.notes.append('named deviations of mpf from its documentation, steps that needed them: %s' % n)
    tlc.finish_diagnosis(wd, 'ExtraBallsTrace', 'Trace.cfg', traces, v)
    for i, info in sorted(v.rejected.items()):
        if info.get('reason') == 'monitor':
            ctx.violation('X07:monitor:%s' % info.get('monitor'), 'monitor %s violated by a real execution at line %s (cfg %s)' % (
                info.get('monitor'), info.get('line'), traces[i]['cfg']), {'cid': jobs[i][1], 'sched': jobs[i][2], 'trace': traces[i]})
            continue
        if info.get('line') is None:
            continue
        fe = info.get('failing_event') or {}
        ctx.violation('X07:%s%s' % (fe.get('op', '?'), ':' + str(fe.get('after')) if fe.get('op') == 'crash' else ''),
                      'extra ball execution not explained by ExtraBalls spec at line %s: %s (prev %s; cfg %s)' % (
                          info.get('line'), fe, info.get('prev_event'), traces[i]['cfg']),
                      {'cid': jobs[i][1], 'sched': jobs[i][2], 'trace': traces[i], 'info': info})
    ctx.assumptions += ['fake-game harness (no ball devices): a ball ends by the ball_drain relay event; %d balls, up to %d players' % (BPG, MAXP),
                        'extra balls live in a game mode started at ball_starting; all configurations share one machine, one is used per schedule',
                        'events of a step are compared as a bag (their order inside a step is not part of the statement)']


def replay(ctx, data):
    d = data['replay']
    mdir = write_machine(ctx.scratch)
    tr = exec_schedule((mdir, d['cid'], d['sched']))
    for e in tr['ev']:
        print(e)
