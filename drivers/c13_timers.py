"""C13 second half: the `timers:` device (specs/Timers) and PeriodicTask under loop lateness (specs/Periodic)."""
import os
import random

from lib import tlc, harness
from lib.tlaval import to_tla

NOEND = -99
EPS = 1e-6
# id, dir, start, end, max, restart, ival, startRunning, unit_ms
TABLE = [
    dict(id=1, dir='up', start=0, end=3, max=0, restart=False, ival=1, startRunning=False, unit=1000),
    dict(id=2, dir='down', start=3, end=0, max=4, restart=True, ival=2, startRunning=True, unit=250),
    dict(id=3, dir='up', start=1, end=NOEND, max=3, restart=False, ival=1, startRunning=True, unit=1000),
    dict(id=4, dir='up', start=0, end=2, max=0, restart=True, ival=1, startRunning=False, unit=100),
    dict(id=5, dir='down', start=2, end=0, max=0, restart=False, ival=1, startRunning=False, unit=500),
    dict(id=6, dir='down', start=5, end=1, max=6, restart=False, ival=3, startRunning=False, unit=50),
    dict(id=7, dir='up', start=2, end=6, max=5, restart=False, ival=2, startRunning=True, unit=1000),
]


def cfg_rec(c):
    return {k: c[k] for k in ('id', 'dir', 'start', 'end', 'max', 'restart', 'ival', 'startRunning')}


def write_machine(scratch):
    d = os.path.join(scratch, 'machines', 'timers')
    os.makedirs(d + '/config', exist_ok=True)
    os.makedirs(d + '/modes/tm/config', exist_ok=True)
    with open(d + '/config/config.yaml', 'w') as f:
        f.write('#config_version=6\nmodes:\n  - tm\n')
    with open(d + '/modes/tm/config/tm.yaml', 'w') as f:
        f.write('#config_version=6\nmode:\n  priority: 100\n  game_mode: false\ntimers:\n')
        for c in TABLE:
            f.write('  t%d:\n' % c['id'])
            f.write('    start_value: %d\n' % c['start'])
            if c['end'] != NOEND:
                f.write('    end_value: %d\n' % c['end'])
            f.write('    direction: %s\n' % c['dir'])
            if c['max']:
                f.write('    max_value: %d\n' % c['max'])
            f.write('    tick_interval: %dms\n' % (c['ival'] * c['unit']))
            f.write('    start_running: %s\n' % ('true' if c['startRunning'] else 'false'))
            f.write('    restart_on_complete: %s\n' % ('true' if c['restart'] else 'false'))
    return d


def mc_module(table):
    return """------------------------------ MODULE TimersMC ------------------------------
EXTENDS Timers
MCNoEnd == %d
MCConfigs == {%s}
=============================================================================
""" % (NOEND, ',\n   '.join(to_tla(cfg_rec(c)) for c in table))


MC_CFG = """SPECIFICATION Spec
CONSTANTS
  NoEnd <- MCNoEnd
  Configs <- MCConfigs
  MaxTime = %d
  MaxOps = %d
  Vals = {1, 2, 5}
  Ivals = {1, 2}
  Pauses = {0, 1, 3}
INVARIANT TypeOK
INVARIANT CompleteIffAtEnd
INVARIANT RunningHasTimer
PROPERTY TicksOnlyWhileRunning
PROPERTY NeverTickWhenStopped
PROPERTY NoDrift
CHECK_DEADLOCK FALSE
"""

_H = {}
EVS = ['started', 'stopped', 'paused', 'complete', 'tick', 'time_added', 'time_subtracted']


def _machine(mdir):
    if 'h' not in _H:
        h = harness.boot(None, machine_dir=mdir)
        _H['h'] = h
        _H['log'] = []
        for c in TABLE:
            for e in EVS:
                h.machine.events.add_handler('timer_t%d_%s' % (c['id'], e), _mk_handler(c['id'], e), priority=1)
    return _H['h']


def _mk_handler(tid, e):
    def hnd(**kwargs):
        _H['log'].append((tid, e, kwargs.get('ticks')))
    return hnd


def exec_timer_schedule(job):
    mdir, cid, sched = job
    try:
        return _exec(mdir, cid, sched)
    except Exception as ex:  # pylint: disable=broad-except
        import traceback
        return {'cfg': cfg_rec([c for c in TABLE if c['id'] == cid][0]), 'ev': [{'op': 'crash', 'what': repr(ex)[:300]}],
                '_tb': traceback.format_exc()[-1500:]}


def _exec(mdir, cid, sched):
    h = _machine(mdir)
    c = [x for x in TABLE if x['id'] == cid][0]
    U = c['unit']
    mode = h.machine.modes['tm']
    if mode.active:
        mode.stop()
        h.advance_time_and_run(0.001)
    tm = None
    log = _H['log']
    ev = []

    T = h.machine.placeholder_manager.build_float_template

    def settle():
        h.advance_time_and_run(0)
        h.advance_time_and_run(0)

    def obs(op, v=None):
        out = [[e, t] for (i, e, t) in log if i == cid]
        del log[:]
        t = h.machine.timers['t%d' % cid]
        rec = {'op': op, 'out': out, 'ticks': t.ticks if t.ticks is not None else c['start'], 'running': bool(t.running)}
        if v is not None:
            rec['v'] = v
        ev.append(rec)

    del log[:]
    for s in list(sched) + [{'op': 'adv'}] * 4:
        op = s['op']
        if op == 'init':
            continue
        v = s.get('v')
        tm = h.machine.timers['t%d' % cid]
        if op == 'adv':
            h.advance_time_and_run(U * (1 + EPS) / 1000.0)
            obs(op)
            continue
        if op == 'mode_start':
            if mode.active:
                continue
            mode.start()
        elif op == 'mode_stop':
            if not mode.active:
                continue
            mode.stop()
        elif not mode.active:
            continue
        elif op == 'start':
            tm.start()
        elif op == 'stop':
            tm.stop()
        elif op == 'pause':
            # values are handed over as templates, exactly as the timer's control_events do
            tm.pause(T(repr(v * U / 1000.0)))
        elif op == 'add':
            tm.add(T(str(v)))
        elif op == 'subtract':
            tm.subtract(T(str(v)))
        elif op == 'jump':
            tm.jump(T(str(v)))
        elif op == 'reset':
            tm.reset()
        elif op == 'restart':
            tm.restart()
        elif op == 'set_interval':
            tm.set_tick_interval(T(repr(v * U / 1000.0)))
        else:
            raise ValueError(op)
        settle()
        obs(op, v)
    if mode.active:
        mode.stop()
        h.advance_time_and_run(0.001)
    del log[:]
    return {'cfg': cfg_rec(c), 'ev': ev}


# ------------------------------------------------------------------ PeriodicTask under a late loop
class LateLoop:
    """Minimal loop double for PeriodicTask: runs call_at callbacks late by scripted amounts."""

    def __init__(self):
        self.t = 1000.0
        self.q = []
        self.log = []

    def time(self):
        return self.t

    def call_at(self, when, cb):
        self.log.append(('sched', when))
        self.q.append((when, cb))

    def run_next(self, late):
        self.q.sort(key=lambda x: x[0])
        when, cb = self.q.pop(0)
        self.t = max(self.t, when + late)
        cb()


def exec_periodic(job):
    from mpf.core.clock import PeriodicTask
    ival_u, lates, cancel_at, unit = job
    loop = LateLoop()
    ev = []
    runs = []

    def cb():
        runs.append(loop.t)
    base = loop.t
    task = PeriodicTask(ival_u * unit, loop, cb)

    def u(x):
        k = (x - base) / unit
        r = round(k)
        return r if abs(k - r) < 1e-6 else -1
    ev.append({'op': 'create', 'ival': ival_u, 'sched': u(loop.log[-1][1])})
    for i, late in enumerate(lates):
        if cancel_at is not None and i == cancel_at:
            task.cancel()
            ev.append({'op': 'cancel'})
        if not loop.q:
            break
        nlog, nruns = len(loop.log), len(runs)
        loop.run_next(late * unit)
        ev.append({'op': 'run', 'late': late, 'ran': len(runs) - nruns, 't': u(loop.t),
                   'sched': u(loop.log[-1][1]) if len(loop.log) > nlog else -2})
    return {'ev': ev, '_job': [ival_u, lates, cancel_at, unit]}


def run(ctx):
    # --- timer device
    mdir = write_machine(ctx.scratch)
    wd = tlc.prepare(ctx.scratch, 'Timers', 'timers')
    table = TABLE[:5] if ctx.quick else TABLE
    with open(wd + '/TimersMC.tla', 'w') as f:
        f.write(mc_module(table))
    with open(wd + '/MC.cfg', 'w') as f:
        f.write(MC_CFG % ((6, 5) if ctx.quick else (8, 6)))
    r = tlc.expect_ok(tlc.check(wd, 'TimersMC', 'MC.cfg', timeout=900), 'Timers design check')
    ctx.add_tlc('TimersMC', r, {'configs': len(table), 'MaxTime': 6 if ctx.quick else 8, 'MaxOps': 5 if ctx.quick else 6})
    ctx.coverage['monitors'] += ['TicksOnlyWhileRunning', 'NeverTickWhenStopped', 'NoDrift', 'CompleteIffAtEnd']
    with open(wd + '/MC.cfg', 'w') as f:
        f.write(MC_CFG % (14, 14))
    with open(wd + '/TimersMC.tla', 'w') as f:
        f.write(mc_module(TABLE))
    behs, _ = tlc.simulate(wd, 'TimersMC', 'MC.cfg', num=300 if ctx.quick else 5000, depth=24 if ctx.quick else 36,
                           seed=ctx.seed)
    jobs = [(mdir, b[0]['cfg']['id'], [s['act'] for s in b]) for b in behs]
    traces = harness.pmap(exec_timer_schedule, jobs, chunk=8)
    v = tlc.validate_traces(wd, 'TimersTrace', 'TimersTrace.cfg', traces)
    ctx.add_trace_verdict('TimersTrace', v, len(traces))
    ctx.sample({'kind': 'timer-trace', 'cfg': traces[0]['cfg'], 'trace': traces[0]['ev'][:10]})
    for i, info in sorted(v.rejected.items()):
        fe = info.get('failing_event') or {}
        sig = 'C13:timer:%s:%s' % (info.get('monitor') or 'step', fe.get('op', '?'))
        ctx.violation(sig, 'timer device execution not explained by Timers spec at line %s: %s (cfg %s)' % (
            info.get('line'), fe, traces[i]['cfg']), {'kind': 'timer', 'cid': jobs[i][1], 'sched': jobs[i][2],
                                                      'trace': traces[i], 'info': info})
    # --- PeriodicTask with lateness
    wdp = tlc.prepare(ctx.scratch, 'Periodic', 'periodic')
    r = tlc.expect_ok(tlc.check(wdp, 'Periodic', 'PeriodicMC.cfg', timeout=300), 'Periodic design check')
    ctx.add_tlc('PeriodicMC', r, {'Ivals': '{1,2,3}', 'Lates': '{0,1,2,4}', 'MaxRuns': 6})
    rnd = random.Random(ctx.seed + 7)
    pjobs = []
    for _ in range(200 if ctx.quick else 3000):
        n = rnd.randint(1, 10)
        pjobs.append((rnd.choice([1, 2, 3, 5]), [rnd.choice([0, 0, 0, 1, 2, 4, 7]) for _ in range(n)],
                      rnd.choice([None, None, rnd.randint(0, n)]), rnd.choice([0.001, 0.25, 1.0, 60.0])))
    ptraces = [exec_periodic(j) for j in pjobs]
    v = tlc.validate_traces(wdp, 'PeriodicTrace', 'PeriodicTrace.cfg', ptraces)
    ctx.add_trace_verdict('PeriodicTrace', v, len(ptraces))
    ctx.sample({'kind': 'periodic-trace', 'trace': ptraces[0]['ev'][:8]})
    for i, info in sorted(v.rejected.items()):
        fe = info.get('failing_event') or {}
        ctx.violation('C13:periodic:%s' % fe.get('op', '?'),
                      'PeriodicTask execution not explained by Periodic spec at line %s: %s' % (info.get('line'), fe),
                      {'kind': 'periodic', 'job': list(pjobs[i]), 'trace': ptraces[i], 'info': info})


def replay(ctx, data):
    d = data['replay']
    if d['kind'] == 'timer':
        mdir = write_machine(ctx.scratch)
        tr = exec_timer_schedule((mdir, d['cid'], d['sched']))
        wd = tlc.prepare(ctx.scratch, 'Timers', 'timers')
        v = tlc.validate_traces(wd, 'TimersTrace', 'TimersTrace.cfg', [tr])
    else:
        tr = exec_periodic(tuple(d['job']))
        wd = tlc.prepare(ctx.scratch, 'Periodic', 'periodic')
        v = tlc.validate_traces(wd, 'PeriodicTrace', 'PeriodicTrace.cfg', [tr])
    print('replay trace:', tr['ev'])
    for i, info in v.rejected.items():
        ctx.violation(data['sig'], 'replayed: %s' % info, d)
