"""X04 — ball saves and multiballs with the game's balls_in_play accounting (specs/BallSave)."""
import os

from lib import tlc, harness
from lib.tlaval import to_tla

LEVEL = 'model_checking'
EPS = 1e-6
UNIT_MS = 1000
KEYS = ('id', 'kind', 'active', 'grace', 'hurry', 'bts', 'tse', 'olb', 'delayed', 'auto', 'count', 'ctype', 'sa', 'mgrace',
        'mhurry', 'aab', 'known')
DEVIATIONS = ['SavingZero', 'EnableForgetsEarly', 'StopKeepsTimers', 'StopIdle', 'EndedDoubleCount']
DEV_WHAT = {
    'SavingZero': 'BallSave._ball_drain_while_active posts ball_save_X_saving_ball with balls=0 when only_last_ball refuses to '
                  'save (event documented as "has just saved one (or more) balls")',
    'EnableForgetsEarly': 'BallSave.enable() sets early_saved = 0 although the ball of an early save has not drained yet: the '
                          'drain of that ball is saved a second time (two balls requested for one ball in play)',
    'StopKeepsTimers': 'Multiball.stop() calls events.remove_handler on the delay callbacks instead of removing the delays: '
                       'after a stop the pending disable_shoot_again / grace_period / hurry_up delays still fire (events posted '
                       'a second time, stop() run again)',
    'StopIdle': 'Multiball.stop() while no shoot again is running posts multiball_X_shoot_again_ended and registers the drain '
                'counter, so a multiball that is not running posts multiball_X_ended on a later drain',
    'EndedDoubleCount': 'Multiball._ball_drain_count_balls runs after Game.ball_drained and subtracts the drained balls from '
                        'balls_in_play a second time: multiball_X_ended posted (and the multiball restartable) while several '
                        'balls are still in play',
}


def B(i, active=0, grace=0, hurry=0, bts=1, tse=False, olb=False, delayed=False, auto=True, known=4):
    return dict(id=i, kind='bs', active=active, grace=grace, hurry=hurry, bts=bts, tse=tse, olb=olb, delayed=delayed, auto=auto,
                count=1, ctype='add', sa=0, mgrace=0, mhurry=0, aab=0, known=known)


def M(i, count, ctype='total', sa=0, mgrace=0, mhurry=0, aab=0, known=8):
    return dict(id=i, kind='mb', active=0, grace=0, hurry=0, bts=1, tse=False, olb=False, delayed=False, auto=True,
                count=count, ctype=ctype, sa=sa, mgrace=mgrace, mhurry=mhurry, aab=aab, known=known)


TABLE = [
    B(1, active=3, grace=1, hurry=1, bts=1),
    B(2, active=2, grace=0, hurry=0, bts=2),            # all three delays due at the same instant
    B(3, active=0, bts=-1, auto=False),                 # no timer, unlimited saves, player controlled
    B(4, active=3, grace=2, hurry=0, bts=2, tse=True),
    B(5, active=2, grace=1, hurry=1, bts=-1, olb=True),
    B(6, active=3, grace=0, hurry=1, bts=3, delayed=True),
    B(7, active=0, bts=1, olb=True, tse=True),
    M(8, 2, 'total', sa=3, mgrace=1, mhurry=1, aab=2),
    M(9, 2, 'add', sa=0, aab=0),
    M(10, 3, 'total', sa=-1, aab=2),
    M(11, 4, 'total', sa=2, aab=0),
    M(12, 1, 'add', sa=2, mgrace=2, mhurry=0, aab=1),
]
BY_ID = {c['id']: c for c in TABLE}
MC_IDS_QUICK = (1, 2, 4, 5, 6, 8, 9, 11, 12)


def cfg_rec(c):
    return {k: c[k] for k in KEYS}


def write_machine(scratch):
    d = os.path.join(scratch, 'machines', 'ballsave')
    os.makedirs(d + '/config', exist_ok=True)
    L = ['#config_version=6', 'game:', '  balls_per_game: 3', 'ball_saves:']
    for c in TABLE:
        if c['kind'] != 'bs':
            continue
        n = 'bs%d' % c['id']
        L += ['  %s:' % n, '    active_time: %ds' % c['active'], '    grace_period: %ds' % c['grace'],
              '    hurry_up_time: %ds' % c['hurry'], '    balls_to_save: %d' % c['bts'],
              '    only_last_ball: %s' % ('true' if c['olb'] else 'false'),
              '    auto_launch: %s' % ('true' if c['auto'] else 'false'),
              '    enable_events: %s_enable' % n, '    disable_events: %s_disable, ball_will_end' % n,
              '    early_ball_save_events: %s_early' % n]
        if c['tse']:
            L.append('    timer_start_events: %s_timer_start' % n)
        if c['delayed']:
            L.append('    delayed_eject_events: %s_eject' % n)
    L.append('multiballs:')
    for c in TABLE:
        if c['kind'] != 'mb':
            continue
        n = 'mb%d' % c['id']
        L += ['  %s:' % n, '    ball_count: %d' % c['count'], '    ball_count_type: %s' % c['ctype'],
              '    shoot_again: %d' % (c['sa'] * UNIT_MS if c['sa'] > 0 else c['sa']),
              '    grace_period: %d' % (c['mgrace'] * UNIT_MS), '    hurry_up_time: %d' % (c['mhurry'] * UNIT_MS),
              '    add_a_ball_shoot_again: %d' % (c['aab'] * UNIT_MS),
              '    enable_events: %s_enable' % n, '    disable_events: %s_disable' % n, '    reset_events: %s_reset' % n,
              '    start_events: %s_start' % n, '    stop_events: %s_stop' % n, '    add_a_ball_events: %s_add' % n,
              '    start_or_add_a_ball_events: %s_soa' % n]
    with open(d + '/config/config.yaml', 'w') as f:
        f.write('\n'.join(L) + '\n')
    return d


def mc_module(name, base):
    def cs(ids):
        return '{%s}' % ',\n   '.join(to_tla(cfg_rec(BY_ID[i])) for i in ids)
    return """----------------------------- MODULE %s -----------------------------
EXTENDS %s
MCConfigsQ == %s
MCConfigsAll == %s
=============================================================================
""" % (name, base, cs(MC_IDS_QUICK), cs([c['id'] for c in TABLE]))


CFG = """SPECIFICATION %(spec)s
CONSTANTS
  Configs <- %(configs)s
  Deviations = {%(dev)s}
  MaxTime = %(mt)d
  MaxOps = %(ops)d
  MaxDrain = %(md)d
  MaxBip = %(mb)d
%(props)sCHECK_DEADLOCK FALSE
"""
INVS = ['TypeOK', 'Conservation', 'BsTimers', 'MbShape']
PROPS = ['BipExact', 'InactiveInert', 'SaveBudget', 'AddsCarryLaunchMode', 'BsEvents', 'MbStartExact', 'ShootAgainReturnsAll',
         'MbEvents', 'MbEndedExact']


def cfg_text(spec='Spec', configs='MCConfigsQ', dev=(), mt=4, ops=4, md=2, mb=3, props=True):
    p = ''
    if props:
        p = ''.join('INVARIANT %s\n' % i for i in INVS) + ''.join('PROPERTY %s\n' % i for i in PROPS)
    return CFG % dict(spec=spec, configs=configs, dev=', '.join('"%s"' % d for d in dev), mt=mt, ops=ops, md=md, mb=mb, props=p)


def trace_cfg(dev=()):
    return CFG % dict(spec='TSpec', configs='TConfigs', dev=', '.join('"%s"' % d for d in dev), mt=10 ** 6, ops=10 ** 6,
                      md=8, mb=8, props='INVARIANT Reporter\n')


# ---- execution on the real devices ---------------------------------------------------------------------------------

BS_EVENTS = {'enabled': 'bs_enabled', 'disabled': 'bs_disabled', 'timer_start': 'bs_timer_start', 'hurry_up': 'bs_hurry_up',
             'grace_period': 'bs_grace_period', 'saving_ball': 'bs_saving'}
MB_EVENTS = {'started': 'mb_started', 'shoot_again': 'mb_shoot_again', 'shoot_again_ended': 'mb_sa_ended', 'ended': 'mb_ended',
             'hurry_up': 'mb_hurry_up', 'grace_period': 'mb_grace_period'}
_W = {}


class Run:
    def __init__(self, mdir, c):
        self.c = c
        self.h = harness.boot(None, machine_dir=mdir, fake_game=True)
        self.m = self.h.machine
        self.out = []
        self.adds = []
        self.res = [0]
        self.snap = [None]      # observations at the moment the ball starts to end (the drain which ended it is the last line)
        self.dbip = [None]
        self.name = ('bs%d' if c['kind'] == 'bs' else 'mb%d') % c['id']
        self.dev = (self.m.ball_saves if c['kind'] == 'bs' else self.m.multiballs)[self.name]
        ev = self.m.events
        if c['kind'] == 'bs':
            for suffix, short in BS_EVENTS.items():
                ev.add_handler('ball_save_%s_%s' % (self.name, suffix), self._mk(short))
        else:
            for suffix, short in MB_EVENTS.items():
                ev.add_handler('multiball_%s_%s' % (self.name, suffix), self._mk(short))
        ev.add_handler('ball_drain', self._after_drain, priority=-100000)
        ev.add_handler('ball_will_end', self._will_end, priority=1000000)

    def _mk(self, short):
        def hnd(**kwargs):
            if self.snap[0] is not None:
                return
            n = kwargs.get('balls', 0)
            self.out.append([short, int(n) if isinstance(n, int) else 0, 1 if kwargs.get('early_save') else 0])
        return hnd

    def _after_drain(self, **kwargs):
        g = self.m.game
        self.dbip[0] = int(g.balls_in_play) if g else 0

    def _will_end(self, **kwargs):
        if self.snap[0] is None:
            self.snap[0] = self.state()

    def _add_ball(self, balls=1, source_device=None, player_controlled=False, **kwargs):
        del source_device, kwargs
        if self.snap[0] is not None or balls <= 0:
            return
        self.adds.append([int(balls), 1 if player_controlled else 0])

    def state(self):
        g = self.m.game
        st = {'bip': int(g.balls_in_play) if g else 0, 'ben': False, 'rem': 0, 'bts': False, 'men': False, 'tgt': 0, 'sa': False}
        d = self.dev
        if self.c['kind'] == 'bs':
            st.update(ben=bool(d.enabled), rem=int(d.saves_remaining), bts=bool(d.timer_started))
        else:
            st.update(men=bool(d.enabled), tgt=int(d.balls_live_target), sa=bool(d.shoot_again))
        return st

    def settle(self):
        for _ in range(4):
            self.h.advance_time_and_run(0)

    def line(self, op, **kw):
        rec = {'op': op}
        rec.update(kw)
        over = self.snap[0] is not None
        rec.update(self.snap[0] if over else self.state())
        if op == 'drain' and self.dbip[0] is not None:
            rec['bip'] = self.dbip[0]
        rec.update(out=list(self.out), adds=list(self.adds), res=int(self.res[0]))
        del self.out[:]
        del self.adds[:]
        self.res[0] = 0
        self.dbip[0] = None
        return rec, over

    def start(self):
        self.h.start_game(num_balls_known=self.c['known'])
        self.m.playfield.add_ball = self._add_ball
        self.settle()
        if self.m.game is None or self.m.game.balls_in_play != 1:
            raise RuntimeError('game did not start')
        del self.out[:]
        del self.adds[:]

    def _drained(self, balls=0, **kwargs):
        del kwargs
        self.res[0] = int(balls)

    def step(self, s):
        op = s['op']
        kw = {}
        if op == 'adv':
            self.h.advance_time_and_run(UNIT_MS * (1 + EPS) / 1000.0)
        elif op == 'drain':
            kw['n'] = int(s['n'])
            self.m.events.post_relay('ball_drain', balls=int(s['n']), callback=self._drained)
        elif op == 'extra':
            self.m.game.balls_in_play += 1
        elif op.startswith('bs_') or op.startswith('mb_'):
            self.m.events.post('%s_%s' % (self.name, op[3:]))
        else:
            raise ValueError(op)
        self.settle()
        return self.line(op, **kw)

    def run(self, sched):
        self.start()
        ev = [self.line('obs')[0]]
        for s in sched:
            if s['op'] == 'init':
                continue
            rec, over = self.step(s)
            ev.append(rec)
            if over:
                break
        return ev


def exec_schedule(job):
    mdir, cid, sched = job
    c = BY_ID[cid]
    r = None
    try:
        r = Run(mdir, c)
        ev = r.run(sched)
        return {'cfg': cfg_rec(c), 'ev': ev}
    except BaseException as ex:  # pylint: disable=broad-except
        import traceback
        return {'cfg': cfg_rec(c), 'ev': [{'op': 'crash', 'what': repr(ex)[:300]}], '_tb': traceback.format_exc()[-2000:]}
    finally:
        if r is not None:
            harness.shutdown(r.h)


def O(op, n=None):
    return {'op': op} if n is None else {'op': op, 'n': n}


def handmade():
    A, D1, D2 = O('adv'), O('drain', 1), O('drain', 2)
    en, dis, early, ts, ej, x = O('bs_enable'), O('bs_disable'), O('bs_early'), O('bs_timer_start'), O('bs_eject'), O('extra')
    me, md, mr, st, sp, add, soa = (O('mb_enable'), O('mb_disable'), O('mb_reset'), O('mb_start'), O('mb_stop'), O('mb_add'),
                                    O('mb_soa'))
    return [
        # ball save: whole window without a drain; drain in the grace period; drain after it
        (1, [en, A, A, A, A, A, D1]),
        (1, [en, A, A, A, D1, A, D1]),
        (1, [en, D1, en, A, D1, dis, dis, D1]),
        (2, [en, x, D2, D1]), (2, [en, x, x, O('drain', 3)]), (2, [en, A, A, D1]),
        (3, [D1]), (3, [en, x, D2, D1, A, A, D2, dis, D1, D1]),
        (4, [en, A, A, A, A, ts, ts, A, A, A, A, D1, A, D1]), (4, [ts, en, D1, ts, D1, D1]),
        (5, [en, x, D1, D1, D1, A, A, A, D1]), (5, [en, x, D2]), (5, [en, x, early, D1, early, D1]),
        (6, [en, D1, ej, D1, ej, ej, D1, A, A, A, ej]), (6, [en, x, D2, ej, D2, ej, D1, ej]), (6, [en, early, dis, D1, ej, D1]),
        (7, [en, ts, x, D1, D1, D1]),
        # early save: the drained ball is taken out of the count once, also after the save has gone
        (1, [en, early, early, D1, D1]), (2, [en, early, D1, early, A, A, D1, D1]), (3, [en, early, x, D2, early, dis, D1, D1, D1]),
        # early save, save used up, enabled again before the early saved ball drains
        (1, [en, early, en, D1, D1, D1]), (1, [en, early, en, early, D1, D1, D1]),
        # multiball: start, shoot again, end
        (8, [st, me, st, st, D1, A, A, A, A, D1, D1]),
        (8, [me, st, A, sp, A, A, A, D1, D1]),                  # stop before the timers are due
        (8, [me, st, sp, D1, st, A, A, D1, A, A, D1]),          # ... and a new start inside the old window
        (8, [me, sp, D1]), (8, [me, st, A, A, A, A, sp, sp, D1, D1]),
        (8, [me, st, A, A, A, A, add, D1, A, A, D1, D1, D1]), (8, [me, st, add, D1, mr, D1, add, A, A, A, A, D1, D1]),
        (8, [me, st, md, st, D2, A, A, A, A, D2]),
        (9, [me, st, D1, D1, st, D2, D1]), (9, [me, soa, soa, D1, D1, D1, D1]),
        (10, [me, st, D2, O('drain', 3), sp, D1, D1, add, D1, A, A, D1, D1]), (10, [me, st, mr, D1, me, st, sp, D2]),
        (11, [me, st, A, A, D2, D1, D1]), (11, [me, st, A, A, O('drain', 3), st, D1]), (11, [me, st, D2, A, A, D1, D2]),
        (12, [me, st, A, A, A, A, D1, st, A, sp, A, A, A, A, D1]), (12, [me, st, st, add, A, A, A, A, add, D1, A, D1, D1, D1]),
    ]


def _compact(sched):
    return ' '.join(s['op'] + ('%d' % s['n'] if 'n' in s else '') for s in sched if s['op'] != 'init')


def run(ctx):
    mdir = write_machine(ctx.scratch)
    wd = tlc.prepare(ctx.scratch, 'BallSave', 'ballsave')
    for name, base in (('BallSaveMC', 'BallSave'), ('BallSaveGenMC', 'BallSaveGen')):
        with open(wd + '/%s.tla' % name, 'w') as f:
            f.write(mc_module(name, base))
    # 1. the statement holds in the reference model (Deviations = {}), and the interesting actions are reachable
    kw = dict(mt=4, ops=4, md=2, mb=3) if ctx.quick else dict(configs='MCConfigsAll', mt=7, ops=7, md=3, mb=4)
    with open(wd + '/MC.cfg', 'w') as f:
        f.write(cfg_text(**kw))
    r = tlc.expect_ok(tlc.check(wd, 'BallSaveMC', 'MC.cfg', timeout=1500, coverage=True), 'BallSave design check')
    ctx.add_tlc('BallSaveMC (Deviations = {})', r, kw)
    cov = r.coverage()
    missing = [a for a in ('BsEnableA', 'BsDisableA', 'BsTimerA', 'BsEarlyA', 'BsEjectA', 'MbStartA', 'MbStopA', 'MbAddA',
                           'MbSoaA', 'MbResetA', 'Extra', 'Drain', 'Adv') if cov and cov.get(a, (0, 0))[0] == 0]
    if missing:
        raise tlc.TLCError('actions never taken in the model check: %s' % missing)
    ctx.coverage['action_coverage'] = {k: v[0] for k, v in cov.items()}
    ctx.coverage['monitors'] += INVS + PROPS + ['trace: events in order, add_ball requests, relay result, balls_in_play, '
                                                'enabled / saves_remaining / timer_started / balls_live_target / shoot_again']
    # 2. the model of the code as it is (all deviations) is well-formed too (type and conservation only where it can hold)
    if not ctx.quick:
        with open(wd + '/MCdev.cfg', 'w') as f:
            f.write(CFG % dict(spec='Spec', configs='MCConfigsAll', dev=', '.join('"%s"' % d for d in DEVIATIONS), mt=4, ops=4, md=2,
                               mb=3, props='INVARIANT TypeOK\n'))
        r = tlc.expect_ok(tlc.check(wd, 'BallSaveMC', 'MCdev.cfg', timeout=900), 'BallSave code-as-is model')
        ctx.add_tlc('BallSaveMC (all deviations, TypeOK)', r)
    # 3. schedules
    with open(wd + '/Gen.cfg', 'w') as f:
        f.write(cfg_text(spec='GSpec', configs='MCConfigsAll', dev=DEVIATIONS, mt=12, ops=14, md=3, mb=4, props=False))
    behs, _ = tlc.simulate(wd, 'BallSaveGenMC', 'Gen.cfg', num=240 if ctx.quick else 5000, depth=44 if ctx.quick else 60,
                           seed=ctx.seed, timeout=900)
    jobs = [(mdir, cid, s) for cid, s in handmade()]
    nh = len(jobs)
    for b in behs:
        sched = [s['act'] for s in b if s.get('pick', 0) == 0 and s['act']['op'] != 'init']
        # consecutive duplicates come from the Draw step (act unchanged): a state with pick = 0 follows each Act
        jobs.append((mdir, b[0]['cfg']['id'], sched))
    ctx.log('%d schedules (%d hand-written)' % (len(jobs), nh))
    traces = harness.pmap(exec_schedule, jobs, chunk=8, item_timeout=120)
    crashed = [i for i, t in enumerate(traces) if any(e['op'] == 'crash' for e in t['ev'])]
    for i in crashed:
        what = [e for e in traces[i]['ev'] if e['op'] == 'crash'][0]['what']
        if traces[i].get('_harness'):
            raise tlc.TLCError('harness failure: %s' % what)
        ctx.violation('X04:crash:%s' % what.split('(')[0], 'execution crashed: %s [cfg %d: %s]' % (what, jobs[i][1], _compact(jobs[i][2])),
                      {'cid': jobs[i][1], 'sched': jobs[i][2], 'trace': traces[i], 'tb': traces[i].get('_tb')})
    ok = [i for i in range(len(traces)) if i not in crashed]
    vtraces = [traces[i] for i in ok]
    ctx.coverage['lines'] = sum(len(t['ev']) for t in traces)
    ctx.sample({'kind': 'ballsave-trace', 'cfg': traces[0]['cfg'], 'schedule': _compact(jobs[0][2]), 'trace': traces[0]['ev'][:6]})
    # 4. every execution is a behaviour of the statement model; what is not must be explained by the named deviations
    with open(wd + '/Trace.cfg', 'w') as f:
        f.write(trace_cfg())
    v = tlc.validate_traces(wd, 'BallSaveTrace', 'Trace.cfg', vtraces, workers=8, diagnose=False)
    ctx.add_trace_verdict('BallSaveTrace (Deviations = {})', v, len(traces))
    left = sorted(v.rejected)
    used = {}

    def single(d):
        wdd = tlc.prepare(ctx.scratch, 'BallSave', 'ballsave_' + d)
        with open(wdd + '/TraceDev.cfg', 'w') as f:
            f.write(trace_cfg((d,)))
        return tlc.validate_traces(wdd, 'BallSaveTrace', 'TraceDev.cfg', [vtraces[i] for i in left], workers=3, diagnose=False)

    if left:
        # which single deviation explains a rejected execution (one TLC run per deviation, side by side)
        from concurrent.futures import ThreadPoolExecutor
        with ThreadPoolExecutor(len(DEVIATIONS)) as ex:
            res = list(ex.map(single, DEVIATIONS))
        explained = set()
        for d, v2 in zip(DEVIATIONS, res):
            ctx.add_trace_verdict('BallSaveTrace (Deviations = {%s})' % d, v2, 0)
            acc = [left[a] for a in sorted(v2.accepted) if left[a] not in explained]
            explained |= set(acc)
            if acc:
                used[d] = [ok[i] for i in acc]
        left = [i for i in left if i not in explained]
    final = None
    if left:
        with open(wd + '/TraceAll.cfg', 'w') as f:
            f.write(trace_cfg(DEVIATIONS))
        sub = [vtraces[i] for i in left]
        final = tlc.validate_traces(wd, 'BallSaveTrace', 'TraceAll.cfg', sub, workers=8, diagnose=False)
        ctx.add_trace_verdict('BallSaveTrace (all deviations)', final, 0)
        if final.accepted:
            used['several'] = [ok[left[a]] for a in sorted(final.accepted)]
        tlc.finish_diagnosis(wd, 'BallSaveTrace', 'TraceAll.cfg', sub, final)
        for a, info in sorted(final.rejected.items()):
            i = ok[left[a]]
            fe = info.get('failing_event') or {}
            ctx.violation('X04:%s:%s' % (traces[i]['cfg']['kind'], fe.get('op', '?')),
                          'execution not explained by the BallSave spec (all named deviations allowed) at line %s: %s (previous line '
                          '%s) [cfg %d: %s]' % (info.get('line'), fe, info.get('prev_event'), jobs[i][1], _compact(jobs[i][2])),
                          {'cid': jobs[i][1], 'sched': jobs[i][2], 'trace': traces[i], 'info': info})
    for d, ids in sorted(used.items()):
        ex = ids[0]
        ctx.notes.append('deviation %s needed by %d of %d executions; e.g. cfg %d: %s%s' % (
            d, len(ids), len(traces), jobs[ex][1], _compact(jobs[ex][2]), (' -- ' + DEV_WHAT[d]) if d in DEV_WHAT else ''))
        ctx.log(ctx.notes[-1][:260])
    ctx.coverage['deviations_used'] = {d: len(ids) for d, ids in used.items()}
    ctx.coverage['configs_exercised'] = sorted({j[1] for j in jobs})
    ctx.assumptions += [
        'running fake game (MpfFakeGameTestCase), one ball of one player; the execution stops with the drain that ends the ball',
        'playfield.add_ball replaced by a recorder (no ball devices); drains are ball_drain relay events; an extra live ball is '
        'game.balls_in_play += 1',
        'one device (ball save or multiball) is exercised per execution; the other devices of the machine config stay idle',
        'one abstract time unit = %d ms; device events are posted through the real event bus, time is virtual' % UNIT_MS]


def replay(ctx, data):
    d = data['replay']
    mdir = write_machine(ctx.scratch)
    tr = exec_schedule((mdir, d['cid'], d['sched']))
    print('schedule:', _compact(d['sched']))
    for e in tr['ev']:
        print(e)
    print(tr.get('_tb'))
