"""C13 — the repository's own tests as trace sources for delays: the life of every DelayManager the tests create (recorded
by lib/suite_rec.py: public calls with arguments, callbacks run with the kwargs received, pending sets, times) must be a
behaviour of Delays (DelaysSuiteTrace): fires at the promised time, once, with the stored arguments, never after removal."""
from lib import tlc

SUITE_CFG = """SPECIFICATION TSpec
CONSTANTS
  Names = {}
  Durs = {}
  Args = {}
  MaxTime = 0
  MaxOps = 0
INVARIANT Reporter
CHECK_DEADLOCK FALSE
"""


def suite_traces(ctx, modules=None):
    from lib import suite
    mods = modules or (suite.QUICK_MODULES if ctx.quick else suite.all_modules())
    segs, st = suite.record(ctx, mods, 'd')
    ctx.log('suite recorder (delay managers): %d modules, %d manager lives (%d distinct, %d lines), tainted %s' % (
        st.get('modules', 0), st.get('d:segments', 0), len(segs), sum(len(t['ev']) for t in segs),
        {k: v for k, v in st.items() if k.startswith('d:tainted')}))
    if not segs or st.get('d:segments', 0) < 100 * min(1, len(mods) // 10):
        raise tlc.TLCError('suite recorder produced no / too few delay traces: %s' % {k: v for k, v in st.items() if k != 'module_results'})
    wd = tlc.prepare(ctx.scratch, 'Delays', 'delays_suite')
    with open(wd + '/Suite.cfg', 'w') as f:
        f.write(SUITE_CFG)
    v = tlc.validate_traces(wd, 'DelaysSuiteTrace', 'Suite.cfg', segs, workers=8, batch=3000)
    ctx.add_trace_verdict('DelaysSuiteTrace (delay managers recorded from the repository tests)', v, len(segs))
    ctx.coverage['suite'] = {k: v2 for k, v2 in st.items() if k != 'module_results'}
    ctx.sample({'kind': 'suite-delay-manager', 'src': segs[0]['_src'], 'trace': segs[0]['ev'][:10]})
    if v.rejected:
        tlc.finish_diagnosis(wd, 'DelaysSuiteTrace', 'Suite.cfg', segs, v)
        for i, info in sorted(v.rejected.items()):
            fe = info.get('failing_event') or {}
            pe = info.get('prev_event') or {}
            ctx.violation('C13:suite:%s-after-%s' % (fe.get('op', 'end'), pe.get('op', 'start')),
                          'delay manager recorded from %s is not a behaviour of Delays at line %s: %s (prev %s)' % (
                              segs[i]['_src'], info.get('line'), fe, pe),
                          {'kind': 'suite', 'src': segs[i]['_src'], 'trace': dict(segs[i]), 'info': info})
    return len(segs)
