"""C07 — mode lifecycle is well-formed and leaves nothing behind (specs/Modes)."""
import random

from lib import tlc, harness

LEVEL = 'model_checking'
MODES = ['A', 'B', 'C', 'D', 'E', 'G']       # G is a game mode (a game is running throughout) with a shot and a persisting counter
PRIO = {'A': 100, 'B': 200, 'C': 100, 'D': 100, 'E': 50, 'G': 150}
NAMES = ['will_start', 'starting', 'started', 'will_stop', 'stopping', 'stopped']
_H = {}


def mc_cfg(maxops):
    return """SPECIFICATION LiveSpec
CONSTANTS
  Modes = {"A", "B", "D"}
  Prio <- MCPrio
  Auto <- MCAuto
  Deviations = {}
  MaxOps = %d
INVARIANT TypeOK
PROPERTY Progress
CHECK_DEADLOCK FALSE
""" % maxops


GEN_CFG = """SPECIFICATION Spec
CONSTANTS
  Modes = {"A", "B", "C", "D", "E", "G"}
  Prio <- FullPrio
  Auto <- FullAuto
  Deviations = {}
  MaxOps = 9
CHECK_DEADLOCK FALSE
"""


def _machine():
    if _H.get('dirty'):
        _H.pop('h', None)
        _H['dirty'] = False
    if 'h' not in _H:
        h = harness.boot('modes', fake_game=True)
        h.start_game()          # game modes need a game: one player, ball 1, nothing ever drains
        h.advance_time_and_run(1)
        _H['h'] = h
        _H['sink'] = [None]
        for m in MODES:
            for n in NAMES:
                h.machine.events.add_handler('mode_%s_%s' % (m, n), _mk(m, n), priority=100000)
            # a request made by event reaches the mode when the event is dispatched, not when it is posted:
            # it is logged by these handlers, which run right before the mode's own start/stop handler
            for kind in ('start', 'stop'):
                h.machine.events.add_handler('vm_%s_%s' % (kind, m), _mk_req(m, kind), priority=100000)
        # one warm-up cycle so that lazily created registrations are part of the baseline
        for m in ('A', 'B', 'C', 'D', 'G'):
            h.machine.events.post('vm_start_' + m)
        settle(h, 30)
        for m in ('A', 'B', 'C', 'D', 'G'):
            h.machine.events.post('vm_stop_' + m)
        settle(h, 30)
        h.machine.events.post('vm_stop_D')      # D restarted when A stopped
        settle(h, 30)
        h.advance_time_and_run(20)
        _H['baseline'] = None
    return _H['h']


def settle(h, n=12):
    for _ in range(n):
        h.advance_time_and_run(0)


def _nop(**kwargs):
    pass


def _mk(m, n):
    def hnd(queue=None, **kwargs):
        run = _H['sink'][0]
        if run is not None:
            run.on_event(m, n, queue)
    return hnd


def _mk_req(m, kind):
    def hnd(**kwargs):
        run = _H['sink'][0]
        if run is not None:
            rec = {'op': 'req', 'm': m, 'kind': kind}
            if kind == 'start':
                rec['alt'] = 'mode_priority' in kwargs
            run.ev.append(rec)
    return hnd


def digest(machine):
    """Everything the statement lists: event handlers, switch handlers, delays, mode bookkeeping."""
    out = []
    for ev, hs in machine.events.registered_handlers.items():
        for h in hs:
            cb = h.callback
            name = getattr(cb, '__qualname__', None) or getattr(getattr(cb, 'func', None), '__qualname__', repr(type(cb)))
            if name.startswith('_mk.') or name.startswith('_mk_req.'):
                continue
            owner = getattr(getattr(cb, '__self__', None), 'name', '')
            out.append(('ev', ev, name, str(owner), h.priority, str(h.condition), tuple(sorted(k for k in h.kwargs))))
    for sw, states in machine.switch_controller.registered_switches.items():
        for st, entries in enumerate(states):
            for e in entries:
                out.append(('sw', sw.name, st, e.ms, getattr(e.callback, '__qualname__', repr(type(e.callback)))))
    for sw, d in machine.switch_controller._active_timed_switches.items():
        out.append(('swt', sw.name, len(d)))
    for name, mode in machine.modes.items():
        out.append(('mode', name, len(mode.delay.delays), len(mode.mode_devices), len(mode.stop_methods)))
    out.append(('mdelay', len(machine.delay.delays), tuple(sorted(k for k in machine.delay.delays if not k.count('-') == 4))))
    # delays which config players keep on behalf of the modes' entries (event_player 'evt|2s', flasher_player ...)
    for attr in sorted(a for a in vars(machine) if a.endswith('_player')):
        dm = getattr(getattr(machine, attr), 'delay', None)
        if dm is not None and hasattr(dm, 'delays'):
            out.append(('pdelay', attr, len(dm.delays)))
    out.append(('rules', len(getattr(machine.default_platform, 'rules', {}) or {})))
    for coll in ('counters', 'timers'):
        for dev in getattr(machine, coll).values():
            out.append((coll, dev.name, len(dev.delay.delays) if getattr(dev, 'delay', None) else 0,
                        bool(getattr(dev, 'running', False))))
    return sorted(map(repr, out))


class ModeRun:
    def __init__(self, sched, via):
        self.h = _machine()
        self.m = self.h.machine
        self.sched = sched
        self.via = via          # 'event' | 'direct' | 'mixed'
        self.ev = []
        self.consumed = set()
        self.held = []
        self.rnd = random.Random(len(sched) * 7919 + hash(via) % 1000)

    def on_event(self, m, n, queue):
        self.ev.append({'op': 'ev', 'm': m, 'name': n})
        # requests scheduled right after this event in the schedule are issued from inside its handler
        for i, s in enumerate(self.sched):
            if i in self.consumed or s['op'] != 'ev' or s['m'] != m or s['name'] != n:
                continue
            self.consumed.add(i)
            j = i + 1
            while j < len(self.sched) and self.sched[j]['op'] == 'req':
                self.consumed.add(j)
                self.request(self.sched[j])
                j += 1
            break
        # hold some of the queue events for a while (released before rest)
        if queue is not None and n in ('starting', 'stopping') and self.rnd.random() < 0.3:
            queue.wait()
            self.held.append(queue)

    def request(self, s):
        m, kind = s['m'], s['kind']
        alt = bool(s.get('alt', False))
        rec = {'op': 'req', 'm': m, 'kind': kind}
        kw = {}
        if kind == 'start':
            rec['alt'] = alt
            if alt:     # a start that carries an explicit priority (configured priority + 7)
                kw['mode_priority'] = PRIO[m] + 7
        via = self.via if self.via != 'mixed' else self.rnd.choice(['event', 'direct'])
        if via == 'event':
            # logged when dispatched (see _mk_req).  Some starts come as queue events: modes B and C use_wait_queue and
            # hold such an event until they stop
            if kind == 'start' and (s.get('q') if s.get('q') is not None else self.rnd.random() < 0.4):
                self.m.events.post_queue('vm_%s_%s' % (kind, m), callback=_nop, **kw)
            else:
                self.m.events.post('vm_%s_%s' % (kind, m), **kw)
            return
        self.ev.append(rec)
        if kind == 'start':
            self.m.modes[m].start(**kw)
        else:
            self.m.modes[m].stop()

    def release(self):
        while self.held:
            q = self.held.pop(0)
            if q.waiter:
                q.clear()
            settle(self.h, 8)

    def rest(self):
        self.release()
        settle(self.h, 20)
        self.release()
        settle(self.h, 10)
        active = [x.name for x in self.m.mode_controller.active_modes]
        ours = [a for a in active if a in MODES]
        leak = -1
        if not ours:
            d = digest(self.m)
            if _H['baseline'] is None:
                _H['baseline'] = d
            base = _H['baseline']
            leak = len(set(d) ^ set(base)) + abs(len(d) - len(base))
            if leak:
                self.leak_detail = sorted(set(d) ^ set(base))[:6]
        self.ev.append({'op': 'rest', 'active': active, 'leak': leak,
                        'prio': {m: int(self.m.modes[m].priority) for m in MODES}})

    def run(self):
        _H['sink'][0] = self
        try:
            self.rest()     # establishes / checks the baseline with everything stopped
            for i, s in enumerate(self.sched):
                if i in self.consumed or s['op'] != 'req':
                    continue
                self.consumed.add(i)
                self.request(s)
                settle(self.h, 12)
                if self.rnd.random() < 0.4:
                    # exercise the modes' own handlers and timers a little while they run
                    for m in MODES:
                        self.m.events.post('vm_ping_%s_delayed' % m)
                        self.m.events.post('vm_cnt_on_%s' % m)
                        self.m.events.post('vm_pause_%s' % m)
                        self.m.events.post('vm_light_%s' % m)
                    # the game mode's shot: enabled twice in a row, hit, its counter hit
                    for e in ('vm_shot_on_G', 'vm_shot_on_G', 'vm_count_G'):
                        self.m.events.post(e)
                    self.m.switch_controller.process_switch('s_G', 1, logical=True)
                    self.m.switch_controller.process_switch('s_G', 0, logical=True)
                    self.h.advance_time_and_run(0.5)
                if self.rnd.random() < 0.5:
                    self.rest()
            self.rest()
            # stop everything (E restarts itself on its own stopped event: stop it directly twice is pointless,
            # so it is left to the reset below), then look for leftovers after all timers could have fired
            # trigger the modes' delayed handlers / control events shortly before everything is stopped: whatever a
            # mode scheduled on behalf of its devices must be gone as soon as it has stopped
            for m in MODES:
                if self.m.modes[m].active:
                    self.m.events.post('vm_ping_%s_delayed' % m)
                    self.m.events.post('vm_cnt_on_%s' % m)
                    self.m.events.post('vm_pause_%s' % m)
            if self.m.modes['G'].active:
                self.m.events.post('vm_shot_on_G')
                self.m.events.post('vm_shot_on_G')
            self.h.advance_time_and_run(0.1)
            for _ in range(4):      # repeatedly: stopping A starts D, held queue events delay a stop
                self.release()
                settle(self.h, 20)
                for m in MODES:
                    if self.m.modes[m].active and not self.m.modes[m].stopping:
                        self.request({'m': m, 'kind': 'stop'})
                        settle(self.h, 20)
            self.rest()
            self.h.advance_time_and_run(10)
            self.rest()
        finally:
            _H['sink'][0] = None
            self.reset()
        return self.ev

    def reset(self):
        """Every schedule gets a freshly booted machine (mode E restarts itself and cannot be parked)."""
        _H['dirty'] = True


def exec_schedule(job):
    sched, via = job
    try:
        r = ModeRun(sched, via)
        ev = r.run()
        return {'ev': ev, '_via': via, '_leak': getattr(r, 'leak_detail', None)}
    except BaseException as ex:  # pylint: disable=broad-except
        import traceback
        _H['dirty'] = True
        _H.get('sink', [None])[0] = None
        return {'ev': [{'op': 'crash', 'what': repr(ex)[:300]}], '_via': via, '_tb': traceback.format_exc()[-2000:]}


def handmade():
    S = lambda m, alt=False: {'op': 'req', 'm': m, 'kind': 'start', 'alt': alt}
    T = lambda m: {'op': 'req', 'm': m, 'kind': 'stop'}
    E = lambda m, n: {'op': 'ev', 'm': m, 'name': n}
    Q = lambda m, q: {'op': 'req', 'm': m, 'kind': 'start', 'alt': False, 'q': q}
    return [
        # a wait-queue mode started by a queue event, stopped, started by a plain event, stopped again (and the other way round)
        [Q('C', True), T('C'), Q('C', False), T('C'), Q('C', True), T('C')],
        [Q('B', False), T('B'), Q('B', True), T('B'), Q('B', False), T('B')],
        [S('A'), T('A')],
        # a rejected start must not change the priority of the running mode
        [S('A'), S('C'), S('A', True), S('C', True), T('A'), S('A', True), S('A')],
        # restart from the handler of the mode's own stopped event, then stop it again by event
        [S('C'), T('C'), E('C', 'stopped'), S('C'), T('C')],
        [S('A'), S('A'), S('B'), T('A'), T('A'), S('C'), T('B'), T('C')],
        # start while stopping, stop while starting
        [S('A'), T('A'), E('A', 'stopping'), S('A'), T('D')],
        [S('B'), E('B', 'starting'), T('B'), T('B')],
        [S('E'), T('E'), T('E')],
        [S('A'), S('C'), T('A'), T('D'), T('C')],
    ]


def run(ctx):
    wd = tlc.prepare(ctx.scratch, 'Modes', 'modes')
    with open(wd + '/MC.cfg', 'w') as f:
        f.write(mc_cfg(5 if ctx.quick else 7))
    r = tlc.check(wd, 'ModesMC', 'MC.cfg', timeout=1500)
    if 'Temporal properties were violated' in r.out or 'was violated' in r.out:
        r.ok = False
    tlc.expect_ok(r, 'Modes design check')
    ctx.add_tlc('ModesMC (safety + Progress under weak fairness)', r, {'Modes': 3, 'MaxOps': 5 if ctx.quick else 7})
    ctx.coverage['monitors'] += ['TypeOK (lifecycle grammar)', 'Progress', 'ActiveListExact+Sorted', 'ActivePriority', 'NothingLeft (leak = 0)']
    with open(wd + '/Gen.cfg', 'w') as f:
        f.write(GEN_CFG)
    behs, _ = tlc.simulate(wd, 'Modes', 'Gen.cfg', num=260 if ctx.quick else 4000, depth=40, seed=ctx.seed)
    rnd = random.Random(ctx.seed)
    jobs = [([s['act'] for s in b], rnd.choice(['event', 'direct', 'mixed'])) for b in behs]
    for s in handmade():
        jobs += [(s, 'event'), (s, 'direct')]
    traces = harness.pmap(exec_schedule, jobs, chunk=4, item_timeout=120)
    v = tlc.validate_traces(wd, 'ModesTrace', 'ModesTrace.cfg', traces)
    ctx.add_trace_verdict('ModesTrace', v, len(traces))
    ctx.sample({'kind': 'mode-trace', 'via': traces[0]['_via'], 'trace': traces[0]['ev'][:14]})
    rej = sorted(v.rejected)
    explained = set()
    if rej:
        with open(wd + '/TraceDev.cfg', 'w') as f:
            f.write(open(wd + '/ModesTrace.cfg').read().replace('Deviations = {}', 'Deviations = {"StopOvertakesStarted"}'))
        v2 = tlc.validate_traces(wd, 'ModesTrace', 'TraceDev.cfg', [traces[i] for i in rej], diagnose=False)
        ctx.add_trace_verdict('ModesTrace(Deviations={StopOvertakesStarted})', v2, 0)
        explained = {rej[k] for k in v2.accepted}
    for i in sorted(explained):
        ctx.violation('C07:order:will_stop-before-started', 'a stop requested by event between the end of the starting queue '
                      'event and the delivery of mode_<name>_started makes will_stop overtake started',
                      {'job': list(jobs[i]), 'trace': traces[i], 'info': v.rejected[i]})
    tlc.finish_diagnosis(wd, 'ModesTrace', 'ModesTrace.cfg', traces, v, skip=explained)
    for i, info in sorted(v.rejected.items()):
        if info.get('line') is None or i in explained:
            continue
        fe = info.get('failing_event') or {}
        pe = info.get('prev_event') or {}
        if fe.get('op') == 'rest' and fe.get('leak', 0) > 0:
            sig = 'C07:leftover-after-stop'
        elif fe.get('op') == 'rest':
            sig = 'C07:rest:pending-or-active-list'
        elif fe.get('op') == 'crash':
            sig = 'C07:crash:' + str(fe.get('what', '')).split('(')[0]
        else:
            sig = 'C07:%s:%s-after-%s' % (fe.get('op', 'end'), fe.get('name', fe.get('kind', '')), pe.get('name', pe.get('kind', pe.get('op', 'start'))))
        ctx.violation(sig, 'mode lifecycle execution (requests via %s) not explained by Modes spec at line %s: %s (prev %s) leak=%s' % (
            jobs[i][1], info.get('line'), fe, pe, traces[i].get('_leak')), {'job': list(jobs[i]), 'trace': traces[i], 'info': info})
    ctx.assumptions += ['non-game modes with counters (delayed enable control event), timers, event/light/coil players; game modes are exercised in C06/C11',
                        'registry digest: event handlers, switch handlers, timed switch entries, mode delays/devices/stop methods, '
                        'machine delays, device delays and running flags; compared with a baseline taken after one warm-up cycle']


def replay(ctx, data):
    d = data['replay']
    tr = exec_schedule(tuple(d['job']))
    print('replay trace:', tr['ev'], tr.get('_leak'), tr.get('_tb'))
