"""C10 — hardware switch-to-coil rules match the enabled devices exactly (specs/HwRules)."""
import os
import random

from lib import tlc, harness
from lib.tlaval import to_tla

LEVEL = 'model_checking'
U = 100                 # one model time unit in ms
EPS = 1e-6
REENABLE = 3            # timeout_disable_time in units
SEARCH_HOLD = 2         # ball_search_hold_time in units
EOS_LONG = 2            # eos_active_ms_before_repulse in units where it is configured (F5, F6)
EOS_DEFAULT = 5         # ... and where it is left at the config_spec default of 500 ms (F10, F11)
MAX_HITS = 2            # timeout_max_hits
BPG = 2                 # balls per game
assert EOS_DEFAULT * U == 500     # config_spec: flippers: eos_active_ms_before_repulse: single|ms|500
KEYS = ('id', 'kind', 'dual', 'eos', 'rep', 'eosl', 'tmo', 'delay', 'btn', 'eosw', 'main', 'hold', 'auto', 'swap')


def D(i, kind, btn, main, dual=False, eos=False, rep=False, tmo=False, delay=False, ev=False, auto=None, swap='', eosl=None):
    return dict(id=i, kind=kind, dual=dual, eos=eos, rep=rep, eosl=(eosl or EOS_LONG) if rep else 0, tmo=tmo, delay=delay, btn=btn, swap=swap,
                auto=(kind != 'kickback') if auto is None else auto,
                eosw=('s_%s_eos' % i.lower()) if eos else '', main=main,
                hold=('c_%s_hold' % i.lower()) if dual else '', ev=ev)


# one device per wiring variant; `ev`: control events are configured explicitly (defaults + own events),
# otherwise the device keeps the pure config_spec defaults and explicit requests are direct calls
DEVS = [
    D('F1', 'flipper', 's_left', 'c_f1_main'),                                   # C   (one coil, no EOS)
    D('F2', 'flipper', 's_left', 'c_f2_main', dual=True, ev=True),               # B+D (two coils, no EOS), shares the button
    D('F3', 'flipper', 's_f3', 'c_f3_main', eos=True, ev=True),                  # A+H (one coil, EOS)
    D('F4', 'flipper', 's_f4', 'c_f4_main', dual=True, eos=True),                # A+D+E (two coils, EOS)
    D('F5', 'flipper', 's_f5', 'c_f5_main', eos=True, rep=True, ev=True),        # one coil, EOS, software repulse
    D('F6', 'flipper', 's_f6', 'c_f6_main', dual=True, eos=True, rep=True),      # two coils, EOS, software repulse
    # two flippers on the same button and coil (normal / novice): one event disables the one and enables the other
    D('F7', 'flipper', 's_f7', 'c_f7_main', ev=True, swap='F8'),
    D('F8', 'flipper', 's_f7', 'c_f7_main', ev=True, auto=False, swap='F7'),
    # a flipper without activation switch: driven by sw_flip / sw_release events only, never has a rule
    D('F9', 'flipper', '', 'c_f9_main', ev=True),
    # software repulse with eos_active_ms_before_repulse left at its default (500 ms), one coil / two coils
    D('F10', 'flipper', 's_f10', 'c_f10_main', eos=True, rep=True, eosl=EOS_DEFAULT),
    D('F11', 'flipper', 's_f11', 'c_f11_main', dual=True, eos=True, rep=True, ev=True, eosl=EOS_DEFAULT),
    D('A1', 'autofire', 's_a1', 'c_a1'),
    D('A2', 'autofire', 's_a2', 'c_a2', tmo=True, ev=True),
    D('A3', 'autofire', 's_a3', 'c_a3', tmo=True, delay=True),
    D('K1', 'kickback', 's_k1', 'c_k1', tmo=True, ev=True),
]
DEV = {d['id']: d for d in DEVS}
IDS = [d['id'] for d in DEVS]
FLIPPERS = [d['id'] for d in DEVS if d['kind'] == 'flipper']
FCOILS = {c for d in DEVS if d['kind'] == 'flipper' for c in (d['main'], d['hold']) if c}


def dev_rec(d):
    return {k: d[k] for k in KEYS}


def write_machine(scratch):
    d = os.path.join(scratch, 'machines', 'rules')
    os.makedirs(d + '/config', exist_ok=True)
    L = ['#config_version=6', 'modes:', '  - tilt', '  - service', 'game:', '  balls_per_game: %d' % BPG,
         'switches:', '  s_tilt:', '    number:', '    tags: tilt', '  s_slam:', '    number:', '    tags: slam_tilt',
         '  s_service_enter:', '    number:', '    tags: service_enter',
         '  s_service_esc:', '    number:', '    tags: service_esc']
    sws, coils = [], []
    for x in DEVS:
        for s in (x['btn'], x['eosw']):
            if s and s not in sws:
                sws.append(s)
        if x['main'] not in [c for c, _ in coils]:
            coils.append((x['main'], x['kind'] == 'flipper' and not x['dual']))
        if x['hold']:
            coils.append((x['hold'], True))
    for s in sws:
        L += ['  %s:' % s, '    number:']
    L.append('coils:')
    for c, holdable in coils:
        L += ['  %s:' % c, '    number:', '    default_pulse_ms: 20']
        if holdable:
            L.append('    default_hold_power: %s' % ('0.25' if c.endswith('main') else '1.0'))
    sec = {'flipper': ['flippers:'], 'autofire': ['autofire_coils:'], 'kickback': ['kickbacks:']}
    for x in DEVS:
        n = x['id']
        S = sec[x['kind']]
        S.append('  %s:' % n)
        if x['kind'] == 'flipper':
            S += ['    main_coil: %s' % x['main']] + (['    activation_switch: %s' % x['btn']] if x['btn'] else []) + [
                  '    include_in_ball_search: true',
                  '    ball_search_hold_time: %dms' % (SEARCH_HOLD * U)]
            if x['dual']:
                S.append('    hold_coil: %s' % x['hold'])
            if x['eos']:
                S += ['    eos_switch: %s' % x['eosw'], '    use_eos: true']
            if x['rep']:
                S.append('    repulse_on_eos_open: true')
                if x['eosl'] != EOS_DEFAULT:
                    S.append('    eos_active_ms_before_repulse: %dms' % (x['eosl'] * U))
            # software flips are always possible through events
            S += ['    sw_flip_events: %s_flip' % n, '    sw_release_events: %s_release' % n]
        else:
            S += ['    coil: %s' % x['main'], '    switch: %s' % x['btn']]
            if x['tmo']:
                # the window is half a unit: only hits within the same unit count together (see WATCH note in run())
                S += ['    timeout_watch_time: %dms' % (U // 2), '    timeout_max_hits: %d' % MAX_HITS,
                      '    timeout_disable_time: %dms' % (REENABLE * U)]
            if x['delay']:
                S.append('    coil_pulse_delay: 15ms')
        if x['ev']:
            sw_on = (', swap_%s_%s' % (x['swap'], n)) if x['swap'] else ''
            sw_off = (', swap_%s_%s' % (n, x['swap'])) if x['swap'] else ''
            if not x['auto']:
                S.append('    enable_events: %s_enable%s' % (n, sw_on))
            else:
                S.append('    enable_events: ball_started, %s_enable%s' % (n, sw_on))
            S.append('    disable_events: ball_will_end, service_mode_entered, %s_disable%s' % (n, sw_off))
    for k in ('flipper', 'autofire', 'kickback'):
        L += sec[k]
    with open(d + '/config/config.yaml', 'w') as f:
        f.write('\n'.join(L) + '\n')
    return d


# ------------------------------------------------------------------------------ recording at the platform interface
class RecDriver:
    """Wraps a platform driver object: records the software commands that reach the coil."""

    def __init__(self, inner, log, name):
        self._inner = inner
        self._log = log
        self._name = name

    def pulse(self, pulse_settings):
        self._log.append(('coil', self._name, 'pulse'))
        return self._inner.pulse(pulse_settings)

    def enable(self, pulse_settings, hold_settings):
        self._log.append(('coil', self._name, 'enable'))
        return self._inner.enable(pulse_settings, hold_settings)

    def timed_enable(self, pulse_settings, hold_settings):
        self._log.append(('coil', self._name, 'pulse'))
        return self._inner.timed_enable(pulse_settings, hold_settings)

    def disable(self):
        self._log.append(('coil', self._name, 'disable'))
        return self._inner.disable()

    def __getattr__(self, item):
        return getattr(self._inner, item)


SET_METHODS = {     # platform method -> number of switch arguments before the coil
    'set_pulse_on_hit_rule': 1, 'set_pulse_on_hit_and_release_rule': 1, 'set_pulse_on_hit_and_enable_and_release_rule': 1,
    'set_pulse_on_hit_and_release_and_disable_rule': 2, 'set_pulse_on_hit_and_enable_and_release_and_disable_rule': 2,
    'set_delayed_pulse_on_hit_rule': 1,
}


class Recorder:
    """Records every set_*_rule / clear_hw_rule that reaches the platform (with the table state before the call) and
    every coil command; gives the virtual platform the delayed-pulse rule real controllers have."""

    def __init__(self, h):
        self.h = h
        m = self.m = h.machine
        self.p = m.default_platform
        self.log = []
        self.swname = {sw.hw_switch: sw.name for sw in m.switches.values()}
        self.on = {}
        for coil in m.coils.values():
            coil.hw_driver = RecDriver(coil.hw_driver, self.log, coil.name)
        for name, nsw in SET_METHODS.items():
            setattr(self.p, name, self._mk_set(name, nsw, getattr(self.p, name)))
        orig_clear = self.p.clear_hw_rule

        def clear(switch, coil):
            key = (switch.hw_switch, coil.hw_driver)
            self.log.append(('clear', self.swname[switch.hw_switch], coil.hw_driver._name, key in self.p.rules))
            return orig_clear(switch, coil)
        self.p.clear_hw_rule = clear

    def _mk_set(self, name, nsw, orig):
        kind = name[4:-5]

        def setrule(*args):
            sws, coil = args[:nsw], args[nsw]
            for s in sws:
                self.log.append(('set', self.swname[s.hw_switch], coil.hw_driver._name, kind, (s.hw_switch, coil.hw_driver) in self.p.rules))
            if name == 'set_delayed_pulse_on_hit_rule':
                # VirtualHardwarePlatform has no delayed rule; same table discipline as its other rules
                self.p._assert_rule_does_not_exist(sws[0].hw_switch, coil.hw_driver)
                self.p.rules[(sws[0].hw_switch, coil.hw_driver)] = kind
                return None
            return orig(*args)
        return setrule

    def table(self):
        return sorted([self.swname[s], c._name, k] for (s, c), k in self.p.rules.items())

    def take(self):
        """Calls since the last take (per table key), the coils left energised by software commands and the flipper
        coils software has pulsed since the last take."""
        calls = []
        self.pulsed = sorted({e[1] for e in self.log if e[0] == 'coil' and e[2] == 'pulse' and e[1] in FCOILS})
        for e in self.log:
            if e[0] == 'set':
                calls.append(['set', e[1], e[2], e[3], not e[4]])
            elif e[0] == 'clear':
                calls.append(['clear', e[1], e[2], '', bool(e[3])])
            elif e[2] == 'enable':
                self.on[e[1]] = True
            elif e[2] == 'disable':
                self.on[e[1]] = False
        del self.log[:]
        return calls, sorted(c for c, v in self.on.items() if v)

    def handlers(self):
        """Switch handlers belonging to rules: PSU notifications (switch, coil) and software EOS managers (count per coil)."""
        from mpf.core.platform_controller import SoftwareEosRepulseManager
        psu, mgr = [], {}
        for sw, states in self.m.switch_controller.registered_switches.items():
            for entries in states:
                for e in entries:
                    cb = e.callback
                    fn = getattr(cb, 'func', cb)
                    if getattr(fn, '__name__', '') == '_notify_psu_about_pulse':
                        psu.append([sw.name, cb.keywords['driver'].name])
                    owner = getattr(fn, '__self__', None)
                    if isinstance(owner, SoftwareEosRepulseManager):
                        c = owner.driver.hw_driver._name
                        mgr[c] = mgr.get(c, 0) + 1
        return sorted(psu), mgr


# ------------------------------------------------------------------------------ TLC inputs
def mc_module(dev_ids, configs, name='HwRulesMC'):
    dev = {i: dev_rec(DEV[i]) for i in dev_ids}
    cfgs = ',\n  '.join('[active |-> {%s}, holdS |-> %s, holdE |-> %s]' % (
        ', '.join('"%s"' % a for a in c['active']), to_tla(c['holdS']), to_tla(c['holdE'])) for c in configs)
    return """------------------------------ MODULE %s ------------------------------
EXTENDS HwRules
MCDev == %s
MCConfigs == {%s}
=============================================================================
""" % (name, to_tla(dev), cfgs)


INVS = ('INVARIANT TypeOK\nINVARIANT RulesExact\nINVARIANT InstallOnce\nINVARIANT HandlersExact\n'
        'INVARIANT SafeWhenNotInPlay\nINVARIANT NoCoilLeftOn\nINVARIANT NoStrayReenable\nINVARIANT NoSoftDriveLeft\n'
        'INVARIANT NoPulseWhenDisabled\n')
PROPS = 'PROPERTY ButtonDead\nPROPERTY TimeNeverEnergises\n'


def tlc_cfg(spec, maxops, maxtime, maxgames, invs=INVS, deviations=(), extra=''):
    return """SPECIFICATION %s
CONSTANTS
  Dev <- MCDev
  Configs <- MCConfigs
  BPG = %d
  ReEnable = %d
  SearchHold = %d
  MaxHits = %d
  MaxOps = %d
  MaxTime = %d
  MaxGames = %d
  Deviations = {%s}
%s%sCHECK_DEADLOCK FALSE
""" % (spec, BPG, REENABLE, SEARCH_HOLD, MAX_HITS, maxops, maxtime, maxgames,
       ', '.join('"%s"' % x for x in deviations), invs, extra)


def all_cfgs(actives):
    return [dict(active=a, holdS=hs, holdE=he) for a in actives for hs in (False, True) for he in (False, True)]


# ------------------------------------------------------------------------------ execution on the real machine
class Inapplicable(Exception):
    """The schedule (generated from the model) asks for a lifecycle step the real machine is not in a position to
    take: the execution has left the model before; the trace ends here and its prefix is judged."""


class Run:
    def __init__(self, mdir, cfg, sched, via, seed):
        self.h = h = harness.boot(None, machine_dir=mdir, fake_game=True)
        self.m = m = h.machine
        self.rec = Recorder(h)
        self.cfg = cfg
        self.sched = sched
        self.via = via
        self.rnd = random.Random(seed)
        self.ev = []
        self.held_start = None
        self.held_end = None
        self.skip_serves = 0
        m.playfield.add_ball = self._add_ball
        m.ball_controller.num_balls_known = 3
        m.events.add_handler('ball_starting', self._on_ball_starting, priority=50)
        m.events.add_handler('ball_ending', self._on_ball_ending, priority=50)
        self.search_cb = {cb.name: cb.callback for cb in m.playfield.ball_search.callbacks}
        self.dev = {}
        for coll in (m.flippers, m.autofire_coils, m.kickbacks):
            for k, d in coll.items():
                self.dev[k] = d

    # -- harness side of the fake game (no ball devices): the ball appears on the playfield when it is served
    def _add_ball(self, **kwargs):
        if self.skip_serves:
            self.skip_serves -= 1           # that ball ended the moment it started: it is never served
            return
        self.m.playfield.balls += 1
        self.m.playfield.available_balls += 1

    def _clear_playfield(self):
        self.m.playfield.balls = 0
        self.m.playfield.available_balls = 0

    def _on_ball_starting(self, queue, **kwargs):
        if self.cfg['holdS']:
            queue.wait()
            self.held_start = queue

    def _on_ball_ending(self, queue, **kwargs):
        if self.cfg['holdE']:
            queue.wait()
            self.held_end = queue

    def settle(self, n=12):
        for _ in range(n):
            self.h.advance_time_and_run(0)

    def sw(self, name, state):
        self.m.switch_controller.process_switch(name, state, logical=True)

    def tap(self, name):
        self.sw(name, 1)
        self.sw(name, 0)

    def observe(self, rec):
        m = self.m
        calls, on = self.rec.take()
        psu, mgr = self.rec.handlers()
        rec['en'] = {k: bool(self.dev[k]._enabled) for k in IDS}
        rec['rules'] = self.rec.table()
        rec['calls'] = [dict(op=c[0], sw=c[1], coil=c[2], kind=c[3], ok=c[4]) for c in calls]
        rec['on'] = on
        rec['pulsed'] = self.rec.pulsed
        rec['mgr'] = sorted(i for i in FLIPPERS if mgr.get(DEV[i]['main'], 0))
        rec['mgrok'] = all(v == 4 for v in mgr.values())
        rec['psu'] = psu
        rec['game'] = bool(m.game)
        rec['ball'] = int(m.game.player.ball) if m.game and m.game.player else 0
        rec['tilted'] = bool(m.game and m.game.tilted)
        self.ev.append(rec)

    def request(self, op, d):
        dev = self.dev[d]
        x = DEV[d]
        evname = {'enable': 'enable', 'disable': 'disable', 'flip': 'flip', 'release': 'release'}[op]
        by_event = (op in ('flip', 'release') or x['ev']) and (self.via == 'event' or (self.via == 'mixed' and self.rnd.random() < 0.5))
        if by_event:
            self.m.events.post('%s_%s' % (d, evname))
        else:
            {'enable': dev.enable, 'disable': dev.disable, 'flip': getattr(dev, 'sw_flip', None),
             'release': getattr(dev, 'sw_release', None)}[op]()

    def step(self, a):
        op = a['op']
        m = self.m
        rec = {'op': op}
        spins = 12
        tilt = m.modes['tilt']
        ok = {'start': lambda: not m.game and not m.service.is_in_service(), 'relstart': lambda: self.held_start is not None,
              'relend': lambda: self.held_end is not None,
              'drain': lambda: bool(m.game) and m.game.balls_in_play > 0, 'endgame': lambda: bool(m.game) and m.game.balls_in_play > 0,
              'tiltdrain': lambda: bool(m.game) and m.game.tilted and tilt._balls_to_collect > 0,
              'service': lambda: not m.service.is_in_service(), 'svcexit': m.service.is_in_service}.get(op)
        if ok is not None and not ok():
            raise Inapplicable(op)
        if op in ('enable', 'disable', 'flip', 'release'):
            rec['d'] = a['d']
            self.request(op, a['d'])
        elif op == 'swap':
            rec['a'], rec['b'] = a['a'], a['b']
            m.events.post('swap_%s_%s' % (a['a'], a['b']))
        elif op == 'search':
            rec['d'] = a['d']
            self.search_cb[a['d']](1, 1)
        elif op == 'hit':
            rec['d'] = a['d']
            rec['n'] = a['n']
            for _ in range(a['n']):
                self.tap(DEV[a['d']]['btn'])
                self.settle(4)
        elif op in ('btn', 'eos'):
            rec['d'] = a['d']
            rec['st'] = a['st']
            self.sw(DEV[a['d']]['btn' if op == 'btn' else 'eosw'], a['st'])
        elif op == 'adv':
            self.h.advance_time_and_run(U * (1 + EPS) / 1000.0)
        elif op == 'start':
            self.tap('s_start')
            spins = 60
        elif op == 'relstart':
            q, self.held_start = self.held_start, None
            q.clear()
            spins = 60
        elif op in ('drain', 'endgame'):
            self._clear_playfield()
            if op == 'drain':
                self.h.post_relay_event_with_params('ball_drain', balls=1)
            else:
                m.events.post('end_game')
            spins = 60
        elif op == 'relend':
            q, self.held_end = self.held_end, None
            q.clear()
            spins = 60
        elif op == 'tilt':
            if self.held_start is not None and m.game and not m.game.tilted:
                self.skip_serves = 1
            self.tap('s_tilt')
            spins = 40
        elif op == 'tiltdrain':
            n = m.modes['tilt']._balls_to_collect
            self._clear_playfield()
            # the tilted ball reaches the drain (there are no ball devices in the fake game to post this)
            m.modes['tilt']._tilted_ball_drain(new_balls=n, unclaimed_balls=n, device=None)
            spins = 60
        elif op == 'service':
            self._clear_playfield()
            self.held_start = self.held_end = None
            self.skip_serves = 0
            self.tap('s_service_enter')
            spins = 60
        elif op == 'svcexit':
            self.tap('s_service_esc')
            spins = 120
        else:
            raise ValueError(op)
        self.settle(spins)
        self.observe(rec)

    def run(self):
        try:
            for a in self.sched:
                if a['op'] != 'init':
                    self.step(a)
        except Inapplicable:
            self.truncated = True
        for _ in range(REENABLE + 2):
            self.step({'op': 'adv'})
        return self.ev


def exec_schedule(job):
    mdir, cfg, sched, via, seed = job
    r = None
    try:
        r = Run(mdir, cfg, sched, via, seed)
        ev = r.run()
        out = {'cfg': cfg, 'ev': ev, '_via': via, '_truncated': getattr(r, 'truncated', False)}
    except BaseException as ex:  # pylint: disable=broad-except
        import traceback
        ev = (r.ev if r else []) + [{'op': 'crash', 'what': repr(ex)[:300]}]
        out = {'cfg': cfg, 'ev': ev, '_via': via, '_tb': traceback.format_exc()[-2000:]}
    finally:
        if r is not None:
            harness.shutdown(r.h)
    return out


# ------------------------------------------------------------------------------ schedules
ACTIVE_SETS = [
    ['F1', 'F2', 'A2'], ['F3', 'F5', 'K1'], ['F4', 'F6', 'A3'], ['F5', 'A2'], ['F5', 'F6'], ['A1', 'A2', 'K1'],
    ['F1', 'A3'], ['F2', 'F5'], ['A2'], ['F5'], ['F7', 'F8'], ['F7', 'F8', 'A2'], ['F9'], ['F9', 'A2'],
    ['F10'], ['F11', 'A2'], ['F6', 'F10'],
]


def handmade():
    E = lambda d: {'op': 'enable', 'd': d}
    X = lambda d: {'op': 'disable', 'd': d}
    H = lambda d, n=2: {'op': 'hit', 'd': d, 'n': n}
    O = lambda op, **kw: dict(op=op, **kw)
    A = {'op': 'adv'}
    out = []
    for hs in (False, True):
        rs = [O('relstart')] if hs else []
        for he in (False, True):
            re_ = [O('relend')] if he else []
            for a in ('A2', 'A3'):
                c = dict(active=[a, 'F1'], holdS=hs, holdE=he)
                # timeout protection has removed the rule; the ball ends / tilt / service before the re-enable time
                out.append((c, [O('start')] + rs + [H(a), A, O('drain')] + [A] * 4))
                out.append((c, [O('start')] + rs + [H(a, 1), H(a, 1), O('tilt'), A, A, A, A, O('tiltdrain')] + re_ + [A]))
                out.append((c, [O('start')] + rs + [H(a), O('service'), A, A, A, A, O('svcexit'), A]))
                out.append((c, [O('start')] + rs + [H(a), X(a), A, A, A, A, E(a), H(a, 1), A, H(a), E(a), H(a, 1), A, A, A, A]))
                out.append((c, [O('start')] + rs + [H(a), O('endgame')] + re_ + [A] * 4))
            c = dict(active=['F1', 'F5', 'A2'], holdS=hs, holdE=he)
            if hs:
                # tilt while ball_starting is held: the ball must end as soon as it has started
                out.append((c, [O('start'), O('tilt'), A, O('relstart')] + re_ + [A, O('relstart'), A, O('drain')] + re_))
                out.append((c, [O('start'), O('relstart'), O('drain')] + re_ + [O('tilt'), O('relstart')] + re_ + [A]))
            # repeated enable / disable, software flips and ball search around the end of the ball
            out.append((c, [E('F1'), E('F1'), O('start')] + rs + [E('F1'), O('flip', d='F1'), O('search', d='F1'), O('drain')]
                        + re_ + [A, A, A, X('F1'), X('F1')]))
            out.append((c, [O('start')] + rs + [O('search', d='F5'), A, X('F5'), E('F5'), O('flip', d='F5'), A, A, O('tilt'),
                                                 O('tiltdrain')] + re_))
            # software EOS repulse, then the flipper is disabled while the button is still held
            rep = [O('btn', d='F5', st=1), O('eos', d='F5', st=1), A, A, O('eos', d='F5', st=0)]
            out.append((c, [O('start')] + rs + rep + [X('F5'), O('btn', d='F5', st=0), A]))
            out.append((c, [O('start')] + rs + rep + [O('drain')] + re_ + [A]))
            if he:
                # tilt while ball_ending is held
                out.append((c, [O('start')] + rs + [O('drain'), O('tilt'), O('relend')] + rs + [A, O('tilt'), O('drain'), O('relend')]))
    # normal / novice flippers on one button and coil, switched by one event each way
    for hs in (False, True):
        rs = [O('relstart')] if hs else []
        c = dict(active=['F7', 'F8'], holdS=hs, holdE=False)
        W = lambda a, b: O('swap', a=a, b=b)
        out.append((c, [O('start')] + rs + [W('F7', 'F8'), A, O('flip', d='F8'), W('F8', 'F7'), A, W('F7', 'F8'), O('drain'), A, A]))
        out.append((c, [O('start')] + rs + [O('flip', d='F7'), W('F7', 'F8'), O('release', d='F8'), W('F8', 'F7'), O('tilt'), A]))
    return out


# ---- EOS timelines of a flipper whose EOS repulse is emulated in software ---------------------------------------
# What a player and a ball do to one flipper: the button is pressed and held, the flipper reaches the end of its stroke
# (EOS closes), rests there for less / exactly / more than eos_active_ms_before_repulse, is knocked down (EOS opens: the
# software repulse energises the coil if the closure was long enough), comes up again ... for several cycles; THEN the
# flipper is disabled (disable request, ball end, end of game, tilt, service) with the button still held or released
# first, the dead button / EOS switch are worked, and the flipper comes back (enable request, next ball, next game) for
# another round.  The generator only composes actions of the model; what must be observed is decided by the model.
REPS = [d['id'] for d in DEVS if d['rep']]
ENDERS = ('disable', 'drain', 'endgame', 'tilt', 'service')
CLOSURES = ('bounce', 'short', 'long', 'longer')


class Timeline:
    def __init__(self, d, hs, he, rnd):
        self.d, self.hs, self.he, self.rnd = d, hs, he, rnd
        self.L = DEV[d]['eosl']
        self.btn = self.eos = 0
        self.ball = 0           # 0: no game
        self.over = False       # service mode was entered: no further game
        self.ops = []

    def o(self, op, **kw):
        self.ops.append(dict(op=op, **kw))

    def b(self, st):
        if self.btn != st:
            self.btn = st
            self.o('btn', d=self.d, st=st)

    def e(self, st):
        if self.eos != st:
            self.eos = st
            self.o('eos', d=self.d, st=st)

    def a(self, n=1):
        for _ in range(n):
            self.o('adv')

    def closure(self, kind):
        """The EOS switch closes and stays closed for ... (the timer is due after exactly L units)."""
        self.e(1)
        self.a({'bounce': 0, 'short': self.L - 1, 'long': self.L, 'longer': self.L + self.rnd.choice([1, 2])}[kind])

    def begin_ball(self):
        self.ball += 1
        if self.hs:
            self.o('relstart')

    def start(self):
        self.o('start')
        self.ball = 0
        self.begin_ball()

    def after_ball(self, last=False):
        if self.ball == BPG or last:
            self.ball = 0
        else:
            self.begin_ball()

    def probe(self):
        """Work the button and the EOS switch of the (supposedly dead) flipper through a whole repulse cycle."""
        self.b(1 - self.btn)
        self.a()
        self.b(1)
        self.closure('long')
        self.e(0)
        self.a()
        if self.rnd.random() < 0.5:
            self.b(0)

    def play(self, press, cycles, rest, release_first):
        if press == 'before':
            self.b(0)
            self.b(1)       # the (new) manager only knows a press it has seen
        elif press == 'held':
            self.b(1)       # ... a button held since before the flipper was enabled is not one
        for k, kind in enumerate(cycles):
            if kind == 'repress':       # the player lets go and presses again between two knocks
                self.b(0)
                self.a(self.rnd.choice([0, 1]))
                self.b(1)
                continue
            self.closure(kind)
            if press == 'closed' and k == 0:
                self.b(0)
                self.b(1)
            self.e(0)
            self.a(self.rnd.choice([0, 0, 1]))
        if rest:
            self.closure(rest)
        if release_first:
            self.b(0)

    def end(self, ender, probe=True):
        """Disable the flipper; returns True if it is live again afterwards without further request."""
        pr = self.probe if probe else (lambda: None)
        if ender == 'disable':
            self.o('disable', d=self.d)
            pr()
            return False
        if ender in ('drain', 'endgame'):
            self.o(ender)
            if self.he:
                pr()        # ball_will_end has disabled the devices, ball_ending is held
                self.o('relend')
            self.after_ball(last=ender == 'endgame')
            if not self.ball:
                pr()
        elif ender == 'tilt':
            self.o('tilt')
            pr()
            self.o('tiltdrain')
            if self.he:
                self.o('relend')
            self.after_ball()
        elif ender == 'service':
            self.o('service')
            self.ball = 0
            self.over = True
            pr()
            self.o('svcexit')
            self.a()
        return bool(self.ball)


def eos_timeline(rnd, d, hs, he, rounds):
    """rounds: [(press, cycles, rest, release_first, ender)], played one after the other on flipper d."""
    t = Timeline(d, hs, he, rnd)
    live = False
    for press, cycles, rest, release_first, ender in rounds:
        if t.over:
            break
        if not live:
            if press == 'held':
                t.b(1)                  # pressed while the flipper is dead and kept held: the new manager never sees it
            if not t.ball:
                t.start()
            else:
                t.o('enable', d=d)      # disabled by request with the ball still in play
        t.play(press, cycles, rest, release_first)
        live = t.end(ender)
    if live:
        t.end('endgame', probe=False)
    t.a()
    return dict(active=[d], holdS=hs, holdE=he), t.ops


def eos_timelines(rnd, n_random):
    out = []
    k = 0
    # every software-repulse flipper x every way of being disabled x where the EOS switch rests at that moment, after one
    # repulse, button held: always driven
    for d in REPS:
        for ender in ENDERS:
            for rest in (None, 'short', 'long'):
                hs, he = bool(k & 1), bool(k & 2)
                k += 1
                second = ('held' if k % 3 == 0 else 'before', ['long', rnd.choice(CLOSURES)], rnd.choice(CLOSURES), rnd.random() < 0.5,
                          rnd.choice(ENDERS))
                out.append(eos_timeline(rnd, d, hs, he, [('before', ['long'], rest, False, ender), second]))
    for _ in range(n_random):
        d = rnd.choice(REPS)
        rounds = [(rnd.choice(['before', 'before', 'closed', 'held']),
                   [rnd.choice(CLOSURES + ('repress',)) for _ in range(rnd.choice([1, 2, 2, 3, 4]))],
                   rnd.choice((None,) + CLOSURES), rnd.random() < 0.3, rnd.choice(ENDERS))
                  for _ in range(rnd.choice([1, 2, 3]))]
        out.append(eos_timeline(rnd, d, rnd.random() < 0.3, rnd.random() < 0.3, rounds))
    return out


def mutate(sched, rnd):
    """Time has to pass for timers to matter: sprinkle extra units of time over a generated schedule; a flipper that has
    reached the end of its stroke (EOS closed) often rests there for eos_active_ms_before_repulse."""
    out = []
    for a in sched:
        out.append(a)
        if a['op'] == 'eos' and a['st'] == 1 and rnd.random() < 0.5:
            out += [{'op': 'adv'}] * DEV[a['d']]['eosl']
        elif a['op'] != 'init' and rnd.random() < 0.22:
            out += [{'op': 'adv'}] * rnd.choice([1, 1, 2, 3])
    return out


MC_RUNS_QUICK = [(['F1', 'A2'], 4, 4, 1), (['F5'], 5, 4, 1), (['F2', 'K1'], 4, 3, 1), (['F6', 'A3'], 4, 2, 1), (['F7', 'F8'], 4, 3, 1), (['F9'], 4, 3, 1)]
MC_RUNS_THOROUGH = [(['F1', 'A2'], 5, 5, 2), (['F5'], 7, 5, 1), (['F2', 'K1'], 5, 4, 1), (['F6', 'A3'], 5, 3, 1),
                    (['F3', 'F4'], 5, 3, 1), (['F5', 'A2'], 5, 4, 1), (['A1', 'A3', 'K1'], 5, 4, 1), (['F7', 'F8'], 6, 4, 2),
                    (['F10'], 5, 7, 1), (['F11'], 4, 6, 1)]
MONITORS = ['RulesExact', 'InstallOnce', 'HandlersExact', 'SafeWhenNotInPlay', 'NoCoilLeftOn', 'NoStrayReenable', 'NoSoftDriveLeft',
            'NoPulseWhenDisabled', 'ButtonDead', 'TimeNeverEnergises']
DEVIATIONS = {
    'RepulseLeftOn': ('C10:flipper:repulse-coil-left-energised-after-disable',
                      'a flipper coil energised by the software EOS repulse (platform_controller.SoftwareEosRepulseManager) stays '
                      'energised when the flipper is disabled (ball end, tilt, service, disable event) with the button still held: '
                      'Flipper.disable() only releases coils when _sw_flipped, the manager that would switch the coil off on button '
                      'release is stopped by clear_hw_rule, and its stop() did not release the coil it had energised'),
    'TiltCarriesOver': ('C10:tilt-during-ball-ending:next-ball-live-while-tilted',
                        'a tilt while the ball_ending queue event is held sets game.tilted, which is not cleared when that ball '
                        'has ended: the next ball starts and all flipper/autofire rules are installed while game.tilted is set '
                        '(further tilts are ignored for that ball)'),
}


def run(ctx):
    mdir = write_machine(ctx.scratch)
    wd = tlc.prepare(ctx.scratch, 'HwRules', 'hwrules')
    # 1. design check: the model satisfies the statement for every interleaving within the bounds
    for k, (devs, maxops, maxtime, maxgames) in enumerate(MC_RUNS_QUICK if ctx.quick else MC_RUNS_THOROUGH):
        with open(wd + '/HwRulesMC.tla', 'w') as f:
            f.write(mc_module(devs, all_cfgs([devs])))
        with open(wd + '/MC.cfg', 'w') as f:
            f.write(tlc_cfg('Spec', maxops, maxtime, maxgames, extra=PROPS))
        r = tlc.expect_ok(tlc.check(wd, 'HwRulesMC', 'MC.cfg', workers=8, timeout=1500), 'HwRules design check %s' % devs)
        ctx.add_tlc('HwRulesMC %s' % '+'.join(devs), r, {'devices': devs, 'MaxOps': maxops, 'MaxTime': maxtime,
                                                        'MaxGames': maxgames, 'holdS x holdE': 4})
    ctx.coverage['monitors'] += MONITORS
    # 2. schedules: random walks of the model over the whole machine + hand-written ones
    with open(wd + '/HwRulesGen.tla', 'w') as f:
        f.write(mc_module(IDS, all_cfgs(ACTIVE_SETS), name='HwRulesGen'))
    with open(wd + '/Gen.cfg', 'w') as f:
        f.write(tlc_cfg('Spec', 40, 30, 2, invs=''))
    behs, _ = tlc.simulate(wd, 'HwRulesGen', 'Gen.cfg', num=280 if ctx.quick else 3000, depth=36 if ctx.quick else 50, seed=ctx.seed)
    rnd = random.Random(ctx.seed)
    jobs = []
    for b in behs:
        c = b[0]['cfg']
        cfg = dict(active=sorted(c['active']), holdS=bool(c['holdS']), holdE=bool(c['holdE']))
        jobs.append((mdir, cfg, mutate([s['act'] for s in b], rnd), rnd.choice(['event', 'direct', 'mixed']), rnd.randrange(1 << 30)))
    for cfg, sched in handmade():
        for via in ('event', 'direct'):
            jobs.append((mdir, cfg, sched, via, 1))
    for cfg, sched in eos_timelines(random.Random(ctx.seed * 7919 + 10), 50 if ctx.quick else 1200):
        jobs.append((mdir, cfg, sched, rnd.choice(['event', 'direct', 'mixed']), rnd.randrange(1 << 30)))
    traces = harness.pmap(exec_schedule, jobs, nproc=8, chunk=4, item_timeout=120)
    ctx.log('schedules executed: %d (%d steps, %d cut short after leaving the model)' % (
        len(traces), sum(len(t['ev']) for t in traces), sum(1 for t in traces if t.get('_truncated'))))
    # 3. validation against the model without deviations
    with open(wd + '/HwRulesTraceMC.tla', 'w') as f:
        f.write(mc_module(IDS, [], name='HwRulesTraceMC').replace('EXTENDS HwRules\n', 'EXTENDS HwRulesTrace\n'))
    with open(wd + '/Trace.cfg', 'w') as f:
        f.write(tlc_cfg('TSpec', 10 ** 6, 10 ** 6, 10 ** 6, invs=INVS + 'INVARIANT Reporter\n'))
    v = tlc.validate_traces(wd, 'HwRulesTraceMC', 'Trace.cfg', traces)
    ctx.add_trace_verdict('HwRulesTrace', v, len(traces))
    ctx.sample({'kind': 'hw-rules-trace', 'cfg': traces[0]['cfg'], 'via': traces[0]['_via'],
                'trace': [{k: x for k, x in e.items() if k in ('op', 'd', 'n', 'st', 'rules', 'on', 'tilted')} for e in traces[0]['ev'][:8]]})
    # 4. rejected traces: are they explained by a named code-as-is deviation?
    explained = {}
    rej = sorted(v.rejected)
    for devs in (['RepulseLeftOn'], ['TiltCarriesOver'], ['RepulseLeftOn', 'TiltCarriesOver']):
        todo = [i for i in rej if i not in explained]
        if not todo:
            break
        name = 'TraceDev_%s.cfg' % '_'.join(devs)
        with open(wd + '/' + name, 'w') as f:
            f.write(tlc_cfg('TSpec', 10 ** 6, 10 ** 6, 10 ** 6, invs='INVARIANT Reporter\n', deviations=devs))
        v2 = tlc.validate_traces(wd, 'HwRulesTraceMC', name, [traces[i] for i in todo], diagnose=False)
        ctx.add_trace_verdict('HwRulesTrace(Deviations={%s})' % ','.join(devs), v2, 0)
        for k in v2.accepted:
            explained[todo[k]] = devs
    for i, devs in sorted(explained.items()):
        for dv in devs:
            sig, what = DEVIATIONS[dv]
            ctx.violation(sig, what, {'job': list(jobs[i][1:]), 'trace': traces[i], 'info': v.rejected[i]})
    tlc.finish_diagnosis(wd, 'HwRulesTraceMC', 'Trace.cfg', traces, v, skip=set(explained))
    for i, info in sorted(v.rejected.items()):
        if i in explained or info.get('line') is None:
            continue
        fe = info.get('failing_event') or {}
        pe = info.get('prev_event') or {}
        sig = 'C10:%s:%s' % (fe.get('op', 'end'), classify(fe, pe))
        ctx.violation(sig, 'execution (requests via %s, cfg %s) not explained by HwRules spec at line %s: %s (prev %s) %s' % (
            jobs[i][3], jobs[i][1], info.get('line'), brief(fe), brief(pe), traces[i].get('_tb', '')),
            {'job': list(jobs[i][1:]), 'trace': traces[i], 'info': info})
    ctx.coverage['ops_executed'] = {}
    for t in traces:
        for e in t['ev']:
            ctx.coverage['ops_executed'][e['op']] = ctx.coverage['ops_executed'].get(e['op'], 0) + 1
    probe_watch_window(ctx, mdir)
    ctx.assumptions += [
        'virtual platform; its rule table (platform.rules) is the hardware; set_delayed_pulse_on_hit_rule is added to the '
        'platform object by the driver (the virtual platform lacks it) with the same table discipline',
        'fake-game harness (no ball devices): drain = ball_drain relay event; the tilted ball reaching the drain is delivered '
        'by calling Tilt._tilted_ball_drain; ball search = the callback each device registered with the playfield',
        'energised = last software command at the platform driver was enable (hardware-rule activations are not software)',
        'the autofire watch window is half a time unit, so that only hits at the same instant count together',
        'software EOS repulse: virtual platform only (no hardware_eos_repulse); switch changes arrive at unit boundaries, an '
        'EOS closure lasts a whole number of units (0 .. eosl+2; eosl = 2 units configured / 5 units = the 500 ms default)',
        'service mode entered while a tilt waits for balls, a tilt while the last ball is ending, and games after service '
        'mode are not driven (tilt-mode handlers left behind would block the next game: outside this property)',
    ]


def brief(e):
    return {k: x for k, x in e.items() if k not in ('psu',)} if e else e


def classify(fe, pe):
    """Name the statement-level symptom of a rejected step from its observation (for stable signatures)."""
    if fe.get('op') == 'crash':
        return 'exception'
    if any(not c['ok'] for c in fe.get('calls', [])):
        return 'install-or-clear-on-wrong-key'
    want = set()
    for i, on in fe.get('en', {}).items():
        if on:
            want |= rules_of(DEV[i])
    have = {tuple(r) for r in fe.get('rules', [])}
    if want != have:
        return 'rules-differ-from-enabled-devices'
    if not fe.get('game') or fe.get('tilted'):
        if any(fe['en'][i] for i in IDS if DEV[i]['kind'] != 'kickback') and fe.get('op') in (
                'adv', 'drain', 'tilt', 'service', 'relstart', 'relend', 'endgame', 'tiltdrain'):
            return 'enabled-while-not-in-play'
    if set(fe.get('mgr', [])) != {i for i in FLIPPERS if DEV[i]['rep'] and fe.get('en', {}).get(i)} or not fe.get('mgrok', True):
        return 'software-eos-handlers-differ-from-rules'
    if {tuple(x) for x in fe.get('psu', [])} != {(r[0], r[1]) for r in have if not r[0].endswith('_eos')}:
        return 'psu-handlers-differ-from-rules'
    for i in FLIPPERS:
        if not fe.get('en', {}).get(i, True) and ({DEV[i]['main'], DEV[i]['hold']} & set(fe.get('on', []))):
            return 'flipper-coil-energised-while-disabled'
    for i in FLIPPERS:
        if not fe.get('en', {}).get(i, True) and ({DEV[i]['main'], DEV[i]['hold']} & set(fe.get('pulsed', []))):
            return 'flipper-coil-pulsed-while-disabled'
    return 'model-mismatch'


def rules_of(x):
    k4 = 'pulse_on_hit_and_enable_and_release'
    if not x['btn']:
        return set()
    if x['kind'] != 'flipper':
        return {(x['btn'], x['main'], 'delayed_pulse_on_hit' if x['delay'] else 'pulse_on_hit')}
    out = set()
    if x['eos']:
        k = 'pulse_on_hit_and_release_and_disable' if x['dual'] else 'pulse_on_hit_and_enable_and_release_and_disable'
        out |= {(x['btn'], x['main'], k), (x['eosw'], x['main'], k)}
    else:
        out.add((x['btn'], x['main'], 'pulse_on_hit_and_release' if x['dual'] else k4))
    if x['dual']:
        out.add((x['btn'], x['hold'], k4))
    return out


def probe_watch_window(ctx, mdir):
    """Not part of the statement: does timeout protection count hits that are inside timeout_watch_time but not simultaneous?"""
    h = harness.boot(None, machine_dir=mdir, fake_game=True)
    try:
        a = h.machine.autofire_coils['A2']
        a._timeout_watch_time = None
        a.config['timeout_watch_time'] = 1000       # 1s, as configured by `timeout_watch_time: 1s`
        a._timeout_watch_time = a.config['timeout_watch_time'] / 1000       # what _initialize() computes
        a.enable()
        for _ in range(MAX_HITS):
            h.hit_and_release_switch('s_a2')
            h.advance_time_and_run(0.01)
        ctx.notes.append('autofire timeout window probe: timeout_watch_time=1s, max_hits=%d, %d hits 10 ms apart -> rule %s '
                         '(autofire.py: _initialize divides timeout_watch_time by 1000 and _hit divides by 1000.0 again, so the '
                         'effective window is timeout_watch_time/1000)' % (
                             MAX_HITS, MAX_HITS, 'still installed: hits were NOT counted together' if a._enabled else 'removed'))
    finally:
        harness.shutdown(h)


def replay(ctx, data):
    d = data['replay']
    mdir = write_machine(ctx.scratch)
    tr = exec_schedule((mdir,) + tuple(d['job']))
    for e in tr['ev']:
        print(brief(e))
    print(tr.get('_tb', ''))
