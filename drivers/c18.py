"""C18 — logic blocks count, accrue and sequence exactly as specified (specs/LogicBlocks)."""
import os

from lib import tlc, harness
from lib.tlaval import to_tla

LEVEL = 'model_checking'
NOGOAL = -99
EPS = 1e-6
KEYS = ('id', 'kind', 'dir', 'ival', 'start', 'goal', 'resetOC', 'disableOC', 'window', 'timeout', 'startEnabled', 'n', 'ev')


def C(i, kind, dir='up', ival=1, start=0, goal=NOGOAL, resetOC=True, disableOC=True, window=0, timeout=0,
      startEnabled=True, n=0, unit=100, ev=None):
    # ev: for a sequence the event (index) each step listens to; the same event may serve several steps
    return dict(id=i, kind=kind, dir=dir, ival=ival, start=start, goal=goal, resetOC=resetOC, disableOC=disableOC,
                window=window, timeout=timeout, startEnabled=startEnabled, n=n, unit=unit,
                ev=list(ev) if ev is not None else list(range(n)))


TABLE = [
    C(1, 'counter', goal=3),
    C(2, 'counter', goal=2, resetOC=False, disableOC=False),
    C(3, 'counter', dir='down', start=3, goal=0, resetOC=True, disableOC=False),
    C(4, 'counter', ival=2, goal=5, window=2, unit=50),
    C(5, 'counter', goal=3, timeout=3, resetOC=False, disableOC=False, unit=250),
    C(6, 'counter', startEnabled=False, goal=2, resetOC=False, disableOC=True, window=1, timeout=4, unit=20),
    C(7, 'counter'),
    C(8, 'counter', dir='down', ival=3, start=5, goal=-1, resetOC=False, disableOC=True),
    C(9, 'accrual', n=3),
    C(10, 'accrual', n=3, resetOC=False, disableOC=False, timeout=3),
    C(11, 'accrual', n=2, resetOC=True, disableOC=False, startEnabled=False),
    C(12, 'sequence', n=3),
    C(13, 'sequence', n=3, resetOC=False, disableOC=False, timeout=2, unit=500),
    C(14, 'sequence', n=2, resetOC=True, disableOC=False),
    C(15, 'counter', goal=2, window=3, timeout=2, resetOC=True, disableOC=False, unit=10),
    # sequences that list the same event for consecutive steps
    C(16, 'sequence', n=3, ev=[0, 0, 1]),
    C(17, 'sequence', n=4, ev=[0, 0, 0, 1], resetOC=True, disableOC=False),
    C(18, 'sequence', n=3, ev=[0, 1, 0], resetOC=False, disableOC=False),
    # count_interval written with the other sign: the direction decides which way the counter moves
    C(19, 'counter', dir='down', ival=-2, start=4, goal=0, resetOC=False, disableOC=True),
    C(20, 'counter', dir='up', ival=-1, goal=2, resetOC=True, disableOC=False),
    C(21, 'counter', dir='down', ival=-1, start=2, goal=0, window=2, unit=50),
]


def cfg_rec(c):
    return {k: c[k] for k in KEYS}


def write_machine(scratch):
    d = os.path.join(scratch, 'machines', 'logic')
    os.makedirs(d + '/config', exist_ok=True)
    os.makedirs(d + '/modes/lb/config', exist_ok=True)
    with open(d + '/config/config.yaml', 'w') as f:
        f.write('#config_version=6\nmodes:\n  - lb\n')
    sec = {'counter': [], 'accrual': [], 'sequence': []}
    for c in TABLE:
        n = 'lb%d' % c['id']
        L = ['  %s:' % n]
        if c['kind'] == 'counter':
            L += ['    count_events: %s_hit' % n, '    count_interval: %d' % c['ival'], '    direction: %s' % c['dir'],
                  '    starting_count: %d' % c['start']]
            if c['goal'] != NOGOAL:
                L.append('    count_complete_value: %d' % c['goal'])
            if c['window']:
                L.append('    multiple_hit_window: %dms' % (c['window'] * c['unit']))
            L.append('    control_events:')
            for act, vals in (('add', (1, 2)), ('subtract', (1, 2)), ('jump', (0, 3))):
                for v in vals:
                    L += ['      - action: %s' % act, '        event: %s_%s%d' % (n, act, v), '        value: %d' % v]
        else:
            L.append('    events:')
            L += ['      - %s_s%d' % (n, c['ev'][k]) for k in range(c['n'])]
        L += ['    enable_events: %s_enable' % n, '    disable_events: %s_disable' % n, '    reset_events: %s_reset' % n,
              '    restart_events: %s_restart' % n, '    start_enabled: %s' % ('true' if c['startEnabled'] else 'false'),
              '    reset_on_complete: %s' % ('true' if c['resetOC'] else 'false'),
              '    disable_on_complete: %s' % ('true' if c['disableOC'] else 'false')]
        if c['timeout']:
            L.append('    logic_block_timeout: %dms' % (c['timeout'] * c['unit']))
        sec[c['kind']] += L
    with open(d + '/modes/lb/config/lb.yaml', 'w') as f:
        f.write('#config_version=6\nmode:\n  priority: 100\n  game_mode: false\n')
        for k, name in (('counter', 'counters'), ('accrual', 'accruals'), ('sequence', 'sequences')):
            f.write(name + ':\n' + '\n'.join(sec[k]) + '\n')
    return d


def mc_module(table):
    return """----------------------------- MODULE LogicBlocksMC -----------------------------
EXTENDS LogicBlocks
MCNoGoal == %d
MCConfigs == {%s}
=============================================================================
""" % (NOGOAL, ',\n   '.join(to_tla(cfg_rec(c)) for c in table))


MC_CFG = """SPECIFICATION Spec
CONSTANTS
  NoGoal <- MCNoGoal
  Configs <- MCConfigs
  MaxTime = %d
  MaxOps = %d
  Vals = {1, 2}
  JVals = {0, 3}
%sCHECK_DEADLOCK FALSE
"""
PROPS = ('INVARIANT TypeOK\nINVARIANT WindowReopens\nPROPERTY CounterHitExact\nPROPERTY HitsWhileDisabledInert\n'
         'PROPERTY CompleteOnce\nPROPERTY CompleteWhenGoal\nPROPERTY ThenResetOrDisable\nPROPERTY SequenceStrict\n'
         'PROPERTY AccrualAnyOrder\n')
_H = {}


def _machine(mdir):
    if 'h' not in _H:
        h = harness.boot(None, machine_dir=mdir)
        _H['h'] = h
        _H['log'] = []
        for c in TABLE:
            n = 'lb%d' % c['id']
            h.machine.events.add_handler('logicblock_%s_hit' % n, _mk(c['id'], 'hit'))
            h.machine.events.add_handler('logicblock_%s_complete' % n, _mk(c['id'], 'complete'))
            h.machine.events.add_handler('%s_timeout' % n, _mk(c['id'], 'timeout'))
    return _H['h']


def _mk(cid, e):
    def hnd(**kwargs):
        v = kwargs.get('count', kwargs.get('step', 0)) if e == 'hit' else 0
        _H['log'].append((cid, e, v))
    return hnd


def exec_schedule(job):
    mdir, cid, sched = job
    try:
        return _exec(mdir, cid, sched)
    except Exception as ex:  # pylint: disable=broad-except
        import traceback
        return {'cfg': cfg_rec([c for c in TABLE if c['id'] == cid][0]), 'ev': [{'op': 'crash', 'what': repr(ex)[:300]}],
                '_tb': traceback.format_exc()[-1500:]}


def _exec(mdir, cid, sched):
    h = _machine(mdir)
    m = h.machine
    c = [x for x in TABLE if x['id'] == cid][0]
    U = c['unit']
    name = 'lb%d' % cid
    mode = m.modes['lb']
    log = _H['log']
    if mode.active:
        mode.stop()
        h.advance_time_and_run(0.01)
    h.advance_time_and_run(10)      # let any hit window / timeout of an earlier schedule run out
    mode.start()
    for _ in range(12):
        h.advance_time_and_run(0)
    if not mode.active:
        raise RuntimeError('mode lb did not start')
    dev = {'counter': m.counters, 'accrual': m.accruals, 'sequence': m.sequences}[c['kind']][name]
    del log[:]
    ev = []

    def obs(op, k=None):
        out = [[e, v] for (i, e, v) in log if i == cid]
        del log[:]
        rec = {'op': op, 'out': out, 'enabled': bool(dev.enabled), 'completed': bool(dev.completed)}
        if c['kind'] == 'accrual':
            rec['steps'] = [i for i, x in enumerate(dev.value) if x]
            rec['value'] = 0
        else:
            rec['value'] = int(dev.value)
            rec['steps'] = []
        if k is not None:
            rec['k'] = k
        ev.append(rec)

    obs('obs')
    for s in list(sched) + [{'op': 'adv'}] * 5:
        op = s['op']
        if op == 'init':
            continue
        k = s.get('k')
        if op == 'adv':
            h.advance_time_and_run(U * (1 + EPS) / 1000.0)
            obs('adv')
            continue
        if op == 'hit':
            m.events.post('%s_hit' % name if c['kind'] == 'counter' else '%s_s%d' % (name, k))
        elif op in ('enable', 'disable', 'reset', 'restart'):
            m.events.post('%s_%s' % (name, op))
        elif op in ('add', 'subtract', 'jump'):
            m.events.post('%s_%s%d' % (name, op, k))
        else:
            raise ValueError(op)
        h.advance_time_and_run(0)
        h.advance_time_and_run(0)
        obs(op, k)
    return {'cfg': cfg_rec(c), 'ev': ev}


def handmade():
    H = {'op': 'hit', 'k': 0}
    A = {'op': 'adv'}
    O = lambda op: {'op': op}
    return [
        # the hit that completes a looping counter opens the hit window like any other accepted hit
        (15, [H, A, A, A, H, H, A, H, A, A, H, A, A, A, H]),
        (15, [H, A, A, A, H, O('disable'), O('enable'), H, A, A, A, H]),
        # ... also when the block is restarted / re-enabled right after the completion
        (4, [H, A, A, H, A, A, H, O('restart'), H, A, A, H]),
        (6, [O('enable'), H, A, H, O('enable'), H, A, H]),
        # timeout period restarted by reset / restart / enable inside the running period
        (5, [H, A, O('reset'), H, A, A, H, A, A, A]),
        (10, [{'op': 'hit', 'k': 0}, A, A, O('restart'), {'op': 'hit', 'k': 1}, A, A, A, A]),
        (13, [{'op': 'hit', 'k': 0}, A, O('reset'), {'op': 'hit', 'k': 0}, A, {'op': 'hit', 'k': 1}, A, A]),
    ]


def run(ctx):
    mdir = write_machine(ctx.scratch)
    wd = tlc.prepare(ctx.scratch, 'LogicBlocks', 'logicblocks')
    with open(wd + '/LogicBlocksMC.tla', 'w') as f:
        f.write(mc_module(TABLE))
    with open(wd + '/MC.cfg', 'w') as f:
        f.write(MC_CFG % ((5, 5, PROPS) if ctx.quick else (7, 7, PROPS)))
    r = tlc.expect_ok(tlc.check(wd, 'LogicBlocksMC', 'MC.cfg', timeout=3000), 'LogicBlocks design check')
    ctx.add_tlc('LogicBlocksMC', r, {'configs': len(TABLE), 'MaxTime': 5 if ctx.quick else 7, 'MaxOps': 5 if ctx.quick else 7})
    ctx.coverage['monitors'] += ['CounterHitExact', 'HitsWhileDisabledInert', 'CompleteOnce', 'CompleteWhenGoal',
                                 'ThenResetOrDisable', 'SequenceStrict', 'AccrualAnyOrder', 'WindowReopens']
    with open(wd + '/Gen.cfg', 'w') as f:
        f.write(MC_CFG % (16, 18, ''))
    behs, _ = tlc.simulate(wd, 'LogicBlocksMC', 'Gen.cfg', num=450 if ctx.quick else 8000, depth=28 if ctx.quick else 40,
                           seed=ctx.seed)
    jobs = [(mdir, b[0]['cfg']['id'], [s['act'] for s in b]) for b in behs]
    jobs += [(mdir, cid, sched) for cid, sched in handmade()]
    traces = harness.pmap(exec_schedule, jobs, chunk=8)
    with open(wd + '/Trace.cfg', 'w') as f:
        f.write("""SPECIFICATION TSpec
CONSTANTS
  NoGoal <- TNoGoal
  Configs <- TConfigs
  MaxTime = 1000000
  MaxOps = 1000000
  Vals = {1, 2}
  JVals = {0, 3}
INVARIANT Reporter
CHECK_DEADLOCK FALSE
""")
    v = tlc.validate_traces(wd, 'LogicBlocksTrace', 'Trace.cfg', traces)
    ctx.add_trace_verdict('LogicBlocksTrace', v, len(traces))
    ctx.coverage['configs_exercised'] = sorted({j[1] for j in jobs})
    ctx.sample({'kind': 'logic-block-trace', 'cfg': traces[0]['cfg'], 'trace': traces[0]['ev'][:10]})
    tlc.finish_diagnosis(wd, 'LogicBlocksTrace', 'Trace.cfg', traces, v)
    for i, info in sorted(v.rejected.items()):
        if info.get('line') is None:
            continue
        fe = info.get('failing_event') or {}
        ctx.violation('C18:%s:%s' % (traces[i]['cfg']['kind'], fe.get('op', '?')),
                      'logic block execution not explained by LogicBlocks spec at line %s: %s (prev %s; cfg %s)' % (
                          info.get('line'), fe, info.get('prev_event'), traces[i]['cfg']),
                      {'cid': jobs[i][1], 'sched': jobs[i][2], 'trace': traces[i], 'info': info})
    ctx.assumptions += ['blocks live in a non-game mode; control and hit events are posted through the real event bus',
                        'virtual time; hit window and timeout in abstract units scaled per device']


def replay(ctx, data):
    d = data['replay']
    mdir = write_machine(ctx.scratch)
    tr = exec_schedule((mdir, d['cid'], d['sched']))
    print('replay trace:', tr['ev'])
