"""C14 — serial links: framing, integrity and command flow control (specs/SerialFraming, specs/FastFlow).

Framing: byte streams (from TLC simulation of SerialFraming, a seeded generator and hand-written cases) are pushed
through the REAL decoders of a booted OPP / FAST / PKONE platform once per chunking (every chunking for short
streams, sampled beyond); the messages handed to the message processors, the switch states and the carry-over are
logged per chunking and validated against the byte-exact model (SerialFramingTrace).  The receiver state "switch states
as last reported" is followed along the whole message sequence (recorded after every decoded message): single switch
events interleaved with full-state reports (OPP read-input frames, FAST SA: reports of a Neuron and of a Nano NET
processor), repeated identical reports included.
OPP wing layouts: the decoder's tables (which card sends input reports, which matrix reports, which bits are switches) are
built from the wings every Gen2 card reports at start-up.  OPP_CHAINS lists chains of cards with different layouts (matrix
plus only non-input wings, inputs only, solenoid + input, neopixel, a card without any input, one to four cards); each is
booted as its own machine (the emulated chain answers GET_GEN2_CFG with the layout), and the layout is part of the link
configuration of the model (cfg.cards): SerialFraming derives from the wings what a valid report is.
Flow control: schedules (TLC simulation of FastFlow + hand-written) drive the real FastNetNeuronCommunicator with a
recording port and a hand-fed reader in virtual time (FastFlowTrace).
"""
import asyncio
import os
import random

from lib import tlc, harness
from lib.tlaval import to_tla, TlaSet

LEVEL = 'model_checking'
VERIF = os.path.dirname(os.path.dirname(os.path.abspath(__file__)))
EPS = 1e-6
U = 0.1                     # one abstract time unit of FastFlow in seconds
FRAMING_DEVS = ['DecodeErrorRaises', 'MalformedRaises', 'MalformedAccepted']
FLOW_DEVS = ['PauseFlagWaitsOnSetEvent', 'LostResponseNotRetried']
_W = {}                     # per worker process: booted machines


# ===================================================================================== emulated boards
def _mock_serial_base():
    from mpf.tests.loop import MockSerial
    return MockSerial


def opp_crc(b):
    from mpf.platforms.opp.opp_rs232_intf import OppRs232Intf
    return list(bytes(b)) + list(OppRs232Intf.calc_crc8_whole_msg(bytes(b)))


def _make_mocks():
    MockSerial = _mock_serial_base()

    class _Port(MockSerial):
        def __init__(self):
            super().__init__()
            self.queue = []
            self.auto = True
            self.on_write = None

        def read(self, length):
            del length
            msg = b''.join(self.queue)
            self.queue = []
            return msg

        def read_ready(self):
            return bool(self.queue)

        def write_ready(self):
            return True

        def write(self, msg):
            msg = bytes(msg)
            if self.on_write:
                self.on_write(msg)
            if self.auto:
                out = self.respond(msg)
                if out:
                    self.queue.append(out)
            return len(msg)

    class OppChainMock(_Port):
        """An OPP chain behind one port: answers inventory / configuration / version / read-input commands."""
        LEN = {0x00: 7, 0x02: 7, 0x07: 7, 0x08: 7, 0x0d: 7, 0x13: 8, 0x14: 7, 0x17: 5, 0x19: 11}

        def __init__(self, boards):
            super().__init__()
            self.boards = boards

        def respond(self, msg):
            out = b''
            while msg:
                if msg[0] == 0xff:
                    out += b'\xff'
                    msg = msg[1:]
                    continue
                if msg[0] == 0xf0:
                    out += b'\xf0' + bytes(sorted(self.boards))
                    msg = msg[1:]
                    continue
                cmd = msg[1]
                ln = 9 + msg[5] if cmd == 0x40 else self.LEN[cmd]
                m, msg = msg[:ln], msg[ln:]
                a = m[0]
                if cmd == 0x0d:
                    out += bytes(opp_crc(bytes([a, 0x0d]) + self.boards[a]))
                elif cmd == 0x02:
                    out += bytes(opp_crc([a, 0x02, 2, 2, 0, 0]))
                elif cmd == 0x00:
                    out += bytes(opp_crc([a, 0x00, 0, 0, 0, 1]))
                elif cmd == 0x08:
                    out += bytes(opp_crc([a, 0x08, 0xff, 0xff, 0xff, 0xff]))
                elif cmd == 0x19:
                    out += bytes(opp_crc([a, 0x19] + [0xff] * 8))
            return out

    class FastNetMock(_Port):
        """A FAST Neuron (or, nano=True, a Nano) NET port with one FP-I/O-3208 board."""

        def __init__(self, nano=False):
            super().__init__()
            self.nano = nano

        def respond(self, msg):
            out = b''
            for line in msg.split(b'\r'):
                if not line:
                    continue
                cmd = line.decode()
                if cmd.startswith('ID:'):
                    r = 'ID:NET FP-CPU-002-2  01.05' if self.nano else 'ID:NET FP-CPU-2000  02.13'
                elif cmd.startswith('CH:'):
                    r = 'CH:P'
                elif cmd.startswith('WD:'):
                    r = 'WD:P'
                elif cmd == 'NN:00':
                    r = 'NN:00,FP-I/O-3208-3   ,01.10,08,20,00,00,00,00,00,00'
                elif self.nano and cmd[:3] in ('SN:', 'DN:', 'TN:'):
                    r = cmd[:3] + 'P' if ',' in cmd or cmd[:3] == 'TN:' else cmd + (',00,00,00' if cmd[:3] == 'SN:' else
                                                                                    ',00,00,00,00,00,00,00,00')
                elif self.nano and cmd.startswith('SA:'):
                    r = 'SA:01,00,09,' + '00' * 9
                elif cmd.startswith('NN:'):
                    r = 'NN:%s,!Node Not Found!,,,,,,,,,' % cmd[3:]
                elif cmd.startswith('SL:'):
                    r = 'SL:P' if ',' in cmd else cmd + ',00,00,00'
                elif cmd.startswith('DL:'):
                    r = 'DL:P' if ',' in cmd else cmd + ',00,00,00,00,00,00,00,00'
                elif cmd.startswith('SA:'):
                    r = 'SA:0E,' + '00' * 14
                elif cmd.startswith('TL:'):
                    r = 'TL:P'
                else:
                    raise AssertionError('unexpected FAST command %r' % line)
                out += r.encode() + b'\r'
            return out

    class PkoneMock(_Port):
        """A PKONE Nano controller with one extension board at address 0.

        The board query of the communicator reads with wait_for(.., 0.5 s); the virtual-time loop jumps to that timer
        before it polls the port, so the answers to PCB0..PCB7 are delivered ahead, together with the reset answer.
        """

        def respond(self, msg):
            out = b''
            for part in msg.split(b'E'):
                if not part:
                    continue
                cmd = part.decode()
                if cmd == 'PCN':
                    r = 'PCNF11H1'
                elif cmd == 'PRS':
                    r = 'PRSEPCB0XF11H2PYE' + 'E'.join('PCB%dN' % i for i in range(1, 8))
                elif cmd.startswith('PCB'):
                    r = None
                elif cmd.startswith('PSA'):
                    r = cmd + '0' * 35
                elif cmd.startswith('PWS'):
                    r = 'PWS'
                elif cmd in ('PWD', 'PWF'):
                    r = cmd
                else:
                    r = None
                if r:
                    out += r.encode() + b'E'
            return out

    return OppChainMock, FastNetMock, PkoneMock


def _boot(proto):
    """Boot the real platform of `proto` against its emulated board; returns the harness (with .mock)."""
    OppChainMock, FastNetMock, PkoneMock = _make_mocks()
    if proto in OPP_CHAINS:
        from unittest.mock import MagicMock
        from mpf.platforms.opp import opp
        opp.serial_imported = True
        opp.serial = MagicMock()
        ch = OPP_CHAINS[proto]      # the emulated cards answer GET_GEN2_CFG with their wing layout
        mock, port, mdir = OppChainMock({a: bytes(w) for a, w in ch['cards']}), 'com1', ch.get('mdir') or _write_opp_machine(proto)
    elif proto == 'fast':
        mock, port, mdir = FastNetMock(), 'com3', 'serial_fast'
    elif proto == 'fastnano':
        mock, port, mdir = FastNetMock(nano=True), 'com3', 'serial_fast_nano'
    else:
        mock, port, mdir = PkoneMock(), 'com3', 'serial_pkone'

    class H(harness._H):            # same plumbing as lib.harness.boot plus the serial mock of the repo's platform tests
        def _mock_loop(self):
            self.clock.mock_serial(port, mock)

    h = H()
    h.mock = mock
    h._machine_dir = os.path.join(VERIF, 'machines', mdir)
    h._config_file = 'config.yaml'
    h._platform = False
    h._mock_data_v = None
    h._options_v = None
    h.expected_duration = 1e9
    h.setUp()
    h.advance_time_and_run(1)
    if getattr(h, 'startup_error', None):
        raise RuntimeError('boot of %s failed: %r' % (proto, h.startup_error))
    return h


# ===================================================================================== link configurations
OPP_SW = [('s0_0', 0x20, 8, 0), ('s0_1', 0x20, 8, 1), ('s0_8', 0x20, 8, 8), ('s0_21', 0x20, 8, 21), ('s0_31', 0x20, 8, 31),
          ('s1_0', 0x21, 8, 0), ('s1_5', 0x21, 8, 5), ('s1_13', 0x21, 8, 13),
          ('m1_32', 0x21, 0x19, 0), ('m1_37', 0x21, 0x19, 5), ('m1_61', 0x21, 0x19, 29), ('m1_95', 0x21, 0x19, 63),
          # boundary inputs: the first and the last input bit of every input wing of both cards
          ('s0_7', 0x20, 8, 7), ('s0_15', 0x20, 8, 15), ('s0_16', 0x20, 8, 16), ('s0_23', 0x20, 8, 23), ('s0_24', 0x20, 8, 24),
          ('s1_7', 0x21, 8, 7), ('s1_8', 0x21, 8, 8), ('s1_15', 0x21, 8, 15)]
# OPP Gen2 wing codes (mpf/platforms/opp/opp_rs232_intf.py WING_*)
SOL, INP, INC, MXO, MXI, NEO, HSI, NEOSOL, MXOL, LMC, LMR, SOL8, NONE = 1, 2, 3, 4, 5, 6, 7, 8, 10, 11, 12, 13, 0
I8, M25 = 8, 0x19           # report kinds: read inputs / read matrix


def _names(sws):
    return [('c%d_%s%d' % (a - 0x20, 'i' if c == I8 else 'm', i if c == I8 else 32 + i), a, c, i) for a, c, i in sws]


# chains of cards with different wing layouts: cards = (address, wings 0..3); sws = the configured switches as (name, card
# address, report kind, input / matrix switch index).  MPF numbers them <card>-<input> and <card>-<32 + matrix switch>.
OPP_CHAINS = {
    # inputs only; inputs + matrix (machines/serial_opp)
    'opp': dict(cards=[(0x20, [INP, INP, INP, INP]), (0x21, [INP, INP, MXO, MXI])], sws=OPP_SW, mdir='serial_opp'),
    # matrix + only incandescent wings; solenoid + matrix (the layout of the repository's tests); neopixel, input,
    # solenoid and hi-side incandescent wing without a matrix
    'oppb': dict(cards=[(0x20, [INC, INC, MXO, MXI]), (0x21, [SOL, SOL, MXO, MXI]), (0x22, [NEO, INP, SOL, HSI])],
                 sws=_names([(0x20, M25, 0), (0x20, M25, 16), (0x20, M25, 37), (0x20, M25, 63),
                             (0x21, I8, 0), (0x21, I8, 3), (0x21, I8, 8), (0x21, I8, 11),
                             (0x21, M25, 0), (0x21, M25, 29), (0x21, M25, 63),
                             (0x22, I8, 0), (0x22, I8, 5), (0x22, I8, 7), (0x22, I8, 8), (0x22, I8, 15), (0x22, I8, 16), (0x22, I8, 19)])),
    # matrix on the low wings + lamp matrix; 8-solenoid + hi-side incandescent + matrix; neopixel/solenoid + incandescent
    # + input + an unpopulated wing; a card without any input
    'oppc': dict(cards=[(0x20, [MXOL, MXI, LMC, LMR]), (0x21, [SOL8, HSI, MXO, MXI]), (0x22, [NEOSOL, INC, INP, NONE]),
                        (0x23, [INC, INC, INC, INC])],
                 sws=_names([(0x20, M25, 1), (0x20, M25, 8), (0x20, M25, 62), (0x21, M25, 0), (0x21, M25, 35), (0x21, M25, 63),
                             (0x22, I8, 1), (0x22, I8, 3), (0x22, I8, 16), (0x22, I8, 23)])),
    # a single card, matrix + non-input wings: no card with direct inputs on the chain at all
    'oppd': dict(cards=[(0x20, [HSI, INC, MXO, MXI])], sws=_names([(0x20, M25, 0), (0x20, M25, 7), (0x20, M25, 32), (0x20, M25, 63)])),
}


def _write_opp_machine(name):
    """Machine config of an OPP chain of OPP_CHAINS (in the run's private temp dir); returns the machine directory."""
    import tempfile
    d = os.path.join(tempfile.gettempdir(), 'c14_%s_%d' % (name, os.getpid()))
    os.makedirs(os.path.join(d, 'config'), exist_ok=True)
    ch = OPP_CHAINS[name]
    txt = '#config_version=6\n# C14: OPP chain %s: %s\nhardware:\n    platform: opp\n\nopp:\n    ports: com1\n    baud: 115200\n' \
          '    debug: false\n\nswitches:\n' % (name, ch['cards'])
    for n, a, c, i in ch['sws']:
        txt += '    %s:\n        number: %d-%d\n' % (n, a - 0x20, i if c == I8 else 32 + i)
    with open(os.path.join(d, 'config', 'config.yaml'), 'w') as f:
        f.write(txt)
    return d


def opp_rep(a, c, closed=()):
    """CRC-correct report of kind c of card a: the inputs / matrix switches `closed` closed (bit cleared), the others open."""
    n = 4 if c == I8 else 8
    v = (1 << (8 * n)) - 1
    for i in closed:
        v &= ~(1 << i)
    return opp_crc([a, c] + list(v.to_bytes(n, 'big')))
FAST_SW = [('s_00', 0), ('s_01', 1), ('s_05', 5), ('s_0a', 10), ('s_11', 17), ('s_1f', 31)]     # s_05 is normally closed
FAST_INV = [5]
PK_SW = [('s_0_01', 1), ('s_0_12', 12), ('s_0_30', 30), ('s_0_35', 35)]     # 1 and 35: first and last input of the board


def _asc(s):
    return [ord(c) for c in s]


def fast_sa(on=(), raw_nc=True, n=14, fmt='neuron'):
    """SA: report of n data bytes: the switches `on` closed; raw_nc: the bit of the normally-closed switch is set (inactive)."""
    data = bytearray(n)
    for k in list(on) + (FAST_INV if raw_nc else []):
        data[k // 8] |= 1 << (k % 8)
    head = 'SA:%02X,' % n if fmt == 'neuron' else 'SA:01,00,%02X,' % n
    return _asc(head + data.hex().upper() + '\r')


def links():
    """Instantiations of the byte classes: valid frames (built with the real CRC), fillers and noise bytes."""
    chain_sws = lambda ch: [{'a': a, 'c': c, 'i': i} for (_, a, c, i) in OPP_CHAINS[ch]['sws']]
    opp_sws = chain_sws('opp')
    I, M = 8, 0x19
    out = [
        # plain payloads toggling configured switches; noise: plain, command-like, address-like, EOM
        dict(id='opp1', proto='opp', fill=[[255]], noise=[1, 8, 33, 255], keys=[], sws=opp_sws, P=99, G=1,
             frames=[opp_crc([0x20, I, 0xff, 0xff, 0xff, 0xfe]), opp_crc([0x20, I, 0xff, 0xff, 0xff, 0xff]),
                     opp_crc([0x20, I, 0x7f, 0xdf, 0xfe, 0xfd]),
                     opp_crc([0x21, I, 0xff, 0xff, 0xdf, 0xfe]), opp_crc([0x21, I, 0xff, 0xff, 0xff, 0xdf]),
                     opp_crc([0x21, M, 0x7f, 0xff, 0xff, 0xff, 0xff, 0xff, 0xff, 0xfe]),
                     opp_crc([0x21, M, 0xff, 0xff, 0xff, 0xff, 0xdf, 0xff, 0xff, 0xdf]),
                     # boundary inputs of the wings (first / last bit of each input wing)
                     opp_rep(0x20, I, [7, 8, 15, 16]), opp_rep(0x20, I, [0, 23, 24, 31]),
                     opp_rep(0x21, I, [7, 8, 15]), opp_rep(0x21, I, [0, 7, 15])]),
        # payload bytes that look like address / command bytes; noise: address-like, matrix command, high bit
        dict(id='opp2', proto='opp', fill=[[255]], noise=[0x20, 0x19, 0x3f, 0x80], keys=[], sws=opp_sws, P=99, G=99,
             frames=[opp_crc([0x20, I, 0xff, 0x21, 0x08, 0xfe]), opp_crc([0x20, I, 0x20, 0x19, 0xff, 0xff]),
                     opp_crc([0x21, I, 0x20, 0x08, 0xdf, 0xde]),
                     opp_crc([0x21, M, 0x21, 0x08, 0xff, 0xff, 0x3f, 0xff, 0x19, 0xdf]),
                     opp_crc([0x21, M, 0xff, 0x20, 0x19, 0xff, 0xff, 0xff, 0xff, 0xfe])]),
        # a board that is not in the inventory (valid CRC) between reports of board 0x21; noise incl. inventory cmd
        dict(id='opp3', proto='opp', fill=[[255]], noise=[0x2f, 0x00, 0xf0, 0xfe], keys=[], sws=opp_sws, P=99, G=1,
             frames=[opp_crc([0x2f, I, 0x00, 0x00, 0x00, 0x00]), opp_crc([0x2f, M, 0, 0, 0, 0, 0, 0, 0, 0]),
                     opp_crc([0x21, I, 0xff, 0xff, 0xdf, 0xde]), opp_crc([0x21, I, 0xff, 0xff, 0xff, 0xff]),
                     opp_crc([0x21, M, 0xff, 0xff, 0xff, 0xdf, 0xff, 0xff, 0xff, 0xde]),
                     opp_crc([0x20, I, 0xff, 0xdf, 0xfe, 0xfc])]),
        # ---- chains of cards with other wing layouts (OPP_CHAINS): reports of every card and kind; inputs closed which the
        # wing does not have (bits 4-7 of a solenoid wing, bit 4 of a neopixel wing, bit 0 of a neopixel/solenoid wing, any
        # bit of an incandescent / unpopulated wing); reports of a kind the card does not have (by its wings), of a card
        # without any input, of a card that is not on the chain
        dict(id='oppw1', proto='opp', mach='oppb', fill=[[255]], noise=[1, 8, 0x22, 255], keys=[], sws=chain_sws('oppb'), P=99, G=1,
             frames=[opp_rep(0x20, M, [0, 63]), opp_rep(0x20, M, [16, 37, 40]), opp_rep(0x20, M),
                     opp_rep(0x21, I, [0, 11]), opp_rep(0x21, I, [3, 4, 5, 8, 20]), opp_rep(0x21, M, [0, 29]), opp_rep(0x21, M, [63]),
                     opp_rep(0x22, I, [0, 4, 7, 16]), opp_rep(0x22, I, [5, 8, 15, 19, 20, 24]), opp_rep(0x22, I),
                     opp_rep(0x20, I, [0, 1, 16]), opp_rep(0x22, M, [0, 5, 63])]),
        dict(id='oppw2', proto='opp', mach='oppc', fill=[[255]], noise=[0x23, 0x19, 2, 0xf0], keys=[], sws=chain_sws('oppc'), P=99, G=1,
             frames=[opp_rep(0x20, M, [1, 62]), opp_rep(0x20, M, [8]), opp_rep(0x21, M, [0, 63]), opp_rep(0x21, M, [35, 36]),
                     opp_rep(0x22, I, [1, 16]), opp_rep(0x22, I, [0, 3, 8, 23, 24]), opp_rep(0x22, I),
                     opp_rep(0x23, I, [0, 1]), opp_rep(0x23, M, [0, 1]), opp_rep(0x21, I, [0, 8]), opp_rep(0x22, M, [1, 3]),
                     opp_rep(0x24, M, [0])]),
        dict(id='oppw3', proto='opp', mach='oppd', fill=[[255]], noise=[8, 0x19, 0x21, 0], keys=[], sws=chain_sws('oppd'), P=99, G=1,
             frames=[opp_rep(0x20, M, [0, 63]), opp_rep(0x20, M, [7, 32]), opp_rep(0x20, M), opp_rep(0x20, M, [0, 7, 32, 63]),
                     opp_rep(0x20, I, [0, 7]), opp_rep(0x21, M, [0, 7]), opp_rep(0x21, I, [0])]),
        dict(id='fast1', proto='fast', fill=[[13]], noise=_asc('Z1') + [13, 255], keys=[n for _, n in FAST_SW],
             sws=[n for _, n in FAST_SW], P=1, G=99,
             frames=[_asc(s + '\r') for s in ('-L:01', '/L:01', '-L:0A', '/L:0A', '-L:1F', '-L:11', '/L:1F', '-L:00', '/L:00')]),
        dict(id='fast2', proto='fast', fill=[[13]], noise=_asc('-:AL/'), keys=[n for _, n in FAST_SW],
             sws=[n for _, n in FAST_SW], P=1, G=99,
             frames=[_asc(s + '\r') for s in ('-L:01', '/L:01', '-L:0A', '-L:11', '/L:11', '-L:07', '-L:00')]),
        # full-state reports (SA:) between switch events: 0 quiet, 1 all bits 0 (the NC switch active), 2 and 3 some closed
        dict(id='fast3', proto='fast', fill=[[13]], noise=_asc('Z,0') + [13], keys=[n for _, n in FAST_SW],
             sws=[n for _, n in FAST_SW], P=1, G=99, maxwire=120, reports=[0, 1, 2, 3, 13],
             frames=[fast_sa(), fast_sa(raw_nc=False), fast_sa([1, 10, 31]), fast_sa([1, 17], raw_nc=False)] +
             [_asc(s + '\r') for s in ('-L:01', '/L:01', '-L:05', '/L:05', '-L:1F', '/L:0A', '-L:11', '-L:00', '/L:00')] + [fast_sa([0, 31])]),
        # the same with short reports (4 data bytes cover the configured switches): small enough for the exhaustive runs
        dict(id='fast3s', proto='fast', fill=[[13]], noise=_asc(',Z') + [13], keys=[n for _, n in FAST_SW],
             sws=[n for _, n in FAST_SW], P=1, G=99, san=4, maxwire=80, reports=[0, 1, 2, 8],
             frames=[fast_sa(n=4), fast_sa([1, 10, 31], n=4), fast_sa([5, 17], raw_nc=False, n=4)] +
             [_asc(s + '\r') for s in ('-L:01', '-L:05', '/L:01', '/L:1F', '-L:00')] + [fast_sa([0, 31], n=4)]),
        # a Nano: reports "SA:aa,bb,<count>,<9 data bytes>", network switch events -N: / /N: (-L: means nothing to it)
        dict(id='fast4', proto='fast', mach='fastnano', fill=[[13]], noise=_asc('Z,L') + [13], keys=[n for _, n in FAST_SW],
             sws=[n for _, n in FAST_SW], P=1, G=99, saf=3, san=9, swc=ord('N'), maxwire=120, reports=[0, 1, 2, 11],
             frames=[fast_sa(n=9, fmt='nano'), fast_sa([1, 10, 31], n=9, fmt='nano'), fast_sa([17], raw_nc=False, n=9, fmt='nano')] +
             [_asc(s + '\r') for s in ('-N:01', '/N:01', '-N:05', '-N:1F', '/N:0A', '-N:11', '-N:00', '/N:00')] + [fast_sa([0, 31], n=9, fmt='nano')]),
        dict(id='pkone1', proto='pkone', fill=[], noise=_asc('Z1E') + [255], keys=[n for _, n in PK_SW],
             sws=[n for _, n in PK_SW], P=1, G=99,
             frames=[_asc(s + 'E') for s in ('PSW0011', 'PSW0010', 'PSW0121', 'PSW0120', 'PSW0301', 'PSW0071', 'PSW0351', 'PSW0350')]),
        dict(id='pkone2', proto='pkone', fill=[], noise=_asc('0PSW'), keys=[n for _, n in PK_SW],
             sws=[n for _, n in PK_SW], P=1, G=99,
             frames=[_asc(s + 'E') for s in ('PSW0011', 'PSW0121', 'PSW0300', 'PSW0301', 'PSW0351')]),
    ]
    for c in out:
        c.setdefault('saf', 1 if c['proto'] == 'fast' else 0)
        c.setdefault('san', 14 if c['proto'] == 'fast' else 0)
        c.setdefault('inv', FAST_INV if c['proto'] == 'fast' else [])
        c.setdefault('maxwire', 44)
        c.setdefault('swc', ord('L') if c['proto'] == 'fast' else 0)
        c.setdefault('mach', c['proto'])        # which emulated machine of this driver executes the streams
        # OPP: the wing layout of the cards on the chain (what the emulated cards of that machine answer at start-up)
        c['cards'] = [{'a': a, 'w': list(w)} for a, w in OPP_CHAINS[c['mach']]['cards']] if c['proto'] == 'opp' else []
    return out


def link_tla(c, frames=None, noise=None):
    """TLA+ record of a link configuration, optionally restricted to some of its frames / noise bytes (by index)."""
    fr = [c['frames'][i] for i in frames] if frames else c['frames']
    nz = [c['noise'][i] for i in noise] if noise else c['noise']
    d = dict(id=c['id'], proto=c['proto'], frames=TlaSet(fr), fill=TlaSet(c['fill']), noise=TlaSet(nz),
             keys=c['keys'], sws=c['sws'], infl=3 if c['proto'] == 'pkone' else 0, P=c['P'], G=c['G'],
             saf=c['saf'], san=c['san'], inv=c['inv'], swc=c['swc'], cards=c['cards'])
    return to_tla(d)


def link_json(c):
    return dict(id=c['id'], proto=c['proto'], keys=c['keys'], sws=c['sws'], infl=3 if c['proto'] == 'pkone' else 0, P=c['P'], G=c['G'],
                saf=c['saf'], san=c['san'], inv=c['inv'], swc=c['swc'], cards=c['cards'])


def framing_mc_module(cfgs):
    return """---------------------------- MODULE SerialFramingMC ----------------------------
EXTENDS SerialFraming
MCConfigs == {%s}
=============================================================================
""" % ',\n   '.join(cfgs)


FRAMING_CFG = """SPECIFICATION %s
CONSTANTS
  Configs <- %s
  MaxFrames = %d
  MaxFaults = %d
  MaxInsert = %d
  MaxFill = %d
  MaxChunk = %d
  Deviations = %s
%sCHECK_DEADLOCK FALSE
"""
FRAMING_PROPS = ('INVARIANT FramesValid\nINVARIANT ChunkInvariance\nINVARIANT BadFrameInert\nINVARIANT NoInventedState\n'
                 'INVARIANT Resync\nINVARIANT LastReportWins\nINVARIANT SequenceFollowsReports\nINVARIANT LayoutValid\n'
                 'INVARIANT WingReportsApplied\n')


# ===================================================================================== real decoders
_CUR = {'rec': None}         # the recorder of the machine that is executing a stream (two FAST machines share a class)


def _install_recorder(cls, name, conv):
    """Wrap cls.<name> (class level: the platform classes use __slots__) so that every call is recorded."""
    orig = getattr(cls, name)
    if getattr(orig, '_c14', False):
        return

    def wrapper(self, *a, **kw):
        rec = _CUR['rec']
        if rec is None or not rec['on']:
            return orig(self, *a, **kw)
        rec['calls'].append(conv(a))
        try:
            return orig(self, *a, **kw)
        finally:                # the switch states when the handler of this message has returned (or raised)
            rec['hist'].append(sum(int(x.state) << j for j, x in enumerate(rec['sw'])))
    wrapper._c14 = True
    setattr(cls, name, wrapper)


def _link_machine(proto):
    """proto: the machine to use (cfg.mach): opp, fast (Neuron), fastnano, pkone."""
    key = 'link_' + proto
    if key in _W and not _W[key].get('dirty'):
        return _W[key]
    if key in _W:
        harness.shutdown(_W[key]['h'])
    h = _boot(proto)
    m = h.machine
    p = m.default_platform
    rec = {'on': False, 'calls': [], 'hist': [], 'sw': []}
    w = {'h': h, 'rec': rec, 'dirty': False}
    h.mock.auto = False
    if proto in OPP_CHAINS:
        w['comm'] = p.opp_connection['com1']
        _install_recorder(type(p), 'process_received_message', lambda a: list(bytes(a[1])))
        w['names'] = [n for n, _, _, _ in OPP_CHAINS[proto]['sws']]
        # every card / kind of report with a configured switch reports "all open" (as the cards did at boot)
        w['reset'] = bytes(sum((opp_rep(a, c) for a, c in sorted({(a, c) for _, a, c, _ in OPP_CHAINS[proto]['sws']})), []) +
                           [255, 255, 255])
    elif proto in ('fast', 'fastnano'):
        w['comm'] = p.serial_connections['net']
        from mpf.platforms.fast.communicators.base import FastSerialCommunicator
        _install_recorder(FastSerialCommunicator, '_dispatch_incoming_msg',
                          lambda a: list(a[0].encode('utf-8', 'surrogateescape')) if isinstance(a[0], str) else list(a[0]))
        for t in w['comm'].tasks:       # the watchdog would interleave writes; it is not part of framing
            t.cancel()
        w['names'] = [n for n, _ in FAST_SW]
    else:
        w['comm'] = p.controller_connection
        _install_recorder(type(p), 'process_received_message', lambda a: list(a[0].encode('utf-8', 'surrogateescape')))
        w['names'] = [n for n, _ in PK_SW]
    rec['sw'] = [m.switches[n] for n in w['names']]
    for _ in range(3):
        h.advance_time_and_run(0)
    _W[key] = w
    return w


def _reset_decoder(proto, w):
    """Fresh decoder state and all configured switches inactive (through the decoder's own entry point)."""
    comm = w['comm']
    w['rec']['on'] = False
    if proto in OPP_CHAINS:
        comm.part_msg = b''
        comm._lost_synch = False
        comm._parse_msg(w['reset'])
        comm.part_msg = b''
        comm._lost_synch = False
    elif proto in ('fast', 'fastnano'):
        comm.received_msg = b''
        # the board reports all inputs open (as it did at boot), then every switch inactive (also the normally-closed one)
        if proto == 'fast':
            comm.parse_incoming_raw_bytes(bytes(fast_sa(raw_nc=False)) + b''.join(('/L:%02X\r' % n).encode() for _, n in FAST_SW))
        else:
            comm.parse_incoming_raw_bytes(bytes(fast_sa(raw_nc=False, n=9, fmt='nano')) +
                                          b''.join(('/N:%02X\r' % n).encode() for _, n in FAST_SW))
    else:
        comm.received_msg = b''
        comm.messages_in_flight = 0
        comm._parse_msg(b''.join(('PSW0%02d0E' % n).encode() for _, n in PK_SW))
        comm.messages_in_flight = 3       # as if three commands were awaiting their answers (cfg.infl)
    w['rec']['calls'] = []
    w['rec']['hist'] = []
    w['rec']['on'] = True


def _feed(proto, comm, chunk):
    if proto == 'fast':
        comm.parse_incoming_raw_bytes(chunk)
    else:
        comm._parse_msg(chunk)


def _carry(proto, comm):
    if proto == 'opp':
        return list(comm.part_msg), bool(comm._lost_synch)
    return list(comm.received_msg), False


def chunks_of_mask(n, mask):
    out, s = [], 0
    for i in range(1, n + 1):
        if i == n or (mask >> (i - 1)) & 1:
            out.append((s, i))
            s = i
    return out


def chunkings(n, exhaustive_upto, rnd, nsample):
    """Bit masks over the n-1 possible read boundaries: all of them for short streams, a systematic + random sample
    otherwise (whole stream, single bytes, every single boundary, every pair of adjacent boundaries, fixed sizes)."""
    if n <= 1:
        return [0]
    if n <= exhaustive_upto:
        return list(range(1 << (n - 1)))
    full = (1 << (n - 1)) - 1
    ms = [0, full]
    ms += [1 << i for i in range(n - 1)]
    if n <= 48:
        ms += [(1 << i) | (1 << (i + 1)) for i in range(n - 2)]
        ms += [full ^ (1 << i) for i in range(n - 1)]
    for size in (2, 3, 5, 7, 11):
        ms.append(sum(1 << (i - 1) for i in range(size, n, size)))
    ms += [rnd.getrandbits(n - 1) for _ in range(nsample)]
    seen, out = set(), []
    for x in ms:
        if x not in seen:
            seen.add(x)
            out.append(x)
    return out


def exec_wire(job):
    cfg, wire, upto, nsample, seed, extra = job
    try:
        return _exec_wire(cfg, wire, upto, nsample, seed, extra)
    except Exception as ex:  # pylint: disable=broad-except
        import traceback
        k = 'link_' + cfg['mach']
        if k in _W:
            _W[k]['dirty'] = True
        return {'cfg': link_json(cfg), 'wire': wire, 'tbl': [], 'ev': [{'t': 'crash', 'what': repr(ex)[:300]}],
                '_tb': traceback.format_exc()[-2000:], '_exc': []}


def _exec_wire(cfg, wire, upto, nsample, seed, extra):
    proto, mach = cfg['proto'], cfg['mach']
    w = _link_machine(mach)
    h, comm, rec = w['h'], w['comm'], w['rec']
    _CUR['rec'] = rec
    sw = [h.machine.switches[n] for n in w['names']]
    data = bytes(wire)
    n = len(data)
    rnd = random.Random(seed * 7919 + n)
    masks = chunkings(n, upto, rnd, nsample)
    for x in extra:
        if x not in masks:
            masks.append(x)
    tbl, ids, ev, excs = [], {}, [], set()
    for k, mask in enumerate(masks):
        _reset_decoder(mach, w)
        dead = False
        for (a, b) in chunks_of_mask(n, mask):
            try:
                _feed(proto, comm, data[a:b])
            except Exception as ex:  # pylint: disable=broad-except
                dead = True             # in the read task this exception ends _socket_reader (and MPF)
                excs.add(type(ex).__name__)
                break
        rec['on'] = False
        o = []
        for msg in rec['calls']:
            t = tuple(msg)
            if t not in ids:
                tbl.append(list(msg))
                ids[t] = len(tbl)
            o.append(ids[t])
        c, ls = _carry(proto, comm)
        line = {'o': o, 'h': list(rec['hist']), 's': [int(x.state) for x in sw], 'c': c, 'ls': ls, 'dd': dead,
                'f': int(comm.messages_in_flight) if proto == 'pkone' else 0}
        if n <= 24:
            line.update(t='m', m=mask, k=[])
        else:
            line.update(t='k', m=0, k=[b - a for a, b in chunks_of_mask(n, mask)])
        ev.append(line)
        if k % 16 == 15:
            h.advance_time_and_run(0)
    for _ in range(2):
        h.advance_time_and_run(0)
    sf = getattr(h.machine, 'stop_future', None)
    if sf is not None and sf.done():
        w['dirty'] = True
    return {'cfg': link_json(cfg), 'wire': list(wire), 'tbl': tbl, 'ev': ev, '_exc': sorted(excs), '_id': cfg['id']}


# ===================================================================================== stream generation
def random_wire(cfg, rnd):
    """Frames of the configuration with fillers, then up to three channel faults anywhere."""
    w = []
    seq = None
    if cfg.get('reports') and rnd.random() < 0.7:
        # a full-state report, switch events, then the same report again (or another one), events, ...
        ev = [f for i, f in enumerate(cfg['frames']) if i not in cfg['reports']]
        rp = [cfg['frames'][i] for i in cfg['reports']]
        r = rnd.choice(rp)
        seq = [r] if rnd.random() < 0.7 else []
        for _ in range(rnd.randint(1, 2)):
            seq += [rnd.choice(ev) for _ in range(rnd.randint(1, 3))]
            seq.append(r if rnd.random() < 0.6 else rnd.choice(rp))
        if rnd.random() < 0.3:
            seq.append(rnd.choice(ev))
    for f in seq or [None] * rnd.randint(1, 4):
        w += f or rnd.choice(cfg['frames'])
        if cfg['fill'] and rnd.random() < 0.4:
            w += rnd.choice(cfg['fill'])
    for _ in range(rnd.choice([0, 1, 1, 2, 2, 3])):
        if not w:
            break
        i = rnd.randrange(len(w))
        kind = rnd.choice(['rep', 'del', 'ins', 'ins', 'cut'])
        if kind == 'rep':
            w[i] = rnd.choice(cfg['noise'])
        elif kind == 'del':
            del w[i]
        elif kind == 'ins':
            w[i:i] = [rnd.choice(cfg['noise']) for _ in range(rnd.randint(1, 3))]
        elif len(w) > 8:
            del w[i:i + rnd.randint(1, 4)]
    return w[:cfg['maxwire']]


def handmade(cfgs):
    """(config id, stream, extra masks) — the situations named in the design."""
    c = {x['id']: x for x in cfgs}
    f1, f2, f3 = c['opp1']['frames'], c['opp2']['frames'], c['opp3']['frames']
    E = [255]
    out = [
        ('opp1', f1[5], []),                                        # one matrix report: every chunking incl. split before CRC
        ('opp1', f1[0] + E, []), ('opp1', f1[3] + E, []),
        ('opp1', f1[0] + f1[3] + f1[5] + E, [1 << 23, 1 << 6, (1 << 6) | (1 << 13)]),   # chain 0x20, 0x21, matrix: poll response
        ('opp1', f1[0] + f1[3] + f1[5] + E + f1[2] + f1[4] + f1[6] + E, []),            # two poll responses, last report wins
        ('opp1', [0x55, 0x01] + f1[3] + f1[5] + E, []),             # noise, then reports from a board other than 0x20
        ('opp1', [0x01] + f1[5] + f1[3], []),
        ('opp1', [0x08, 0x33] + f1[4], []),
        ('opp1', f1[5][:10] + [f1[5][10] ^ 0x10] + f1[3] + E, []),   # bad CRC on the matrix report, then a good report
        ('opp1', f1[0][:6] + [f1[0][6] ^ 1] + f1[2] + E, []),
        ('opp1', f1[0][:4] + f1[3] + f1[4] + E, []),                # truncated report
        ('opp1', E + E + f1[6] + E + E, []),
        ('opp2', f2[3] + f2[4] + E, []), ('opp2', [0x20] + f2[3] + E + f2[0] + E + f2[2], []),
        ('opp2', f2[2], []), ('opp2', f2[4], []),
        ('opp3', f3[0] + f3[2] + f3[4] + E, []), ('opp3', [0xf0, 0x2f] + f3[4] + f3[5] + E, []),
        ('opp3', f3[1] + f3[4], []),
        # boundary inputs of the wings: reports closing the first / last bit of every input wing, the last report wins
        ('opp1', f1[7] + E, []), ('opp1', f1[7] + f1[9] + E + f1[8] + f1[10] + E, []),
        ('opp1', f1[8] + f1[1] + f1[7] + E, []), ('opp1', f1[9] + f1[10] + f1[9] + E, []),
    ]
    # wing layouts: poll responses of the whole chain (every card and kind of report), a second poll response with other
    # states, reports of a kind the card's wings do not provide / of a card without inputs / of no card between valid ones,
    # closed "inputs" which the wing does not have, a bad CRC on the card that only has a matrix
    w1, w2, w3 = c['oppw1']['frames'], c['oppw2']['frames'], c['oppw3']['frames']
    poll1 = w1[0] + w1[3] + w1[5] + w1[7] + E
    out += [
        ('oppw1', w1[0], []), ('oppw1', w1[1] + E, []), ('oppw1', w1[7], []),
        ('oppw1', poll1, [1 << 10, (1 << 10) | (1 << 17), (1 << 10) | (1 << 17) | (1 << 28)]),
        ('oppw1', poll1 + w1[1] + w1[4] + w1[6] + w1[8] + E, []),
        ('oppw1', w1[0] + w1[2] + E + w1[1] + E, []),
        ('oppw1', w1[10] + w1[0] + E, []), ('oppw1', w1[0] + w1[10] + E, []),
        ('oppw1', w1[11] + w1[7] + w1[9] + E, []), ('oppw1', w1[8] + w1[11] + E, []),
        ('oppw1', w1[0][:10] + [w1[0][10] ^ 0x10] + w1[1] + E, []),
        ('oppw1', w1[4] + w1[8] + E, []),
        ('oppw2', w2[0] + w2[2] + w2[4] + E, []), ('oppw2', w2[4], []), ('oppw2', w2[5], []),
        ('oppw2', w2[0] + w2[2] + w2[4] + E + w2[1] + w2[3] + w2[5] + E, []),
        ('oppw2', w2[7] + w2[8] + w2[0] + E, []), ('oppw2', w2[9] + w2[10] + w2[3] + w2[6] + E, []),
        ('oppw2', w2[11] + w2[2] + E, []), ('oppw2', [0x01] + w2[0] + w2[3], []),
        ('oppw3', w3[0] + E + w3[1] + E + w3[2] + E, []), ('oppw3', w3[4] + w3[0] + E, []),
        ('oppw3', w3[5] + w3[6] + w3[3] + E, []), ('oppw3', w3[3] + w3[3] + w3[2], []),
        ('oppw3', w3[1][:5] + w3[0] + E + w3[1], []),
    ]
    A = _asc
    out += [
        ('fast1', A('-L:0A\r'), []), ('fast1', A('-L:01\r\r/L:01\r-L:1F\r'), []), ('fast1', A('ZZ\r-L:11\r'), []),
        ('fast1', A('-L:0A\r/L:0A\r-L:0A\r'), []), ('fast1', A('Z1Z\r') + A('-L:0A\r'), []),
        ('fast1', A('-L:') + [255] + A('A\r-L:01\r'), []),          # high-bit noise inside a frame
        ('fast1', A('-L:0\r-L:11\r'), []),                          # truncated switch number
        ('fast1', A('-L:0Z\r-L:11\r'), []),                         # corrupted switch number
        ('fast1', A('-L:\r/L:1F\r'), []),
        ('fast1', A('-L:1\r'), []), ('fast1', A('/L:0A\r-L:A\r-L:011\r'), []),     # a digit dropped / inserted: other switch
        ('pkone1', A('PSW001E'), []), ('pkone1', A('PSW0011EPSW00100E'), []),
        ('pkone1', A('PSW0011E'), []), ('pkone1', A('PSW0011EPSW0121EPSW0010E'), []), ('pkone1', A('EEPSW0301EE'), []),
        ('pkone1', A('ZZEPSW0121E'), []), ('pkone1', A('PSW0') + [255] + A('11EPSW0121E'), []),
        ('pkone1', A('PSW011EPSW0301E'), []),                       # a digit dropped
        ('pkone1', A('PSWZ011EPSW0301E'), []), ('pkone2', A('PWDEPSW0011EPWDE'), []),
        # boundary inputs: the lowest / highest switch of the FAST board, the first / last input of the PKONE board
        ('fast1', A('-L:00\r'), []), ('fast1', A('-L:00\r-L:1F\r/L:00\r'), []), ('fast1', A('-L:1F\r-L:00\r/L:1F\r'), []),
        ('pkone1', A('PSW0351E'), []), ('pkone1', A('PSW0351EPSW0011EPSW0350E'), []), ('pkone1', A('PSW0011EPSW0351E'), []),
        ('pkone1', A('PSW0351EPSW0350EPSW0351E'), []), ('pkone2', A('PWDEPSW0351EPSW0010E'), []),
    ]
    # full-state reports and switch events: the last report wins, also when it repeats an earlier report
    g, gs = c['fast3']['frames'], c['fast3s']['frames']
    Q, Z, B, C = g[0], g[1], g[2], g[3]
    out += [
        ('fast3', Q + A('-L:01\r') + Q, []), ('fast3', A('-L:01\r') + Z, []), ('fast3', Z, []), ('fast3', B + B, []),
        ('fast3', B + A('/L:01\r-L:05\r') + B + A('-L:11\r'), []), ('fast3', B + C + A('/L:01\r') + B + C, []),
        ('fast3', Q + A('-L:1F\r/L:1F\r') + Q + A('-L:05\r') + Q, []),
        ('fast3', C + A('/L:01\r') + Q + A('-L:01\r') + C + A('/L:01\r') + Q, []),
        ('fast3', B[:10] + [13] + B[10:] + C, []),                   # a report cut in two by noise (covers 16 switches)
        ('fast3', A('SA:0E,22040080\r') + Q, []),                    # shortened report that still covers the switches
        ('fast3s', A('SA:04,220\r') + gs[1], []), ('fast3s', gs[1][:9] + A(',') + gs[1][9:] + A('-L:01\r'), []),
        ('fast3s', A('SA:Z,') + gs[1][6:] + A('-L:01\r') + gs[1], []),
        ('fast3s', gs[0] + A('-L:01\r') + gs[0], []), ('fast3s', gs[1] + A('/L:01\r-L:05\r') + gs[1] + gs[2], []),
        ('fast3s', A('-L:05\r/L:1F\r') + gs[2] + A('/L:01\r') + gs[2], []),
        ('fast3', g[13] + A('/L:00\r-L:01\r') + g[13], []), ('fast3', A('-L:00\r') + Q + g[13] + A('/L:1F\r'), []),
        ('fast3s', gs[8] + A('/L:1F\r') + gs[0] + A('-L:00\r'), []), ('fast3s', gs[8] + A('/L:00\r') + gs[8], []),
    ]
    n4 = c['fast4']['frames']
    out += [
        ('fast4', n4[0] + A('-N:01\r') + n4[0], []), ('fast4', n4[1] + A('/N:01\r-N:05\r') + n4[1] + n4[2], []),
        ('fast4', A('-N:1F\r-L:01\r') + n4[0] + A('-N:11\r') + n4[2] + n4[2], []),
        ('fast4', A('SA:09,') + n4[1][12:] + n4[1], []),             # a Neuron style report sent to a Nano
        ('fast4', n4[11] + A('/N:00\r') + n4[11] + A('/N:1F\r'), []), ('fast4', A('-N:00\r') + n4[0] + A('-N:00\r'), []),
    ]
    return [(c[i], wv, x) for i, wv, x in out]


# ===================================================================================== FastFlow binding
def flow_cmds():
    K = lambda c, kind, h='', T=0, R=0: dict(c=c, kind=kind, h=h, T=T, R=R)
    return [K(1, 'forget'), K(2, 'forget'), K(3, 'confirm', 'CH:'), K(4, 'confirm', 'ZZ:'), K(5, 'wait', 'CH:'),
            K(6, 'wait', 'ID:'), K(7, 'proc', 'ID:', 2, 1), K(8, 'proc', 'CH:', 1, 2), K(9, 'proc', 'ID:', 3, 0),
            K(10, 'proc', 'CH:', 2, -1), K(11, 'confirm', '-L:'), K(12, 'forget')]


FLOW_RESP = {'ID:': 'ID:NET FP-CPU-2000  02.13', 'CH:': 'CH:P', '-L:': '-L:01', 'ZZ:': 'ZZ:P', 'XX:': 'XX:F'}
FLOW_HEADERS = ('{[h |-> "ID:", proc |-> TRUE, done |-> TRUE], [h |-> "CH:", proc |-> TRUE, done |-> TRUE], '
                '[h |-> "-L:", proc |-> TRUE, done |-> FALSE], [h |-> "XX:", proc |-> TRUE, done |-> FALSE], '
                '[h |-> "ZZ:", proc |-> FALSE, done |-> FALSE]}')


def flow_mc_module(cmds):
    return """------------------------------ MODULE FastFlowMC ------------------------------
EXTENDS FastFlow
MCCmds == {%s}
MCHeaders == %s
=============================================================================
""" % (',\n   '.join(to_tla(c) for c in cmds), FLOW_HEADERS)


FLOW_CFG = """SPECIFICATION %s
CONSTANTS
  Cmds <- %s
  Headers <- %s
  MaxOps = %d
  MaxTime = %d
  MaxResp = %d
  Deviations = %s
%sCHECK_DEADLOCK FALSE
"""
FLOW_PROPS = ('PROPERTY NoWriteWhileAwaiting\nINVARIANT FifoWrites\nINVARIANT RetriedAsConfigured\n'
              'INVARIANT NeverWaitsUnconfirmed\nPROPERTY LostResponseRetried\n')


def exec_flow(sched):
    try:
        return _exec_flow(sched)
    except Exception as ex:  # pylint: disable=broad-except
        import traceback
        return {'cmds': flow_cmds(), 'ev': [{'op': 'crash', 'what': repr(ex)[:300]}], '_tb': traceback.format_exc()[-2000:],
                '_sched': sched}


def _exec_flow(sched):
    """Fresh FAST platform per schedule: real communicator, recording port, reader fed through the port's read queue."""
    h = _boot('fast')
    try:
        m = h.machine
        comm = m.default_platform.serial_connections['net']
        for t in comm.tasks:            # watchdog (a send_and_forget every 500 ms) is not part of the schedule
            t.cancel()
        mock = h.mock
        mock.auto = False
        for _ in range(4):
            h.advance_time_and_run(0)
        if comm.send_queue.qsize() or comm.pause_sending_flag.is_set() or not comm.no_response_waiting.is_set():
            raise RuntimeError('communicator not idle after boot')
        table = {c['c']: c for c in flow_cmds()}
        ev = []
        t0 = m.clock.get_time()

        def unit():
            return int(round((m.clock.get_time() - t0) / U - 1e-3))

        def on_write(msg):
            # the serial transport joins what was written during one loop iteration: one event per command, in order
            for txt in msg.decode('latin1').split('\r'):
                if txt:
                    ev.append({'op': 'write', 'c': int(txt[1:3]) if txt[:1] == 'C' and txt[1:3].isdigit() else 0,
                               't': unit(), '_b': txt})
        mock.on_write = on_write
        tasks = {}

        def settle():
            for _ in range(8):
                h.advance_time_and_run(0)

        def done_cb(c):
            def cb(f):
                if f.cancelled():
                    return
                ev.append({'op': 'ret', 'c': c, '_exc': repr(f.exception())})
            return cb
        issued = set()
        for k, s in enumerate(sched):
            op = s['op']
            if op == 'call':
                c = table[s['c']]
                if c['c'] in issued:
                    continue
                issued.add(c['c'])
                msg = 'C%02d:' % c['c']
                ev.append({'op': 'call', 'c': c['c'], '_kind': c['kind'], '_h': c['h']})
                if c['kind'] in ('forget', 'confirm'):
                    if c['kind'] == 'forget':
                        comm.send_and_forget(msg)
                    else:
                        comm.send_with_confirmation(msg, c['h'])
                    if k + 1 < len(sched) and sched[k + 1]['op'] == 'call':
                        continue        # back-to-back calls: the writer task has not run yet
                else:
                    coro = comm.send_and_wait_for_response(msg, c['h']) if c['kind'] == 'wait' else \
                        comm.send_and_wait_for_response_processed(msg, c['h'], timeout=c['T'] * U, max_retries=c['R'])
                    t = asyncio.ensure_future(coro, loop=m.clock.loop)
                    t.add_done_callback(done_cb(c['c']))
                    tasks[c['c']] = t
            elif op == 'resp':
                ev.append({'op': 'resp', 'h': s['h']})
                mock.queue.append(FLOW_RESP[s['h']].encode() + b'\r')      # read by the real _socket_reader
            elif op == 'adv':
                ev.append({'op': 'adv'})
                h.advance_time_and_run(U * (1 + EPS))
            else:
                continue
            settle()
        settle()
        ev.append({'op': 'end', 'pending': sorted(c for c, t in tasks.items() if not t.done()), 'q': comm.send_queue.qsize(),
                   '_paused': comm.pause_sending_flag.is_set(), '_until': str(comm.pause_sending_until)})
        for t in tasks.values():
            t.cancel()
        return {'cmds': flow_cmds(), 'ev': ev, '_sched': sched}
    finally:
        harness.shutdown(h)


def flow_handmade():
    C = lambda c: {'op': 'call', 'c': c}
    A = {'op': 'adv'}
    R = lambda h: {'op': 'resp', 'h': h}
    return [
        [C(1), C(2), A, C(12)],                                     # unconfirmed commands: FIFO
        [C(3), A, R('CH:'), C(1), A],                               # confirmed, answered before the next command
        [C(3), C(1), A, R('CH:'), A],                               # queued command must wait for CH:
        [C(3), C(4), C(1), A, R('ZZ:'), R('CH:'), R('ZZ:'), A],     # response after later traffic / wrong order
        [C(5), A, R('-L:'), C(1), A, R('CH:')],                     # unsolicited switch event while awaiting
        [C(7), A, R('ID:'), A],                                     # processed command, response in time
        [C(7), A, A, A, A, A, R('ID:'), A],                         # response lost for 5 units: 1 resend configured
        [C(9), A, A, A, A, C(1), A],                                # no retries configured: given up after the timeout
        [C(8), A, A, A, A, A, A],                                   # two retries
        [C(5), C(7), A, A, A, A, A, A, A, R('CH:'), A, R('ID:')],   # link busy longer than timeout * (retries + 1)
        [C(6), C(10), A, A, A, A, A, R('-L:'), A, R('ID:'), R('CH:')],
        [C(3), C(11), A, R('-L:'), A, R('CH:')],
    ]


# ===================================================================================== check
def _classify(ctx, wd, module, cfgwriter, devs, traces, rej, verdict, label):
    """Second validation passes: which recorded deviation(s) of the code explain a rejected trace?"""
    sub = [traces[i] for i in rej]
    res = {}
    for name, ds in [(d, [d]) for d in devs] + [('+'.join(devs), devs)]:
        cfgname = 'TraceDev_%s.cfg' % name.replace('+', '_')
        cfgwriter(wd + '/' + cfgname, ds)
        v2 = tlc.validate_traces(wd, module, cfgname, sub, diagnose=False, workers=8)
        ctx.add_trace_verdict('%s(Deviations={%s})' % (label, name), v2, 0)
        res[name] = v2.accepted
    out = {}
    for k, i in enumerate(rej):
        hit = [d for d in devs if k in res[d]]
        if not hit and k in res['+'.join(devs)]:
            hit = list(devs)
        out[i] = hit
    return out


def _diagnose(wd, module, cfgname, traces, rej, why, v, limit=6):
    """lib.tlc diagnoses only the first few rejected traces of a batch: locate the failing line of the rejected traces
    that no recorded deviation explains (they are reported in any case)."""
    n = 0
    for i in rej:
        if why[i] or v.rejected[i].get('line') is not None:
            continue
        if n >= limit:
            break
        n += 1
        v1 = tlc.validate_traces(wd, module, cfgname, [traces[i]], workers=1)
        if 0 in v1.rejected:
            v.rejected[i].update(v1.rejected[0])


def run_framing(ctx):
    cfgs = links()
    by = {c['id']: c for c in cfgs}
    wd = tlc.prepare(ctx.scratch, 'SerialFraming', 'serialframing')
    # ---- exhaustive: every stream within the budget, every chunking
    if ctx.quick:
        mc = [link_tla(by['opp1'], [0, 5], [1, 2]), link_tla(by['fast1'], [0, 2], [0, 2, 3]), link_tla(by['pkone1'], [0, 2], [0, 2, 3])]
        mcseq = [link_tla(by['fast3s'], [0, 1, 3, 4], [0]), link_tla(by['oppw1'], [0, 7, 10, 11], [0])]
        bounds = dict(MaxFrames=2, MaxFaults=1, MaxInsert=1, MaxFill=1, MaxChunk=11)
    else:
        mc = [link_tla(by['opp1'], [0, 3, 5], [0, 1, 2]), link_tla(by['opp2'], [0, 2, 3], [0, 1, 2]),
              link_tla(by['opp3'], [0, 2, 4], [0, 1, 2]), link_tla(by['oppw1'], [0, 8, 10], [0, 1]),
              link_tla(by['oppw2'], [0, 4], [0, 2]), link_tla(by['fast1'], [0, 1, 2, 4]), link_tla(by['fast2'], [0, 2, 3]),
              link_tla(by['fast3s'], [1, 3], [0, 2]),
              link_tla(by['pkone1'], [0, 1, 2]), link_tla(by['pkone2'], [0, 1, 2])]
        bounds = dict(MaxFrames=2, MaxFaults=1, MaxInsert=1, MaxFill=2, MaxChunk=11)
        mcseq = [link_tla(by['fast3s'], [0, 1, 3, 4, 5], [0]), link_tla(by['fast4'], [1, 3, 5], [0]),
                 link_tla(by['oppw1'], [0, 3, 7, 10, 11], [0]), link_tla(by['oppw2'], [0, 4, 8, 9], [0]),
                 link_tla(by['oppw3'], [0, 1, 4], [0])]
    with open(wd + '/SerialFramingMC.tla', 'w') as f:
        f.write(framing_mc_module(mc))
    B = lambda b, spec, conf, dev, props: FRAMING_CFG % (spec, conf, b['MaxFrames'], b['MaxFaults'], b['MaxInsert'],
                                                         b['MaxFill'], b['MaxChunk'], dev, props)
    with open(wd + '/MC.cfg', 'w') as f:
        f.write(B(bounds, 'Spec', 'MCConfigs', '{}', FRAMING_PROPS))
    r = tlc.expect_ok(tlc.check(wd, 'SerialFramingMC', 'MC.cfg', timeout=3000), 'SerialFraming design check')
    ctx.add_tlc('SerialFramingMC', r, dict(bounds, links=len(mc)))
    # longer message sequences on a fault-free link: full-state reports between switch events, repeated reports
    sb = dict(MaxFrames=3 if ctx.quick else 4, MaxFaults=0, MaxInsert=0, MaxFill=0, MaxChunk=16)
    with open(wd + '/SerialFramingSeq.tla', 'w') as f:
        f.write(framing_mc_module(mcseq).replace('SerialFramingMC', 'SerialFramingSeq'))
    with open(wd + '/MCseq.cfg', 'w') as f:
        f.write(B(sb, 'Spec', 'MCConfigs', '{}', FRAMING_PROPS))
    r = tlc.expect_ok(tlc.check(wd, 'SerialFramingSeq', 'MCseq.cfg', timeout=3000), 'SerialFraming design check (report sequences)')
    ctx.add_tlc('SerialFramingSeq', r, dict(sb, links=len(mcseq)))
    ctx.coverage['monitors'] += ['ChunkInvariance', 'BadFrameInert', 'NoInventedState', 'Resync', 'LastReportWins', 'FramesValid',
                                 'SequenceFollowsReports', 'LayoutValid', 'WingReportsApplied']
    # the monitors do detect the code-as-is deviations (FAST/PKONE robustness): expected counterexample
    with open(wd + '/MCdev.cfg', 'w') as f:
        f.write(B(dict(bounds, MaxFrames=1), 'Spec', 'MCConfigs', to_tla(TlaSet(FRAMING_DEVS)), 'INVARIANT BadFrameInert\n'))
    rd = tlc.check(wd, 'SerialFramingMC', 'MCdev.cfg', timeout=3000)
    if rd.violated != 'BadFrameInert':
        raise tlc.TLCError('BadFrameInert does not detect the recorded deviations (violated=%s)' % rd.violated)
    ctx.add_tlc('SerialFramingMC(Deviations=all, expected counterexample)', rd)
    # ---- streams
    with open(wd + '/SerialFramingGen.tla', 'w') as f:
        f.write(framing_mc_module([link_tla(c) for c in cfgs]).replace('SerialFramingMC', 'SerialFramingGen'))
    gen = dict(MaxFrames=3, MaxFaults=3, MaxInsert=2, MaxFill=2, MaxChunk=11)
    with open(wd + '/Gen.cfg', 'w') as f:
        f.write(B(gen, 'Spec', 'MCConfigs', '{}', ''))
    behs, _ = tlc.simulate(wd, 'SerialFramingGen', 'Gen.cfg', num=120 if ctx.quick else 800, depth=70, seed=ctx.seed)
    upto = 11 if ctx.quick else 13         # every chunking for streams up to this many bytes ...
    nexh = 10 ** 6 if ctx.quick else 60   # ... (thorough: for the first nexh such streams, 11 bytes beyond)
    nsample = 30 if ctx.quick else 100
    jobs, seen = [], set()

    def add(cfg, wire, extra):
        key = (cfg['id'], tuple(wire))
        if not wire or key in seen:
            return
        seen.add(key)
        jobs.append([cfg, list(wire), 11, nsample, ctx.seed, list(extra)])
    for cfg, wire, extra in handmade(cfgs):
        add(cfg, wire, extra)
    for b in behs:
        last = b[-1]
        wire = list(last['wire']) + list(last['pending'])
        mask, p = 0, 0
        for s in b:
            if s['act'].get('op') == 'deliver':
                p += s['act']['k']
                if p < len(wire):
                    mask |= 1 << (p - 1)
        add(by[last['cfg']['id']], wire[:by[last['cfg']['id']]['maxwire']], [mask] if len(wire) <= 24 else [])
    rnd = random.Random(ctx.seed)
    for cfg in cfgs:
        for _ in range((6 if cfg['id'].startswith('oppw') else 8) if ctx.quick else 60):
            add(cfg, random_wire(cfg, rnd), [])
    k = 0
    for j in jobs:
        if 11 < len(j[1]) <= upto and k < nexh:
            j[2] = upto
            k += 1
    jobs = [tuple(j) for j in jobs]
    jobs.sort(key=lambda j: -len(j[1]) if len(j[1]) <= j[2] else 0)
    traces = harness.pmap(exec_wire, jobs, chunk=2)
    with open(wd + '/Trace.cfg', 'w') as f:
        f.write(B(dict(MaxFrames=0, MaxFaults=0, MaxInsert=0, MaxFill=0, MaxChunk=0), 'TSpec', 'TConfigs', '{}', 'INVARIANT Reporter\n'))
    v = tlc.validate_traces(wd, 'SerialFramingTrace', 'Trace.cfg', traces, batch=400, workers=12)
    ctx.add_trace_verdict('SerialFramingTrace', v, len(traces))
    nchunk = sum(len(t['ev']) for t in traces)
    ctx.coverage['framing'] = {'streams': len(traces), 'chunkings_executed': nchunk,
                               'per_link': {i: sum(1 for t in traces if t.get('_id') == i) for i in by},
                               'exhaustive_chunkings_upto_bytes': upto}
    ctx.log('framing: %d streams, %d chunkings on the real decoders' % (len(traces), nchunk))
    ctx.sample({'kind': 'framing-trace', 'link': traces[0]['cfg']['id'], 'wire': traces[0]['wire'], 'tbl': traces[0]['tbl'],
                'first_lines': traces[0]['ev'][:3]})
    rej = sorted(v.rejected)
    if rej:
        def wr(path, ds):
            with open(path, 'w') as f:
                f.write(B(dict(MaxFrames=0, MaxFaults=0, MaxInsert=0, MaxFill=0, MaxChunk=0), 'TSpec', 'TConfigs',
                          to_tla(TlaSet(ds)), 'INVARIANT Reporter\n'))
        why = _classify(ctx, wd, 'SerialFramingTrace', wr, FRAMING_DEVS, traces, rej, v, 'SerialFramingTrace')
        _diagnose(wd, 'SerialFramingTrace', 'Trace.cfg', traces, rej, why, v)
        SIG = {'DecodeErrorRaises': 'decode-error-kills-reader', 'MalformedRaises': 'malformed-frame-raises',
               'MalformedAccepted': 'malformed-frame-changes-switch'}
        WHAT = {'DecodeErrorRaises': 'a received line/frame that is not valid UTF-8 (line noise with the high bit set) raises '
                                     'UnicodeDecodeError out of the parser: the read task ends and MPF stops instead of '
                                     'resynchronising on the next terminator',
                'MalformedRaises': 'a switch frame with a malformed payload (empty / non-numeric after corruption or truncation) '
                                   'raises ValueError/IndexError out of the parser: the read task ends instead of dropping the frame',
                'MalformedAccepted': 'a switch frame of the wrong length (a dropped or inserted character) is accepted and changes '
                                     'the state of a (different) switch'}
        for i in rej:
            info = v.rejected[i]
            tr = traces[i]
            proto = tr['cfg']['proto']
            rp = {'cfg_id': tr['cfg']['id'], 'wire': tr['wire'], 'info': info, 'exceptions': tr.get('_exc'),
                  'line': (tr['ev'][info['line'] - 1] if info.get('line') and info['line'] <= len(tr['ev']) else None)}
            if why[i]:
                for d in why[i]:
                    ctx.violation('C14:%s-framing:%s' % (proto, SIG[d]), '%s decoder: %s (stream %s)' % (
                        proto.upper(), WHAT[d], bytes(tr['wire'])), rp)
                continue
            if tr['ev'] and tr['ev'][0].get('t') == 'crash':
                ctx.violation('C14:%s-framing:crash' % proto, '%s platform/decoder raised outside the parser while executing '
                              'stream %s: %s' % (proto.upper(), tr['wire'], tr['ev'][0].get('what')), dict(rp, tb=tr.get('_tb')))
                continue
            ln = rp['line'] or {}
            where = 'link %s' % tr['cfg']['id']
            hist, fin = ln.get('h'), ln.get('s')
            if proto == 'opp' and tr.get('_id') in by:
                # name the cards (wing layout) and the switches: which reports were decoded and what was active after each
                ch = OPP_CHAINS[by[tr['_id']]['mach']]
                nm = [n for n, _, _, _ in ch['sws']]
                where += ', chain of cards %s (wing codes), switches card_i<input>/card_m<matrix number>' % ', '.join(
                    '0x%02x:%s' % (a, wv) for a, wv in ch['cards'])
                hist = [[n for j, n in enumerate(nm) if x >> j & 1] for x in ln.get('h', [])]
                fin = [n for j, n in enumerate(nm) if j < len(ln.get('s', [])) and ln['s'][j]]
            ctx.violation('C14:%s-framing:decode-mismatch' % proto,
                          '%s decoder (%s): chunking %s of stream %r: the decoded messages %s / the active switches after each '
                          'of them %s / the active switches at the end %s differ from the model (decoding of the whole stream, every '
                          'well-formed report of a card that has such inputs applied in order, the last report wins, nothing else '
                          'changes a switch): %s' % (
                              proto.upper(), where, (ln.get('m'), ln.get('k')), bytes(tr['wire']),
                              [bytes(tr['tbl'][i - 1]) for i in ln.get('o', [])], hist, fin, ln), rp)
    return traces


def run_flow(ctx):
    wd = tlc.prepare(ctx.scratch, 'FastFlow', 'fastflow')
    cmds = flow_cmds()
    tab = {c['c']: c for c in cmds}
    mcsel = [tab[i] for i in ((1, 3, 7, 5) if ctx.quick else (1, 3, 7, 5, 8))]
    with open(wd + '/FastFlowMC.tla', 'w') as f:
        f.write(flow_mc_module(mcsel))
    bounds = dict(MaxOps=4, MaxTime=6, MaxResp=2) if ctx.quick else dict(MaxOps=4, MaxTime=8, MaxResp=2)
    F = lambda b, dev, props, cm='MCCmds': FLOW_CFG % ('Spec', cm, 'MCHeaders', b['MaxOps'], b['MaxTime'], b['MaxResp'], dev, props)
    with open(wd + '/MC.cfg', 'w') as f:
        f.write(F(bounds, '{}', FLOW_PROPS))
    r = tlc.expect_ok(tlc.check(wd, 'FastFlowMC', 'MC.cfg', timeout=3000), 'FastFlow design check')
    ctx.add_tlc('FastFlowMC', r, dict(bounds, cmds=len(mcsel)))
    ctx.coverage['monitors'] += ['NoWriteWhileAwaiting', 'FifoWrites', 'RetriedAsConfigured', 'NeverWaitsUnconfirmed',
                                 'LostResponseRetried']
    for dev, want in (('PauseFlagWaitsOnSetEvent', 'NoWriteWhileAwaiting'), ('LostResponseNotRetried', 'NeverWaitsUnconfirmed')):
        with open(wd + '/MCdev.cfg', 'w') as f:
            f.write(F(bounds, '{"%s"}' % dev, FLOW_PROPS))
        rd = tlc.check(wd, 'FastFlowMC', 'MCdev.cfg', timeout=3000)
        if rd.violated != want:
            raise tlc.TLCError('%s does not detect deviation %s (violated=%s)' % (want, dev, rd.violated))
        ctx.add_tlc('FastFlowMC(Deviations={%s}, expected counterexample %s)' % (dev, want), rd)
    # ---- schedules
    with open(wd + '/FastFlowGen.tla', 'w') as f:
        f.write(flow_mc_module(cmds).replace('FastFlowMC', 'FastFlowGen'))
    gen = dict(MaxOps=6, MaxTime=12, MaxResp=5)
    scheds = flow_handmade()
    for k, dev in enumerate(('{}', '{"PauseFlagWaitsOnSetEvent", "LostResponseNotRetried"}')):
        with open(wd + '/Gen%d.cfg' % k, 'w') as f:
            f.write(F(gen, dev, ''))
        behs, _ = tlc.simulate(wd, 'FastFlowGen', 'Gen%d.cfg' % k, num=40 if ctx.quick else 400, depth=40, seed=ctx.seed + k)
        for b in behs:
            s = [{'op': x['act']['op'], 'c': x['act'].get('c', 0), 'h': x['act'].get('h', '')} for x in b
                 if x['act'].get('op') in ('call', 'resp', 'adv')]
            if any(x['op'] == 'call' for x in s):
                scheds.append(s + [{'op': 'adv'}] * 3)
    traces = harness.pmap(exec_flow, scheds, chunk=2)
    T = lambda dev: FLOW_CFG % ('TSpec', 'TCmds', 'THeaders', 10 ** 6, 10 ** 6, 10 ** 6, dev, 'INVARIANT Reporter\n')
    with open(wd + '/Trace.cfg', 'w') as f:
        f.write(T('{}'))
    v = tlc.validate_traces(wd, 'FastFlowTrace', 'Trace.cfg', traces, workers=12)
    ctx.add_trace_verdict('FastFlowTrace', v, len(traces))
    ctx.sample({'kind': 'fast-flow-trace', 'trace': [{k: x for k, x in e.items()} for e in traces[2]['ev']]})
    rej = sorted(v.rejected)
    if rej:
        def wr(path, ds):
            with open(path, 'w') as f:
                f.write(T(to_tla(TlaSet(ds))))
        why = _classify(ctx, wd, 'FastFlowTrace', wr, FLOW_DEVS, traces, rej, v, 'FastFlowTrace')
        _diagnose(wd, 'FastFlowTrace', 'Trace.cfg', traces, rej, why, v)
        SIG = {'PauseFlagWaitsOnSetEvent': 'write-while-awaiting', 'LostResponseNotRetried': 'lost-response-not-retried'}
        WHAT = {'PauseFlagWaitsOnSetEvent': '_socket_writer does `if pause_sending_flag.is_set(): await pause_sending_flag.wait()`; '
                                            'waiting for an Event that is set returns at once, so the next queued command is '
                                            'written before the awaited confirmation has arrived',
                'LostResponseNotRetried': 'send_and_wait_for_response_processed: the timeout only covers the wait for '
                                          'no_response_waiting, never the wait for the response; a lost response is never resent '
                                          '(max_retries is only consumed while the link is busy, after which the command is not '
                                          'sent at all) and the caller waits for done_waiting without a timeout'}
        for i in rej:
            info = v.rejected[i]
            rp = {'sched': traces[i].get('_sched'), 'trace': traces[i]['ev'], 'info': info}
            if why[i]:
                for d in why[i]:
                    ctx.violation('C14:fast-flow:%s' % SIG[d], '%s; schedule %s; rejected at line %s: %s' % (
                        WHAT[d], _short(traces[i].get('_sched')), info.get('line'), info.get('failing_event')), rp)
                continue
            fe = info.get('failing_event') or {}
            ctx.violation('C14:fast-flow:%s-unexplained' % fe.get('op', 'end'),
                          'FAST command channel execution not explained by FastFlow at line %s: %s (prev %s)' % (
                              info.get('line'), fe, info.get('prev_event')), rp)
    return traces


def _short(s):
    return ' '.join((x['op'] + (':%s' % x['c'] if x['op'] == 'call' else ':' + x['h'] if x['op'] == 'resp' else '')) for x in (s or []))


def run(ctx):
    run_framing(ctx)
    run_flow(ctx)
    ctx.assumptions += [
        'decoders are driven at their parsing entry points (_parse_msg / parse_incoming_raw_bytes) with the byte chunks a '
        'StreamReader.read(128) could return; the flow-control harness feeds the real _socket_reader through the port mock',
        'OPP: chains of one to four emulated Gen2 cards (OPP_CHAINS), each booted as its own machine with the wing layout the '
        'cards report at start-up: 0x20 32 inputs + 0x21 16 inputs and matrix; matrix with incandescent wings only + solenoid, '
        'solenoid, matrix + neopixel, input, solenoid, hi-side incandescent; low-wing matrix with lamp matrix + 8-solenoid, '
        'hi-side incandescent, matrix + neopixel/solenoid, incandescent, input, unpopulated + incandescent only; a single '
        'card hi-side incandescent, incandescent, matrix.  Wing positions are not restricted to those real cards accept; '
        'all cards of a chain are Gen2 and answer the inventory; firmware 2.2.0.0.  Resync on OPP is claimed '
        'only for frames after cfg.G end-of-message bytes (back-to-back reports whose CRC byte looks like an address byte can '
        'keep the decoder out of synch: the "unknown command" branch drops two bytes)',
        'FAST/PKONE noise alphabets are chosen so that only switch-event and SA: report headers can be formed (and no white '
        'space, which bytearray.fromhex / int() would skip); bytes >= 0x80 used as noise are never valid UTF-8 (0xff)',
        'FAST full-state reports: SA: of a Neuron (14 data bytes; link fast3s: 4 data bytes, which still cover the configured '
        'switches) and of a Nano (separate emulated machine, 9 data bytes, -N:/ /N: events); the Retro communicator inherits '
        '_process_sa of the Neuron unchanged and is not booted.  Reports carry raw states (a normally-closed switch is active '
        'when its bit is 0, as in the repository tests), events carry logical states.  Every chunking starts from: report '
        'with all bits 0, then an "open" event for every configured switch',
        'PKONE PSA (all switches of a board) is only requested and consumed during boot, before the read task exists; at run '
        'time receive_all_switches only refreshes hw_switch_data. It is not modelled as a report',
        'FastFlow: the periodic watchdog send_and_forget is switched off; commands are synthetic strings C<id>: (the '
        'communicator does not interpret them), confirmations are real ID:/CH:/-L:/XX: lines plus an unknown header ZZ:',
        'OPP look-alike payloads (link opp2: data bytes 0x20..0x3f followed by 0x08/0x19): no bounded Resync is claimed, TLC '
        'shows valid reports lost for more than two end-of-message groups after a single corrupted byte',
    ]


def replay(ctx, data):
    d = data['replay']
    if 'wire' in d:
        cfg = [c for c in links() if c['id'] == d['cfg_id']][0]
        tr = exec_wire((cfg, d['wire'], 12, 20, ctx.seed, []))
        print('replayed stream %s on %s: %d chunkings, exceptions %s' % (d['wire'], cfg['id'], len(tr['ev']), tr.get('_exc')))
        wd = tlc.prepare(ctx.scratch, 'SerialFraming', 'serialframing')
        with open(wd + '/Trace.cfg', 'w') as f:
            f.write(FRAMING_CFG % ('TSpec', 'TConfigs', 0, 0, 0, 0, 0, '{}', 'INVARIANT Reporter\n'))
        v = tlc.validate_traces(wd, 'SerialFramingTrace', 'Trace.cfg', [tr])
    else:
        tr = exec_flow(d['sched'])
        for e in tr['ev']:
            print('   ', e)
        wd = tlc.prepare(ctx.scratch, 'FastFlow', 'fastflow')
        with open(wd + '/Trace.cfg', 'w') as f:
            f.write(FLOW_CFG % ('TSpec', 'TCmds', 'THeaders', 10 ** 6, 10 ** 6, 10 ** 6, '{}', 'INVARIANT Reporter\n'))
        v = tlc.validate_traces(wd, 'FastFlowTrace', 'Trace.cfg', [tr])
    for i, info in v.rejected.items():
        ctx.violation(data['sig'], 'replayed: rejected at line %s: %s' % (info.get('line'), info.get('failing_event')), d)
