"""Custom code loaded by machines/base_boot during MPF's boot (between init_phase_3 and init_phase_4): hands the
machine to the C01 driver so that part of a schedule is executed from boot context."""
from mpf.core.custom_code import CustomCode


class BootCode(CustomCode):

    def on_load(self):
        from drivers import c01
        c01.boot_hook(self.machine)
