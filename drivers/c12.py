"""C12 — config validation returns well-typed complete configs or rejects (specs/ConfigTypes).

TLC is the exhaustive case enumerator / oracle: ConfigTypes.tla defines Judge(case) for every
(item type, validator class, params, input class).  This driver walks EVERY key of EVERY section of
config_spec.yaml (as loaded by the booted machine from the working tree), draws concrete representatives
of every input class, calls the real ConfigValidator and logs small observation records (type names and
flags computed from the real values).  ConfigTypesTrace.tla checks every record against Judge.
Section-level lines check completeness / unknown keys / provided keys / "spec never modified";
time lines call Util.string_to_ms / string_to_secs directly for every suffix.
NEAR-MISS inputs (classes nm_<base>_<mutation>, near_miss generator below): every prefix / suffix / length / alphabet mutant
of a valid representative of each string-parsed value type (hex and named colours, "r, g, b", numbers, booleans, times, enum
members, device names, hex bytes, gains, powers of two, tokens) is fed to the validators whose grammar it belongs to, and to
the time functions directly; the returned colour VALUES are logged (cc / kc) and judged by ColourOK / KivyOK in the trace spec.
"""
import copy
import logging
import math
import random
import re
from fractions import Fraction

from lib import tlc, harness

LEVEL = 'model_checking'
MACHINE = 'configtypes'

# ----------------------------------------------------------------------------------------------
# vocabulary shared with specs/ConfigTypes/ConfigTypes.tla (keep in sync; the Trace spec asserts
# that every logged case is a member of the model-checked case set)
# ----------------------------------------------------------------------------------------------
SUFFIXES = ('ms', 'msec', 's', 'sec', 'm', 'h', 'd')
UNIT_MS = {'ms': 1, 'msec': 1, 's': 1000, 'sec': 1000, 'm': 60000, 'h': 3600000, 'd': 86400000}
TIME_CLASSES = tuple('t_%s_%s_%s' % (s, c, w) for s in SUFFIXES for c in ('l', 'u') for w in ('w', 'f'))
SCALAR_CLASSES = (
    'none', 'none_str', 'empty_str', 'true', 'false', 'bool_true_str', 'bool_false_str',
    'int_neg', 'int_zero', 'int_pos', 'int_huge', 'float_neg', 'float_zero', 'float_pos', 'float_frac',
    'float_nan', 'float_inf', 'nan_str', 'inf_str',
    'num_str_int', 'num_str_neg', 'num_str_float',
    'int_below', 'int_in', 'int_above', 'float_below', 'float_in', 'float_above', 'str_below', 'str_above',
    'garbage_str', 'token_str', 'tmpl_expr', 'tmpl_brace',
    'enum_member', 'enum_member_upper', 'enum_nonmember', 'dev_name', 'dev_unknown',
    'hex_str', 'color_name', 'color_hex', 'csv_int3', 'csv_int4', 'gain_db_str',
) + TIME_CLASSES
# near-miss classes nm_<base>_<mutation> (NearMiss in ConfigTypes.tla): one mutation of a valid representative of a
# string-parsed value type that leaves the grammar of the base
NM_BASES = ('hex6', 'hex8', 'cname', 'csv3', 'int', 'float', 'bool', 'time', 'enum', 'dev', 'hexb', 'gaindb', 'pow2', 'tok')
NM_MUTS = ('pre', 'suf', 'long', 'short', 'sub')
NM_CLASSES = tuple('nm_%s_%s' % (b, mu) for b in NM_BASES for mu in NM_MUTS)
NM_ELEM = ('nm_hex6_long', 'nm_int_suf', 'nm_time_suf', 'nm_enum_suf')
NM_MAX_VARIANTS = 5
SCALAR_CLASSES = SCALAR_CLASSES + NM_CLASSES
ELEM_CLASSES = ('none', 'empty_str', 'true', 'int_pos', 'int_neg', 'float_frac', 'num_str_int', 'garbage_str',
                'bool_true_str', 't_s_l_w', 'enum_member', 'enum_nonmember', 'dev_name', 'token_str', 'float_nan') + NM_ELEM
CONTAINER_SHAPES = ('list2', 'nested', 'list_empty', 'csv', 'dict_str', 'dict_int', 'dict_numstr', 'dict_dev', 'tuple3')
ITEM_TYPES = ('single', 'list', 'set', 'dict', 'event_handler')
VCLASSES = ('str', 'lstr', 'int', 'float', 'num', 'bool', 'bool_int', 'ms', 'secs', 'enum', 'machine', 'subconfig',
            'template_int', 'template_float', 'template_bool', 'template_ms', 'template_secs', 'template_str',
            'list', 'dict', 'int_from_hex', 'kivycolor', 'color', 'gain', 'pow2')
ALIASES = {'event_posted': 'str', 'event_handler': 'str', 'boolean': 'bool'}
CLEAN = (AssertionError, ValueError)        # ConfigFileError is an AssertionError (mpf.exceptions.base_error)
GARBAGE = ('foo bar!', 'xq_zz#', '@@', 'zz top?', 'qu ux_', 'n/a!')
TRUE_STR = ('true', 't', 'yes', 'enable', 'on', 'True', 'YES', 'On', 'T')
FALSE_STR = ('false', 'f', 'no', 'disable', 'off', 'False', 'NO', 'Off', 'F')
FRAC_EXACT = (Fraction(1, 2), Fraction(3, 2), Fraction(9, 4), Fraction(1, 8), Fraction(5, 4))
BIG = 2 ** 31 - 1


def all_input_classes():
    """[(shape, elemclass)] — the same set as InputClasses in ConfigTypes.tla."""
    out = [('scalar', c) for c in SCALAR_CLASSES]
    out += [(sh, c) for sh in CONTAINER_SHAPES for c in ELEM_CLASSES]
    out += [('empty_list', 'na'), ('empty_dict', 'na'), ('default', 'na')]
    return out


# ----------------------------------------------------------------------------------------------
# spec string -> validator info
# ----------------------------------------------------------------------------------------------
def parse_validator(v):
    """'int(0,63)' -> dict(vc='int', tok=False, rng=(0.0, 63.0), ...); returns None if not classifiable."""
    v = v.strip()
    param = None
    if '(' in v and v.endswith(')'):
        v, param = v.split('(', 1)
        param = param[:-1]
    tok = False
    if v.endswith('_or_token'):
        tok = True
        v = v[:-len('_or_token')]
    v = ALIASES.get(v, v)
    if v not in VCLASSES:
        return None
    info = {'vc': v, 'tok': tok, 'rng': None, 'enum': None, 'coll': None, 'sub': None, 'param': param}
    if param is not None:
        if v in ('int', 'float', 'num'):
            p = param.split(',')
            info['rng'] = (None if p[0] == 'NONE' else float(p[0]), None if p[1] == 'NONE' else float(p[1]))
        elif v == 'enum':
            info['enum'] = param.lower().split(',')
        elif v == 'machine':
            info['coll'] = param
        elif v == 'subconfig':
            info['sub'] = param
    if v == 'gain':
        info['rng'] = (0.0, 1.0)      # Util.string_to_gain: "Returns float containing a gain value (0.0 to 1.0)"
    return info


def parse_key(spec):
    """spec = [item_type, validation, default] -> dict(it, v (value validator), k (key validator or None), dflt)."""
    it, val, dflt = spec
    if it not in ITEM_TYPES:
        return None
    kinfo = None
    if it in ('dict', 'event_handler'):
        if ':' not in val:
            return None
        parts = val.split(':')
        kinfo = parse_validator(parts[0])
        vinfo = parse_validator(parts[1])
        if kinfo is None:
            return None
    else:
        vinfo = parse_validator(val)
    if vinfo is None:
        return None
    if dflt.lower() == 'none':
        dcl = 'none'
    elif not dflt:
        dcl = 'required'
    else:
        dcl = 'value'
    return {'it': it, 'v': vinfo, 'k': kinfo, 'dcl': dcl, 'spec': spec}


def walk_spec(spec):
    """Yield (section path tuple, key, spec list) for every leaf key of every section."""
    for sec in sorted(spec):
        d = spec[sec]
        if not isinstance(d, dict):
            continue
        stack = [((sec,), d)]
        while stack:
            path, dd = stack.pop()
            for k in sorted(dd):
                v = dd[k]
                if k.startswith('__') or v == 'ignore':
                    continue
                if isinstance(v, dict):
                    stack.append((path + (k,), v))
                elif isinstance(v, list) and len(v) == 3:
                    yield path, k, v


# ----------------------------------------------------------------------------------------------
# representatives of the input classes
# ----------------------------------------------------------------------------------------------
class Skip(Exception):
    """This class has no representative for this key."""


def _range_of(info):
    r = info.get('rng')
    if not r or (r[0] is None and r[1] is None):
        return None
    return r


def num_value(x):
    """Numeric value denoted by an input (Fraction) or None."""
    if isinstance(x, bool):
        return Fraction(int(x))
    if isinstance(x, int):
        return Fraction(x)
    if isinstance(x, float):
        if math.isnan(x) or math.isinf(x):
            return None
        return Fraction(x)
    if isinstance(x, str):
        try:
            return Fraction(x.strip()) if x.strip() and all(c in '+-.0123456789' for c in x.strip()) else None
        except (ValueError, ZeroDivisionError):
            return None
    return None


def draw_scalar(cls, info, rnd, m, var=None):
    """Return (value, meta) for scalar class cls in the context of validator info; raise Skip if n/a.
    var: index of the mutant for near-miss classes (None = a random one)."""
    rg = _range_of(info)
    meta = {}
    if cls.startswith('nm_'):
        _, base, mut = cls.split('_')
        if base not in nm_relevant_bases(info):
            raise Skip()
        vs = nm_variants(base, mut, info, rnd, m)
        if not vs or (var is not None and var >= len(vs)):
            raise Skip()
        return (rnd.choice(vs) if var is None else vs[var]), meta
    if cls == 'none':
        return None, meta
    if cls == 'none_str':
        return rnd.choice(('None', 'none', 'NONE')), meta
    if cls == 'empty_str':
        return '', meta
    if cls == 'true':
        return True, meta
    if cls == 'false':
        return False, meta
    if cls == 'bool_true_str':
        return rnd.choice(TRUE_STR), meta
    if cls == 'bool_false_str':
        return rnd.choice(FALSE_STR), meta
    if cls == 'int_neg':
        return -rnd.randint(1, 90), meta
    if cls == 'int_zero':
        return 0, meta
    if info['vc'] == 'pow2' and cls in ('int_pos', 'num_str_int', 'float_pos'):
        if cls == 'float_pos':
            return rnd.choice((4.0, 8.7, 16.25, 3.5)), meta
        x = rnd.choice((1, 2, 4, 8, 16, 32, 64, 3, 12))
        return (x if cls == 'int_pos' else str(x)), meta
    if cls == 'int_pos':
        return rnd.randint(1, 90), meta
    if cls == 'int_huge':
        return 2 ** 40 + rnd.randint(0, 1000), meta
    if cls == 'float_neg':
        return -(rnd.randint(1, 90) + 0.5), meta
    if cls == 'float_zero':
        return 0.0, meta
    if cls == 'float_pos':
        return rnd.randint(1, 90) + rnd.choice((0.25, 0.5, 0.75)), meta
    if cls == 'float_frac':
        return rnd.choice((0.125, 0.25, 0.5, 0.75)), meta
    if cls == 'float_nan':
        return float('nan'), meta
    if cls == 'float_inf':
        return rnd.choice((float('inf'), float('-inf'))), meta
    if cls == 'nan_str':
        return rnd.choice(('nan', 'NaN', '.nan')), meta
    if cls == 'inf_str':
        return rnd.choice(('inf', '-inf', 'Infinity')), meta
    if cls == 'num_str_int':
        return str(rnd.randint(1, 90)), meta
    if cls == 'num_str_neg':
        return str(-rnd.randint(1, 90)), meta
    if cls == 'num_str_float':
        return '%d.%s' % (rnd.randint(1, 90), rnd.choice(('25', '5', '75'))), meta
    if cls in ('int_below', 'int_in', 'int_above', 'float_below', 'float_in', 'float_above', 'str_below', 'str_above'):
        if not rg:
            raise Skip()
        lo, hi = rg
        kind, where = cls.split('_')
        if where == 'below':
            if lo is None:
                raise Skip()
            x = int(lo) - rnd.randint(2, 9)
        elif where == 'above':
            if hi is None:
                raise Skip()
            x = int(hi) + rnd.randint(2, 9)
        else:
            a = int(lo) if lo is not None else int(hi) - 10
            b = int(hi) if hi is not None else int(lo) + 10
            x = rnd.randint(a, b)
            if kind == 'float':
                x = rnd.choice((float(a), float(b), a + (b - a) * rnd.choice((0.25, 0.5, 0.75))))
        if kind == 'float':
            return float(x) + (0.5 if where == 'above' else (-0.5 if where == 'below' else 0.0)), meta
        if kind == 'str':
            return str(x), meta
        return x, meta
    if cls == 'garbage_str':
        return rnd.choice(GARBAGE), meta
    if cls == 'token_str':
        return '(tok_%s)' % rnd.choice('abc'), meta
    if cls == 'tmpl_expr':
        return 'machine.c12_var_%s + 1' % rnd.choice('abc'), meta
    if cls == 'tmpl_brace':
        return '{machine.c12_var_%s}' % rnd.choice('abc'), meta
    if cls in ('enum_member', 'enum_member_upper', 'enum_nonmember'):
        if not info.get('enum'):
            raise Skip()
        if cls == 'enum_nonmember':
            return 'zz_not_a_member', meta
        e = rnd.choice([x for x in info['enum'] if x != 'none'] or ['none'])
        if e == 'none':
            raise Skip()
        return (e.upper() if cls == 'enum_member_upper' else e), meta
    if cls == 'dev_name':
        if not info.get('coll'):
            raise Skip()
        coll = getattr(m, info['coll'], None)
        names = sorted(coll.keys()) if coll is not None and hasattr(coll, 'keys') else []
        if not names:
            raise Skip()
        return rnd.choice(names), meta
    if cls == 'dev_unknown':
        if not info.get('coll'):
            raise Skip()
        return 'zz_no_such_device', meta
    if cls == 'hex_str':
        return rnd.choice(('ff', '1A', 'c0', '0e', 'Fe')), meta
    if cls == 'color_name':
        return rnd.choice(('red', 'blue', 'aliceblue', 'orange')), meta
    if cls == 'color_hex':
        return rnd.choice(('ff8000', 'FFFFFF', '00aa11', '191919ff')), meta
    if cls == 'csv_int3':
        return '%d, %d, %d' % (rnd.randint(0, 255), rnd.randint(0, 255), rnd.randint(0, 255)), meta
    if cls == 'csv_int4':
        return '%d,%d,%d,%d' % (rnd.randint(0, 255), rnd.randint(0, 255), rnd.randint(0, 255), rnd.randint(0, 255)), meta
    if cls == 'gain_db_str':
        return rnd.choice(('-3db', '-6.5 dB', '-inf db', '0db')), meta
    if cls.startswith('t_'):
        _, suf, case, w = cls.split('_')
        if w == 'w':
            val = Fraction(rnd.randint(1, 20))
            txt = str(int(val))
        else:
            val = rnd.choice(FRAC_EXACT)
            txt = repr(float(val))
        if suf == 'd' and w == 'w':
            val = Fraction(rnd.randint(1, 9))
            txt = str(int(val))
        s = txt + (suf.upper() if case == 'u' else suf)
        meta = {'suf': suf, 'vm': int(val * 1000)}
        return s, meta
    raise KeyError(cls)


# ----------------------------------------------------------------------------------------------
# near-miss generator: prefix / suffix / length / alphabet mutation of a valid representative of every string-parsed type
# ----------------------------------------------------------------------------------------------
# bases whose near-misses are meaningful for a validator class (a near-miss of a colour is plain garbage for a bool
# validator: garbage_str covers that); 'tok' is added for *_or_token validators
NM_RELEVANT = {
    'color': ('hex6', 'hex8', 'cname', 'csv3'), 'kivycolor': ('hex6', 'hex8', 'cname', 'csv3'),
    'int': ('int',), 'float': ('float', 'int'), 'num': ('int', 'float'), 'template_int': ('int',), 'template_float': ('float',),
    'bool': ('bool',), 'bool_int': ('bool',), 'template_bool': ('bool',),
    'ms': ('time', 'int', 'float'), 'secs': ('time', 'int', 'float'), 'template_ms': ('time',), 'template_secs': ('time',),
    'enum': ('enum',), 'machine': ('dev',), 'int_from_hex': ('hexb',), 'gain': ('gaindb', 'float'), 'pow2': ('pow2', 'int'),
}
BOOL_WORDS = frozenset(x.lower() for x in TRUE_STR + FALSE_STR)
_NM_NUM = re.compile(r'^\s*[+-]?(\d[\d_]*\.?[\d_]*|\.\d[\d_]*)([eE][+-]?\d+)?\s*$')
_NM_TIME = re.compile(r'^\s*[+-]?(\d[\d_]*\.?[\d_]*|\.\d[\d_]*)([eE][+-]?\d+)?\s*(msec|ms|sec|s|m|h|d)\s*$', re.I)
_NM_HEXCOL = re.compile(r'^[0-9a-fA-F]{6}$|^[0-9a-fA-F]{8}$')
_NAMED = {}


def nm_relevant_bases(info):
    return NM_RELEVANT.get(info['vc'], ()) + (('tok',) if info.get('tok') else ())


def denotes_value(s):
    """Recogniser of the driver's own (deliberately generous, not mpf's): does s denote a number, a time, a boolean, None?"""
    low = s.strip().lower()
    return bool(_NM_NUM.match(s) or _NM_TIME.match(s) or low in BOOL_WORDS or low in ('', 'none')
                or low.lstrip('+-.') in ('inf', 'infinity', 'nan'))


def _named_colors():
    if not _NAMED:
        from mpf.core.rgb_color import NAMED_RGB_COLORS
        _NAMED.update({str(k).lower(): 1 for k in NAMED_RGB_COLORS})
    return _NAMED


def time_mutants(num, suf, mut):
    """Near-miss mutants of the time string num+suf (suf '' = a bare number)."""
    s = num + suf
    if mut == 'pre':
        vs = ['x' + s, suf + num if suf else '#' + s]
    elif mut == 'suf':
        vs = [s + 'x', s + '2' if suf else s + '%', s + '.' if suf else s + '-']
    elif mut == 'long':
        vs = [s + s[-1], s + 'm', s + 'ec'] if suf else [num.replace('.', '..') if '.' in num else num + '..', '--' + num]
    elif mut == 'short':
        vs = [suf, s[:-1]] if suf else ['-', '.']
    else:
        vs = [num[0] + 'x' + num[1:] + suf, num + '-' + suf if suf else num[:-1] + 'x']
    out = []
    for v in vs:
        if v and not denotes_value(v) and v not in out:
            out.append(v)
    return out


def nm_variants(base, mut, info, rnd, m):
    """All mutants of kind mut of ONE random valid representative of base, none of which is a value of the base type
    (checked with the recognisers above / the enum list / the device collection of the spec string)."""
    vs = []
    check = denotes_value
    if base == 'hex6':
        s = rnd.choice(('ff0000', '255000', 'deadbe', '00FF7f', 'aabbcc', '%06x' % rnd.randrange(1 << 24)))
        vs = {'pre': ['#' + s, 'x' + s, '0x' + s, '-' + s],
              'suf': [s + '-f2s', s + 'zz', s + 'xyz', s + '!'],
              'long': [s + s[-1], s + s[:3], s + s[:4], s + s],            # 7, 9, 10, 12 hex digits
              'short': [s[:5], s[:4], s[:3]],
              'sub': ['g' + s[1:], s[:3] + 'x' + s[4:], s[:5] + 'z']}[mut]
        check = _NM_HEXCOL.match
    elif base == 'hex8':
        s = rnd.choice(('ff0000ff', '19191980', 'DEADBEEF', '%08x' % rnd.randrange(1 << 32)))
        vs = {'pre': ['#' + s, 'x' + s],
              'suf': [s + 'zz', s + '-f2s', s + '!'],
              'long': [s + s[-1], s + s[:2], s + s[:4]],                   # 9, 10, 12 hex digits
              'short': [s[:7]],
              'sub': ['g' + s[1:], s[:7] + 'z']}[mut]
        check = _NM_HEXCOL.match
    elif base == 'cname':
        s = rnd.choice(('red', 'blue', 'aliceblue', 'orange', 'white'))
        vs = {'pre': ['x' + s, '#' + s], 'suf': [s + 'x', s + '2', s + '-ish'], 'long': [s + s[-1], s[0] + s],
              'short': [s[:-1], s[1:]], 'sub': [s[:-1] + '#', '_' + s[1:]]}[mut]
        named = _named_colors()
        check = lambda v: v.lower() in named or _NM_HEXCOL.match(v)        # noqa: E731
    elif base == 'csv3':
        c = [str(rnd.randint(100, 255)), str(rnd.randint(0, 255)), str(rnd.randint(0, 255))]
        j = ', '.join(c)
        vs = {'pre': ['x' + j, '-' + j, '#' + j],
              'suf': [j + 'x', j + ' px', j + '.5'],
              'long': [j + ', 0', j + ', 0, 0', c[0][0] + j],               # 4 / 5 elements, a component one digit too long
              'short': [', '.join(c[:2]), '%03d%03d%03d' % tuple(int(x) for x in c), ' '.join(c)],
              'sub': ['; '.join(c), c[0] + ', x, ' + c[2], c[0] + ',, ' + c[2]]}[mut]
        check = lambda v: False                                            # noqa: E731
    elif base == 'int':
        s = str(rnd.choice((1, -1)) * rnd.randint(1, 90))
        vs = {'pre': ['a' + s, 'x' + s, '#' + s], 'suf': [s + 'a', s + 'x', s + '-', s + '%'],
              'long': ['--' + s.lstrip('-'), s + '..'], 'short': ['-'],
              'sub': [s[:-1] + 'x', s[0] + 'l' + s[1:]]}[mut]
    elif base == 'float':
        s = '%d.%s' % (rnd.randint(1, 90), rnd.choice(('2', '25', '5', '75')))
        vs = {'pre': ['x' + s, 'a' + s], 'suf': [s + 'x', s + '.3', s + 'f'], 'long': [s.replace('.', '..')], 'short': ['.'],
              'sub': [s.replace('.', ':'), s.replace('.', 'x')]}[mut]
    elif base == 'bool':
        s = rnd.choice(TRUE_STR + FALSE_STR)
        vs = {'pre': ['x' + s, 'un' + s], 'suf': [s + 'x', s + '1', s + '!'], 'long': [s + s[-1]], 'short': [s[:-1]],
              'sub': [s[:-1] + 'x', '_' + s[1:]]}[mut]
    elif base == 'time':
        suf = rnd.choice(SUFFIXES)
        num = rnd.choice((str(rnd.randint(10, 200)), '%d.5' % rnd.randint(1, 20)))
        if suf in ('ms', 'msec'):
            num = str(rnd.randint(10, 200))
        return time_mutants(num, suf.upper() if rnd.random() < 0.3 else suf, mut)
    elif base == 'enum':
        members = [x for x in (info.get('enum') or []) if x and x != 'none']
        if not members:
            return []
        e = rnd.choice(members)
        vs = {'pre': ['x' + e, '_' + e], 'suf': [e + 'x', e + '_'], 'long': [e + e[-1]], 'short': [e[:-1]], 'sub': [e[:-1] + '#']}[mut]
        allowed = set(info['enum'])
        check = lambda v: v.lower() in allowed or v.lower() in ('', 'none')  # noqa: E731
    elif base == 'dev':
        coll = getattr(m, info['coll'], None) if info.get('coll') else None
        names = sorted(coll.keys()) if coll is not None and hasattr(coll, 'keys') else []
        if not names:
            return []
        e = rnd.choice(names)
        vs = {'pre': ['x' + e, '_' + e], 'suf': [e + 'x', e + '_'], 'long': [e + e[-1]], 'short': [e[:-1]], 'sub': [e[:-1] + '#']}[mut]
        check = lambda v: v in names or v.lower() in ('', 'none')           # noqa: E731
    elif base == 'hexb':
        s = rnd.choice(('ff', '1A', 'c0', '0e', 'Fe'))
        vs = {'pre': ['x' + s, '#' + s], 'suf': [s + 'x', s + 'g', s + 'h'], 'long': [], 'short': [],
              'sub': ['g' + s[1:], s[0] + 'z']}[mut]
        check = lambda v: False                                            # noqa: E731
    elif base == 'gaindb':
        s = rnd.choice(('-3db', '-6.5 dB', '0db', '-12DB'))
        vs = {'pre': ['x' + s], 'suf': [s + 'x'], 'long': [s + 'b'], 'short': [s[:-1]], 'sub': ['-3.5.2db', '--3db']}[mut]
    elif base == 'pow2':
        s = rnd.choice(('2', '16', '64', '128'))
        vs = {'pre': ['x' + s], 'suf': [s + 'x', s + '!'], 'long': [], 'short': [], 'sub': [s[:-1] + 'x']}[mut]
    elif base == 'tok':
        t = '(tok_%s)' % rnd.choice('abc')
        vs = {'pre': ['x' + t], 'suf': [t + 'x'], 'long': [], 'short': [t[:-1], t[1:]], 'sub': ['[' + t[1:], t[:-1] + ']']}[mut]
    out = []
    for v in vs:
        if v and not check(v) and v not in out:
            out.append(v)
    return out[:NM_MAX_VARIANTS]


def nm_base(ec):
    """'nm_hex6_long' -> 'hex6' (None for the other classes)."""
    return ec.split('_')[1] if isinstance(ec, str) and ec.startswith('nm_') else None


def str_form(x):
    """How an element is written inside a comma separated string."""
    return str(x)


def draw_input(shape, ec, key, rnd, m, var=None):
    """Build the concrete input value for class (shape, ec).  Returns (value, elems, flat) where elems is the list of
    (elem value, meta) the class decomposes into (for relation flags), or None when the decomposition is opaque;
    flat = the scalar representatives the value was built from (for the relation to the declared range)."""
    r = _draw_input(shape, ec, key, rnd, m, var)
    return r if len(r) == 3 else (r[0], r[1], r[1])


def _draw_input(shape, ec, key, rnd, m, var=None):
    info = key['v']
    if shape == 'scalar':
        if ec.startswith('nm_'):
            # a whole item that is no dict / an event name: nothing of the value type is parsed
            if key['it'] in ('dict', 'event_handler') or (nm_base(ec) == 'csv3' and key['it'] != 'single'):
                raise Skip()
        v, meta = draw_scalar(ec, info, rnd, m, var)
        if ec in ('csv_int3', 'csv_int4') and key['it'] in ('list', 'set'):
            return v, [(x.strip(), {}) for x in v.split(',')]
        return v, [(v, meta)]
    if shape == 'empty_list':
        return [], []
    if shape == 'empty_dict':
        return {}, []
    e1 = draw_scalar(ec, info, rnd, m)
    e2 = draw_scalar(ec, info, rnd, m)
    for _ in range(8):
        if e2[0] != e1[0] or ec in ('none', 'empty_str', 'true', 'float_nan', 'enum_nonmember'):
            break
        e2 = draw_scalar(ec, info, rnd, m)
    if shape == 'list2':
        return [e1[0], e2[0]], [e1, e2]
    if shape == 'nested':
        return [[e1[0], e2[0]]], None, [e1, e2]
    if shape == 'list_empty':
        return [e1[0], ''], [e1, ('', {})]
    if shape == 'csv':
        if ec in ('empty_str',):
            raise Skip()
        txt = '%s, %s' % (str_form(e1[0]), str_form(e2[0]))
        if key['it'] == 'single':
            return txt, [(txt, {})], [e1, e2]         # one element is expected: the string as a whole
        return txt, [(str_form(e1[0]), e1[1]), (str_form(e2[0]), e2[1])], [e1, e2]
    if shape == 'dict_str':
        return {'ka': e1[0], 'kb_2': e2[0]}, [e1, e2]
    if shape == 'dict_int':
        return {3: e1[0], 11: e2[0]}, [e1, e2]
    if shape == 'dict_numstr':
        return {'3': e1[0], '11': e2[0]}, [e1, e2]
    if shape == 'dict_dev':
        kinfo = key.get('k')
        if not kinfo or not kinfo.get('coll'):
            raise Skip()
        name, _ = draw_scalar('dev_name', kinfo, rnd, m)
        return {name: e1[0]}, [e1]
    if shape == 'tuple3':
        e3 = draw_scalar(ec, info, rnd, m)
        return (e1[0], e2[0], e3[0]), None, [e1, e2, e3]
    raise KeyError(shape)


# ----------------------------------------------------------------------------------------------
# observation of a result
# ----------------------------------------------------------------------------------------------
def tname(x, isdev=False):
    if isdev:
        return 'device'
    if x is None:
        return 'NoneType'
    n = type(x).__name__
    if n == 'NativeTypeTemplate':
        return 'Native_' + type(x.value).__name__
    if isinstance(x, dict):
        return 'dict'
    if isinstance(x, list):
        return 'list'
    if isinstance(x, set):
        return 'set'
    if isinstance(x, tuple):
        return 'tuple'
    return n


def in_range(info, r):
    rg = _range_of(info)
    if not rg or r is None or not isinstance(r, (int, float)):
        return True
    lo, hi = rg
    ok = True
    if lo is not None:
        ok = ok and (r >= lo)
    if hi is not None:
        ok = ok and (r <= hi)
    return bool(ok)


def _ms_of(info, r):
    """Result of a time validator in integer ms (or None) and exactness."""
    if type(r).__name__ == 'NativeTypeTemplate':
        r = r.value
    if isinstance(r, bool) or not isinstance(r, (int, float)):
        return None, False
    if isinstance(r, float) and (math.isnan(r) or math.isinf(r)):
        return None, False
    x = r * 1000.0 if info['vc'] in ('secs', 'template_secs') else float(r)
    if abs(x) >= BIG:
        return None, False
    return int(round(x)), abs(x - round(x)) < 1e-6


def elem_flags(info, inp, res, m, cv):
    """Flags (set of names) that hold between one input element and its result, computed from the real values."""
    f = set()
    if res is None:
        f.add('none')
    nv = num_value(inp)
    rv = res.value if type(res).__name__ == 'NativeTypeTemplate' else res
    if nv is not None and isinstance(rv, (int, float)) and not (isinstance(rv, float) and (math.isnan(rv) or math.isinf(rv))):
        if Fraction(rv) == nv:
            f.add('numeq')
        if isinstance(rv, int) and rv == int(nv):      # int() truncates toward zero, like Fraction.__int__... (trunc)
            f.add('numtr')
    if isinstance(res, str):
        if res == str(inp):
            f.add('ident')
        if res == str(inp).lower():
            f.add('lower')
        if info.get('enum') and res in info['enum']:
            f.add('member')
    if info.get('coll') and isinstance(inp, str):
        coll = getattr(m, info['coll'], None)
        try:
            if coll is not None and inp in coll and res is coll[inp]:
                f.add('dev')
        except TypeError:
            pass
    if res is True or (type(res) is int and res == 1):
        f.add('btrue')
    if res is False or (type(res) is int and res == 0):
        f.add('bfalse')
    if type(res) is int:
        try:
            if res == min(int(str(inp), 16), 255):
                f.add('hex')
        except ValueError:
            pass
        if res > 0 and (res & (res - 1)) == 0:
            f.add('p2')
    elif isinstance(res, (bool, float, str)):
        # pow2 hands its input back as given: judge the numeric value (as Util.is_power2 reads it)
        try:
            n = int(res)
            if n > 0 and (n & (n - 1)) == 0 and float(res) == n:
                f.add('p2')
        except (TypeError, ValueError, OverflowError):
            pass
    if type(res).__name__ == 'RuntimeToken' and isinstance(inp, str) and res.token == inp[1:-1]:
        f.add('tok')
    if isinstance(res, tuple) and len(res) == 3 and all(type(c) is int for c in res):
        f.add('c3')
    if isinstance(res, list) and len(res) == 4 and all(isinstance(c, (int, float)) and not isinstance(c, bool) for c in res):
        f.add('k4')
    if info['vc'] == 'subconfig' and isinstance(res, dict) and info.get('sub'):
        try:
            parts = info['sub'].split(',', 1)
            bs = cv.build_spec(parts[0], tuple(parts[1].split(',')) if len(parts) > 1 else None)
            if all(k in res for k in bs if bs[k] != 'ignore' and k[0] != '_'):
                f.add('complete')
            if isinstance(inp, dict) and ('__allow_others__' in bs or all(k in bs for k in inp)):
                f.add('known')
        except Exception:  # pylint: disable=broad-except
            pass
    return f


CLAMP = 10 ** 9          # TLC integers are 32 bit: clamping keeps "outside 0..255"


def _clamp(x):
    return max(-CLAMP, min(CLAMP, int(x)))


def colour_components(vc, results):
    """The returned colour VALUES, for ConfigTypesTrace to judge (ColourOK / KivyOK): one list of ints per result; a result
    that is not a sequence of numbers gives [] (never a colour)."""
    out = []
    for r in results:
        comps = []
        if vc == 'color' and isinstance(r, (tuple, list)) and all(type(c) is int for c in r):
            comps = [_clamp(c) for c in r]
        elif vc == 'kivycolor' and isinstance(r, (tuple, list)) and all(
                isinstance(c, (int, float)) and not isinstance(c, bool) and not (isinstance(c, float) and (math.isnan(c) or math.isinf(c)))
                for c in r):
            comps = [_clamp(round(c * 1000)) for c in r]
        out.append(comps)
    return out


def observe(key, value, elems, res, m, cv):
    """Observation record for an accepted result."""
    it = key['it']
    info = key['v']
    o = {'ty': tname(res), 'ety': [], 'kty': [], 'n': -1, 'inr': True, 'f': [], 'vm': [], 'rms': [], 'suf': ''}
    if info['vc'] in ('color', 'kivycolor'):
        results = [res] if it == 'single' else (list(res.values()) if isinstance(res, dict) else (list(res) if isinstance(res, (list, set)) else []))
        o['cc' if info['vc'] == 'color' else 'kc'] = colour_components(info['vc'], results)
    pairs = None          # list of (input elem, meta, result elem, key result or None)
    if it == 'single':
        inp = elems[0][0] if elems else value
        o['ty'] = tname(res, _is_dev(info, res, m))
        pairs = [(inp, elems[0][1] if elems else {}, res)]
        o['n'] = 1
        o['inr'] = in_range(info, res)
    elif it in ('list', 'set') and isinstance(res, (list, set)):
        rl = list(res)
        o['n'] = len(rl)
        o['inr'] = all(in_range(info, r) for r in rl)
        o['ety'] = sorted({tname(r, _is_dev(info, r, m)) for r in rl})
        if elems is not None and len(elems) == len(rl) and it == 'list':
            pairs = [(e[0], e[1], r) for e, r in zip(elems, rl)]
    elif it in ('dict', 'event_handler') and isinstance(res, dict):
        o['n'] = len(res)
        vals = list(res.values())
        o['inr'] = all(in_range(info, r) for r in vals)
        o['kty'] = sorted({tname(k, _is_dev(key['k'], k, m)) for k in res})
        o['ety'] = sorted({tname(r, _is_dev(info, r, m)) for r in vals})
        if isinstance(value, dict) and elems is not None and len(elems) == len(vals) == len(value):
            # python dicts keep insertion order and _validate_dict walks the input in order
            pairs = [(e[0], e[1], r) for e, r in zip(elems, vals)]
    if pairs is not None:
        fl = None
        exact_all = True
        for inp, meta, r in pairs:
            ef = elem_flags(info, inp, r, m, cv)
            fl = ef if fl is None else (fl & ef)
            if info['vc'] in ('ms', 'secs', 'template_ms', 'template_secs'):
                vm = meta.get('vm')
                suf = meta.get('suf', '')
                if vm is None:
                    nv = num_value(inp)
                    if nv is not None and abs(nv * 1000) < BIG and (nv * 1000).denominator == 1:
                        vm = int(nv * 1000)
                rms, exact = _ms_of(info, r)
                if vm is not None and rms is not None:
                    o['vm'].append(vm)
                    o['rms'].append(rms)
                    o['suf'] = suf
                    exact_all = exact_all and exact
        fl = set(fl or ()) & (FLAGS_FOR.get(info['vc'], set()) | {'none', 'tok'})
        if o['vm'] and exact_all:
            fl.add('tex')
        o['f'] = sorted(fl)
    return o


# relations that are meaningful for a validator class (others are not logged: smaller traces)
FLAGS_FOR = {'str': {'ident'}, 'lstr': {'lower'}, 'int': {'numtr'}, 'float': {'numeq'}, 'num': {'numeq'},
             'bool': {'btrue', 'bfalse'}, 'bool_int': {'btrue', 'bfalse'}, 'enum': {'member'}, 'machine': {'dev'},
             'subconfig': {'complete', 'known'}, 'int_from_hex': {'hex'}, 'kivycolor': {'k4', 'lower'}, 'color': {'c3'},
             'pow2': {'p2', 'numeq'}}


def _is_dev(info, r, m):
    if not info or not info.get('coll'):
        return False
    coll = getattr(m, info['coll'], None)
    try:
        return coll is not None and any(r is d for d in coll.values())
    except Exception:  # pylint: disable=broad-except
        return False


def irel_of(key, elems):
    """Relation of the (numeric) input to the declared range: below / in / above / na — from input and spec only."""
    rg = _range_of(key['v'])
    if not rg or not elems:
        return 'na'
    rels = set()
    for e, _ in elems:
        if isinstance(e, float) and math.isnan(e):
            rels.add('nan')
            continue
        if isinstance(e, str) and e.strip().lower().lstrip('.') == 'nan':
            rels.add('nan')
            continue
        if isinstance(e, float) and math.isinf(e):
            rels.add('above' if e > 0 else 'below')
            continue
        if isinstance(e, str) and e.strip().lower().lstrip('+-') in ('inf', 'infinity'):
            rels.add('below' if e.strip().startswith('-') else 'above')
            continue
        nv = num_value(e)
        if nv is None:
            rels.add('na')
            continue
        if key['v']['vc'] == 'int':
            nv = Fraction(int(nv))
        lo, hi = rg
        if lo is not None and nv < Fraction(lo):
            rels.add('below')
        elif hi is not None and nv > Fraction(hi):
            rels.add('above')
        else:
            rels.add('in')
    if len(rels) > 1:
        rels.discard('na')
    for w in ('nan', 'below', 'above', 'in'):
        if w in rels:
            return w
    return 'na'


# ----------------------------------------------------------------------------------------------
# execution on the real validator
# ----------------------------------------------------------------------------------------------
_W = {}
_TIME_RE = None


def time_meta(s):
    """'500ms' -> {'suf': 'ms', 'vm': 500000} for plain time strings (used for spec defaults)."""
    global _TIME_RE
    import re
    if _TIME_RE is None:
        _TIME_RE = re.compile(r'^(-?\d+(?:\.\d+)?)\s*(msec|ms|sec|s|m|h|d)$', re.I)
    mm = _TIME_RE.match(s.strip()) if isinstance(s, str) else None
    if not mm:
        return {}
    v = Fraction(mm.group(1)) * 1000
    if v.denominator != 1 or abs(v) >= BIG:
        return {}
    return {'suf': mm.group(2).lower(), 'vm': int(v)}


def _machine():
    if 'h' not in _W:
        logging.disable(logging.CRITICAL)
        h = harness.boot(MACHINE)
        _W['h'] = h
    return _W['h'].machine


def _vfi(path, k):
    from mpf.core.config_validator import ValidationPath
    return ValidationPath(ValidationPath(ValidationPath(None, ':'.join(path)), ':'.join(path)), k)


def none_ok(info):
    """Is None a value of the declared type?  (from the spec string only; same rule as NoneOK in ConfigTypes.tla)"""
    if info['vc'] in ('color', 'int_from_hex'):
        return False
    if info['vc'] == 'enum':
        return 'none' in (info.get('enum') or [])
    return True


def exec_case(cv, m, path, k, key, shape, ec, rnd, var=None):
    """Run one case on the real validator; returns the trace line (dict) or None if the class has no representative."""
    info = key['v']
    line = {'op': 'item', 'it': key['it'], 'vc': info['vc'], 'tok': bool(info['tok']), 'rg': _range_of(info) is not None,
            'nok': none_ok(info),
            'kv': key['k']['vc'] if key['k'] else 'na', 'sh': shape, 'ec': ec, 'dcl': key['dcl'], 'ir': 'na',
            'o': 'reject', 'ty': '', 'ety': [], 'kty': [], 'n': -1, 'inr': True, 'f': [], 'vm': [], 'rms': [], 'suf': ''}
    try:
        if shape == 'default':
            value = None
            if key['dcl'] == 'none':
                elems = [(None, {})]
            elif key['dcl'] == 'value' and key['it'] == 'single':
                d = key['spec'][2]
                elems = [(d, time_meta(d))]
            else:
                elems = None
            flat = elems
        else:
            value, elems, flat = draw_input(shape, ec, key, rnd, m, var)
    except Skip:
        return None, None
    line['ir'] = irel_of(key, flat) if flat is not None else 'na'
    shown = repr(value)[:80]
    arg = copy.deepcopy(value)
    try:
        if shape == 'default':
            res = cv.validate_config_item(key['spec'], _vfi(path, k))
        else:
            res = cv.validate_config_item(key['spec'], _vfi(path, k), arg)
    except CLEAN as ex:
        line['o'] = 'reject'
        return line, {'in': shown, 'exc': type(ex).__name__}
    except Exception as ex:  # pylint: disable=broad-except
        line['o'] = 'unclean'
        return line, {'in': shown, 'exc': type(ex).__name__}
    line['o'] = 'accept'
    try:
        line.update(observe(key, value, elems, res, m, cv))
    except Exception as ex:  # pylint: disable=broad-except
        line['o'] = 'crash'
        return line, {'in': shown, 'exc': 'observer:' + repr(ex)[:200]}
    return line, {'in': shown, 'res': repr(res)[:80]}


def _freeze(v):
    return tuple(_freeze(x) for x in v) if isinstance(v, list) else v


def _lkey(line):
    return tuple((k, _freeze(v)) for k, v in sorted(line.items()) if k not in ('k', 'nn'))


def good_value(key, m, rnd):
    """A value the typing rules accept for this key (used for required keys of section-level runs)."""
    info = key['v']
    vc = info['vc']
    rg = _range_of(info)
    if vc in ('str', 'lstr', 'template_str'):
        v = 'c12_req'
    elif vc in ('int', 'num', 'template_int', 'int_from_hex', 'pow2'):
        v = int(rg[0]) if rg and rg[0] is not None else 2
    elif vc in ('float', 'template_float', 'gain'):
        v = float(rg[0]) if rg and rg[0] is not None else 0.5
    elif vc in ('bool', 'bool_int', 'template_bool'):
        v = True
    elif vc in ('ms', 'secs', 'template_ms', 'template_secs'):
        v = '2s'
    elif vc == 'enum':
        v = [x for x in info['enum'] if x != 'none'][0]
    elif vc == 'machine':
        v, _ = draw_scalar('dev_name', info, rnd, m)     # may raise Skip
    elif vc in ('subconfig', 'dict'):
        v = {}
    elif vc == 'list':
        v = ['a']
    elif vc in ('color', 'kivycolor'):
        v = 'ff8000'
    else:
        raise Skip()
    it = key['it']
    if it == 'single':
        return v
    if it in ('list', 'set'):
        return [v]
    if it == 'dict':
        return {}
    if it == 'event_handler':
        return 'c12_event'
    raise Skip()


def section_lines(cv, m, sec, spec, rnd):
    """Section-level lines for one top-level section: missing keys, unknown key, provided keys."""
    d = spec[sec]
    ty = d.get('__type__')
    if ty not in ('device', 'config'):
        return [], []
    base = 'device' if ty == 'device' else None
    lines, notes = [], []
    try:
        built = cv.build_spec(sec, base)
    except Exception as ex:  # pylint: disable=broad-except
        return [], [{'sec': sec, 'note': 'build_spec failed: %r' % ex}]
    built_before = copy.deepcopy(built)
    allow = '__allow_others__' in built
    want = [k for k in built if built[k] != 'ignore' and k[0] != '_']
    req = {}
    simple = []
    try:
        for k in sorted(want):
            if isinstance(built[k], dict):
                continue
            key = parse_key(built[k])
            if key is None:
                continue
            if key['dcl'] == 'required':
                req[k] = good_value(key, m, rnd)
            elif key['it'] == 'single' and key['v']['vc'] in ('str', 'int', 'float', 'bool', 'ms', 'secs', 'enum', 'num', 'lstr'):
                simple.append((k, key))
    except Skip:
        return [], [{'sec': sec, 'note': 'required key without representative'}]

    def run(mode, source, provided):
        line = {'op': 'section', 'mode': mode, 'allow': allow, 'o': 'reject', 'allp': False, 'provp': False, 'unkp': False}
        src = copy.deepcopy(source)
        try:
            res = cv.validate_config(sec, src, sec, base)
        except CLEAN as ex:
            notes.append({'sec': sec, 'mode': mode, 'exc': type(ex).__name__, 'msg': str(ex)[:160]})
            return line
        except Exception as ex:  # pylint: disable=broad-except
            line['o'] = 'unclean'
            notes.append({'sec': sec, 'mode': mode, 'exc': type(ex).__name__, 'msg': str(ex)[:160]})
            return line
        line['o'] = 'accept'
        line['allp'] = isinstance(res, dict) and all(k in res for k in want)
        line['provp'] = isinstance(res, dict) and all(k in res for k in provided)
        line['unkp'] = isinstance(res, dict) and 'zz_unknown_key_c12' in res
        return line

    lines.append(run('missing', req, list(req)))
    unk = dict(req)
    unk['zz_unknown_key_c12'] = 1
    lines.append(run('unknown', unk, list(req)))
    prov = dict(req)
    rnd.shuffle(simple)
    for k, key in simple[:4]:
        try:
            prov[k] = good_value(key, m, rnd)
        except Skip:
            pass
    lines.append(run('provided', prov, list(prov)))
    lines.append({'op': 'built', 'same': cv.build_spec(sec, base) == built_before})
    return lines, notes


def exec_section(job):
    """Worker: all item-level and section-level lines of one top-level section -> one trace."""
    seed, reps, sec = job
    try:
        return _exec_section(seed, reps, sec)
    except Exception as ex:  # pylint: disable=broad-except
        import traceback
        return {'sec': sec, 'ev': [{'op': 'crash', 'what': repr(ex)[:300]}], '_tb': traceback.format_exc()[-2000:],
                '_ex': [], '_stats': {}, '_notes': []}


def _exec_section(seed, reps, sec):
    m = _machine()
    cv = m.config_validator
    spec = cv.get_config_spec()
    before = copy.deepcopy(spec)
    classes = all_input_classes()
    seen = {}
    ev, ex = [], []
    stats = {'calls': 0, 'accept': 0, 'reject': 0, 'unclean': 0, 'keys': 0, 'unclassified': [], 'unclean_by': {},
             'default_rejected': []}
    for path, k, sp in walk_spec({sec: spec[sec]}):
        key = parse_key(sp)
        if key is None:
            stats['unclassified'].append('%s:%s=%s' % (':'.join(path), k, '|'.join(sp)))
            continue
        stats['keys'] += 1
        nmrel = nm_relevant_bases(key['v'])
        for shape, ec in classes:
            nm = nm_base(ec)
            if nm is not None and nm not in nmrel:
                continue
            nrep = 1 if shape in ('default', 'empty_list', 'empty_dict') or ec in ('none', 'empty_str') and shape == 'scalar' else reps
            if nm is not None and shape == 'scalar':
                # EVERY mutant of the class (of a fresh random representative each), thorough: of several representatives
                nrep = NM_MAX_VARIANTS * (1 if reps == 1 else 3)
            for rep in range(nrep):
                rnd = random.Random('%d|%s|%s|%s|%s|%d' % (seed, ':'.join(path), k, shape, ec, rep))
                var = rep % NM_MAX_VARIANTS if nm is not None and shape == 'scalar' else None
                line, note = exec_case(cv, m, path, k, key, shape, ec, rnd, var)
                if line is None:
                    if var is not None and var > 0:
                        continue
                    break
                if nm is not None:
                    stats['nm_calls'] = stats.get('nm_calls', 0) + 1
                    if line['o'] == 'accept':
                        stats['nm_accept'] = stats.get('nm_accept', 0) + 1
                stats['calls'] += 1
                stats[line['o']] = stats.get(line['o'], 0) + 1
                if line['o'] == 'unclean':
                    u = '%s|%s|%s|%s:%s' % (line['it'], line['vc'], line['sh'], line['ec'], note['exc'])
                    stats['unclean_by'][u] = stats['unclean_by'].get(u, 0) + 1
                if shape == 'default' and key['dcl'] == 'value' and line['o'] != 'accept':
                    stats['default_rejected'].append('%s:%s=%s' % (':'.join(path), k, '|'.join(sp)))
                lk = _lkey(line)
                if lk in seen:
                    ev[seen[lk]]['nn'] += 1
                    continue
                seen[lk] = len(ev)
                line['nn'] = 1
                ev.append(line)
                note.update({'key': '%s:%s' % (':'.join(path), k), 'spec': '|'.join(sp)})
                ex.append(note)
    rnd = random.Random('%d|%s|section' % (seed, sec))
    sl, notes = section_lines(cv, m, sec, spec, rnd)
    for ln in sl:
        ev.append(ln)
        ex.append({'key': sec})
    same = (cv.get_config_spec() == before)
    ev.append({'op': 'spec', 'same': bool(same)})
    ex.append({'key': sec})
    if not same:
        # polluted: restore the shared spec (and drop cached merged specs) so that the next sections start clean
        live = cv.get_config_spec()
        live.clear()
        live.update(before)
        try:
            type(cv).build_spec.cache_clear()
        except AttributeError:
            pass
    return {'sec': sec, 'ev': ev, '_ex': ex, '_stats': stats, '_notes': notes}


TIME_DECIMALS = ('1.001', '2.3', '0.29', '4.35', '1.1', '0.007', '16.08')


def time_traces(seed, quick):
    """Direct calls of Util.string_to_ms / string_to_secs: one single-line trace per call."""
    from mpf.core.utility_functions import Util
    rnd = random.Random('%d|time' % seed)
    traces = []
    for fn in ('ms', 'secs'):
        f = Util.string_to_ms if fn == 'ms' else Util.string_to_secs
        for suf in SUFFIXES + ('',):
            for up in ((False, True) if suf else (False,)):
                vals = [('w', str(x)) for x in (1, 2, 15, rnd.randint(3, 20), 0)]
                vals += [('n', '-%d' % rnd.randint(1, 20))]
                vals += [('f', repr(float(x))) for x in (FRAC_EXACT[0], FRAC_EXACT[2], rnd.choice(FRAC_EXACT))]
                vals += [('d', x) for x in TIME_DECIMALS]
                vals += [('d', '%d.%03d' % (rnd.randint(0, 19), rnd.randint(1, 999))) for _ in range(3 if quick else 120)]
                for vk, txt in vals:
                    vm = Fraction(txt) * 1000
                    s = txt + (suf.upper() if up else suf)
                    line = {'op': 'time', 'fn': fn, 'suf': suf, 'up': up, 'vk': vk, 'vm': int(vm), 'o': 'reject', 'rms': 0,
                            'tex': False}
                    try:
                        r = f(s)
                        line['o'] = 'accept'
                        x = r * 1000.0 if fn == 'secs' else float(r)
                        line['rms'] = int(round(x))
                        line['tex'] = abs(x - round(x)) < 1e-6
                        line['rty'] = type(r).__name__
                        shown = repr(r)
                    except CLEAN as ex:
                        line['rty'] = ''
                        shown = type(ex).__name__ + ': ' + str(ex)[:80]
                    except Exception as ex:  # pylint: disable=broad-except
                        line['o'] = 'unclean'
                        line['rty'] = ''
                        shown = type(ex).__name__ + ': ' + str(ex)[:80]
                    traces.append({'sec': 'time', 'ev': [line], '_ex': [{'in': s, 'res': shown, 'key': 'Util.string_to_' + fn}],
                                   '_stats': {}, '_notes': []})
    return traces


def time_nm_traces(seed, quick):
    """Near-miss time strings given to Util.string_to_ms / string_to_secs directly (one single-line trace per call): every
    mutation kind of a valid representative of every unit suffix (and of a bare number)."""
    from mpf.core.utility_functions import Util
    rnd = random.Random('%d|timenm' % seed)
    traces = []
    for fn in ('ms', 'secs'):
        f = Util.string_to_ms if fn == 'ms' else Util.string_to_secs
        for suf in SUFFIXES + ('',):
            for up in ((False, True) if suf else (False,)):
                nums = [str(rnd.randint(1, 200)), '100']
                if suf not in ('ms', 'msec') and not (suf == '' and fn == 'ms'):
                    nums.append('%d.5' % rnd.randint(1, 20))
                if not quick:
                    nums += [str(rnd.randint(1, 5000)) for _ in range(6)]
                for num in nums:
                    for mut in NM_MUTS:
                        for s in time_mutants(num, suf.upper() if up else suf, mut):
                            line = {'op': 'timenm', 'fn': fn, 'suf': suf, 'mut': mut, 'o': 'reject'}
                            try:
                                r = f(s)
                                line['o'] = 'accept'
                                shown = repr(r)
                            except CLEAN as ex:
                                shown = type(ex).__name__ + ': ' + str(ex)[:80]
                            except Exception as ex:  # pylint: disable=broad-except
                                line['o'] = 'unclean'
                                shown = type(ex).__name__ + ': ' + str(ex)[:80]
                            traces.append({'sec': 'timenm', 'ev': [line], '_ex': [{'in': s, 'res': shown, 'key': 'Util.string_to_' + fn}],
                                           '_stats': {}, '_notes': []})
    return traces


# ----------------------------------------------------------------------------------------------
# the check
# ----------------------------------------------------------------------------------------------
MC_CFG = """SPECIFICATION Spec
CONSTANTS
  TimeVals = {%s}
INVARIANT Total
INVARIANT Consistent
INVARIANT TimeSemantics
INVARIANT SectionRules
INVARIANT ColourSound
INVARIANT NearMissSound
CHECK_DEADLOCK FALSE
"""
TRACE_CFG = """SPECIFICATION TSpec
CONSTANTS
  TimeVals <- TTimeVals
INVARIANT Reporter
CHECK_DEADLOCK FALSE
"""


def _expected_ms(line):
    """value * unit in ms (only used to LABEL a rejected time line; the judgement is ConfigTypesTrace's)."""
    unit = UNIT_MS[line['suf']] if line['suf'] else (1 if line['fn'] == 'ms' else 1000)
    return int(Fraction(line['vm'], 1000) * unit)


def signature(line):
    """One signature per distinct failure class."""
    op = line.get('op')
    if op == 'time':
        suf = line['suf'] or 'bare'
        if line['o'] != 'accept':
            return 'C12:time:%s-suffix' % suf
        return 'C12:time:truncation' if abs(line['rms'] - _expected_ms(line)) <= 1 else 'C12:time:%s-value' % suf
    if op == 'timenm':
        return 'C12:nearmiss:time:%s-suffix' % (line['suf'] or 'bare')
    if op == 'section':
        return 'C12:section:%s' % line['mode']
    if op in ('spec', 'built'):
        return 'C12:spec-mutated'
    if op == 'item':
        nm = nm_base(line['ec'])
        if line['vc'] == 'color' and line['o'] == 'accept' and not _colour_ok(line.get('cc')):
            # returned colour outside 0..255 / not a triple; by the syntax of the input it was parsed from
            return 'C12:range:color:%s' % (nm or line['ec'])
        if nm is not None and line['vc'] != 'kivycolor':
            return 'C12:nearmiss:%s:%s' % (line['vc'], nm)
        if line['vc'] == 'enum' and not line['nok'] and 'NoneType' in [line['ty']] + list(line['ety']):
            return 'C12:type:enum-none'
        if line['ir'] == 'nan' or (not line['inr'] and line['ec'] in ('float_nan', 'nan_str')):
            return 'C12:range:nan:%s' % line['vc']
        if not line['inr'] or line['ir'] in ('below', 'above'):
            return 'C12:range:%s' % line['vc']
        return 'C12:type:%s' % line['vc']
    return 'C12:%s' % op


def _colour_ok(cc):
    """(only used to LABEL a rejected line; the judgement is ColourOK in ConfigTypesTrace)"""
    return bool(cc) and all(len(c) == 3 and all(0 <= x <= 255 for x in c) for c in cc)


def _describe(line, ex):
    op = line.get('op')
    if op == 'timenm':
        return ('Util.string_to_%s(%r) -> %s: a near-miss (%s-mutation of a valid "<number>%s" time string) is not a time string; '
                'it must be rejected, not evaluated' % (line['fn'], ex.get('in'), ex.get('res'), line['mut'], line['suf']))
    if op == 'item' and line['vc'] == 'color' and line['o'] == 'accept' and not _colour_ok(line.get('cc')):
        return ('%s: spec "%s" input class %s/%s value %s -> %s: the colour validator returned components %s; a colour is an RGB '
                'triple with every component within 0..255 (or the value is rejected)' % (
                    ex.get('key'), ex.get('spec'), line['sh'], line['ec'], ex.get('in'), ex.get('res'), line.get('cc')))
    if op == 'item' and nm_base(line['ec']) is not None:
        return ('%s: spec "%s" near-miss input %s/%s value %s -> %s (type %s elems %s flags=%s): the input is a mutated %s and '
                'denotes no value of the declared type: numeric / time / boolean / pow2 / enum / device validators must reject it, '
                'the others may only return a well-typed in-range value related to the input' % (
                    ex.get('key'), ex.get('spec'), line['sh'], line['ec'], ex.get('in'), ex.get('res'), line['ty'], line['ety'],
                    line['f'], nm_base(line['ec'])))
    if op == 'time':
        return ('Util.string_to_%s(%r) -> %s; value * unit = %d ms expected (%r is an accepted unit suffix)' % (
            line['fn'], ex.get('in'), ex.get('res'), _expected_ms(line), line['suf']))
    if op == 'item':
        return ('%s: spec "%s" input class %s/%s value %s -> %s; observed type %s elems %s keys %s in_range=%s flags=%s: '
                'not allowed by Judge (ill-typed / out of range / wrong relation)' % (
                    ex.get('key'), ex.get('spec'), line['sh'], line['ec'], ex.get('in'), ex.get('res'), line['ty'], line['ety'],
                    line['kty'], line['inr'], line['f']))
    return '%s: %s' % (ex.get('key'), line)


def run(ctx):
    from lib.runner import Machinery
    wd = tlc.prepare(ctx.scratch, 'ConfigTypes', 'configtypes')
    tvals = [0, 500, 1000, 1001, 1500, 2300, 15000, 20000] + ([] if ctx.quick else [1, 999, 7000, 12345, 19999, 250, 16080])
    with open(wd + '/MC.cfg', 'w') as f:
        f.write(MC_CFG % ', '.join(str(x) for x in tvals))
    r = tlc.expect_ok(tlc.check(wd, 'ConfigTypes', 'MC.cfg', timeout=600, extra=('-nowarning',)), 'ConfigTypes design check')
    ctx.add_tlc('ConfigTypes (case table)', r, {'item_types': len(ITEM_TYPES), 'validator_classes': len(VCLASSES),
                                                 'input_classes': len(all_input_classes()), 'time_vals': tvals})
    ctx.coverage['monitors'] += ['Total', 'Consistent', 'TimeSemantics', 'SectionRules', 'ColourSound', 'NearMissSound',
                                 'UnitTable(ASSUME)', 'ItemOK', 'ColourOK', 'KivyOK', 'TimeLineOK', 'TimeNMOK', 'SectionOK',
                                 'spec-unchanged']
    m = _machine()
    spec = m.config_validator.get_config_spec()
    secs = [s for s in sorted(spec) if isinstance(spec[s], dict) and not s.startswith('_')]
    reps = 1 if ctx.quick else 6
    traces = harness.pmap(exec_section, [(ctx.seed, reps, s) for s in secs], chunk=2, item_timeout=600)
    ttraces = time_traces(ctx.seed, ctx.quick)
    ntraces = time_nm_traces(ctx.seed, ctx.quick)
    for t in traces:
        if t['ev'] and t['ev'][0].get('op') == 'crash':
            raise Machinery('section %s crashed in the harness: %s\n%s' % (t['sec'], t['ev'][0], t.get('_tb')))
        for ln, ex in zip(t['ev'], t['_ex']):
            if ln.get('o') == 'crash':
                raise Machinery('observer crashed: %s %s' % (ln, ex))
    with open(wd + '/Trace.cfg', 'w') as f:
        f.write(TRACE_CFG)
    tot = {}
    unclean = {}
    notes = []
    for t in traces:
        for k, v in t['_stats'].items():
            if isinstance(v, int):
                tot[k] = tot.get(k, 0) + v
        for k, v in t['_stats'].get('unclean_by', {}).items():
            unclean[k] = unclean.get(k, 0) + v
        notes += t['_notes']
    nlines = sum(len(t['ev']) for t in traces)
    ctx.log('executed %d validator calls on %d keys of %d sections (%d distinct observation lines); %d time calls' % (
        tot.get('calls', 0), tot.get('keys', 0), len(secs), nlines, len(ttraces)))
    if tot.get('keys', 0) < 1500 or tot.get('accept', 0) < 10000 or tot.get('nm_calls', 0) < 5000 or len(ntraces) < 300:
        raise Machinery('vacuous coverage: %s, %d near-miss time calls' % (tot, len(ntraces)))

    found = []          # (line, example)
    v1 = tlc.validate_traces(wd, 'ConfigTypesTrace', 'Trace.cfg', traces, diagnose=False, batch=60, workers=8)
    ctx.add_trace_verdict('sections (item + section level)', v1, len(traces))
    bad = sorted(v1.rejected)
    if bad:
        # pinpoint: every distinct line of the rejected sections as its own single-line trace
        singles, seen = [], set()
        for i in bad:
            for ln, ex in zip(traces[i]['ev'], traces[i]['_ex']):
                lk = _lkey(ln)
                if lk in seen:
                    continue
                seen.add(lk)
                singles.append({'sec': traces[i]['sec'], 'ev': [ln], '_ex': [ex]})
        v2 = tlc.validate_traces(wd, 'ConfigTypesTrace', 'Trace.cfg', singles, diagnose=False, batch=6000, workers=8)
        ctx.add_trace_verdict('pinpoint (single-line traces of rejected sections)', v2, len(singles))
        for j in sorted(v2.rejected):
            found.append((singles[j]['ev'][0], singles[j]['_ex'][0]))
        if not v2.rejected:
            raise Machinery('sections %s rejected but no single line is' % [traces[i]['sec'] for i in bad])
    v3 = tlc.validate_traces(wd, 'ConfigTypesTrace', 'Trace.cfg', ttraces, diagnose=False, batch=6000, workers=8)
    ctx.add_trace_verdict('time table (Util.string_to_ms / string_to_secs)', v3, len(ttraces))
    for j in sorted(v3.rejected):
        found.append((ttraces[j]['ev'][0], ttraces[j]['_ex'][0]))
    v4 = tlc.validate_traces(wd, 'ConfigTypesTrace', 'Trace.cfg', ntraces, diagnose=False, batch=6000, workers=8)
    ctx.add_trace_verdict('near-miss time strings (Util.string_to_ms / string_to_secs)', v4, len(ntraces))
    for j in sorted(v4.rejected):
        found.append((ntraces[j]['ev'][0], ntraces[j]['_ex'][0]))

    by_sig = {}
    for ln, ex in found:
        by_sig.setdefault(signature(ln), []).append((ln, ex))
    for sig in sorted(by_sig):
        items = by_sig[sig]
        ln, ex = items[0]
        what = '%s  [%d distinct failing observations; more: %s]' % (
            _describe(ln, ex), len(items), '; '.join('%s %s->%s' % (e.get('key'), e.get('in'), e.get('res', e.get('exc'))) for _, e in items[1:6]))
        ctx.violation(sig, what, {'line': ln, 'example': ex, 'others': [{'line': a, 'example': b} for a, b in items[1:40]]})

    ctx.coverage['calls'] = tot
    ctx.coverage['sections'] = len(secs)
    ctx.coverage['distinct_observation_lines'] = nlines
    ctx.coverage['time_calls'] = len(ttraces)
    ctx.coverage['near_miss'] = {'classes': len(NM_CLASSES), 'validator_calls': tot.get('nm_calls', 0),
                                 'accepted': tot.get('nm_accept', 0), 'time_calls': len(ntraces),
                                 'time_rejected': sum(1 for t in ntraces if t['ev'][0]['o'] != 'accept')}
    ctx.coverage['unclean_rejections'] = dict(sorted(unclean.items(), key=lambda kv: -kv[1])[:60])
    ctx.coverage['unclean_rejections_total'] = sum(unclean.values())
    ctx.coverage['default_rejected'] = sorted({d for t in traces for d in t['_stats'].get('default_rejected', [])})
    ctx.coverage['unclassified_keys'] = sorted({d for t in traces for d in t['_stats'].get('unclassified', [])})
    sl = [ln for t in traces for ln in t['ev'] if ln.get('op') == 'section']
    ctx.coverage['section_level'] = {
        'sections': len(sl) // 3,
        'missing_accept': sum(1 for x in sl if x['mode'] == 'missing' and x['o'] == 'accept'),
        'unknown_rejected': sum(1 for x in sl if x['mode'] == 'unknown' and x['o'] != 'accept'),
        'unknown_allowed_by_allow_others': sum(1 for x in sl if x['mode'] == 'unknown' and x['o'] == 'accept' and x['allow']),
        'provided_accept': sum(1 for x in sl if x['mode'] == 'provided' and x['o'] == 'accept'),
        'not_standalone': [n for n in notes if 'note' in n][:40],
        'section_rejections': [n for n in notes if 'exc' in n and n.get('mode') != 'unknown'][:40]}
    t0 = next(t for t in traces if t['sec'] == 'coils')
    ctx.sample({'kind': 'section-trace', 'section': 'coils', 'lines': t0['ev'][:4], 'examples': t0['_ex'][:4]})
    ctx.sample({'kind': 'time-trace', 'line': ttraces[3]['ev'][0], 'example': ttraces[3]['_ex'][0]})
    ctx.assumptions += [
        'machine "configtypes" provides devices for 15 of the 19 collections used by machine(x) validators; for the others '
        'only the reject paths (unknown name, None, wrong type) are exercised',
        'clean rejection = ConfigFileError / AssertionError / ValueError; other exception types are counted as unclean_rejections, '
        'not violations',
        'python tuples are outside the YAML-representable domain: executed, but unconstrained by Judge',
        'None / "None" returning None is accepted for every validator (optional keys)',
        'device-specific cross-key validation and _-prefixed keys are not covered',
        'near-miss inputs (nm_<base>_<mutation>) are generated only for the validator classes whose grammar the base belongs to; '
        'mutants that still denote a value for the driver\'s own (generous) recognisers - digits with underscores, a trailing '
        'decimal point, exponents, surrounding blanks - are left out']


def replay(ctx, data):
    d = data['replay']
    ln, ex = d['line'], d['example']
    print('signature line:', ln)
    print('example:', ex)
    if ln.get('op') in ('time', 'timenm'):
        from mpf.core.utility_functions import Util
        f = Util.string_to_ms if ln['fn'] == 'ms' else Util.string_to_secs
        try:
            print('replay: %s(%r) -> %r' % (f.__name__, ex['in'], f(ex['in'])))
        except Exception as e:  # pylint: disable=broad-except
            print('replay: %s(%r) raised %r' % (f.__name__, ex['in'], e))
        return
    m = _machine()
    cv = m.config_validator
    spec = ex.get('spec', '').split('|')
    if ln.get('op') == 'item' and len(spec) == 3:
        import ast
        try:
            val = ast.literal_eval(ex['in'].replace('nan', '"__nan__"').replace('inf', '"__inf__"'))
        except Exception:  # pylint: disable=broad-except
            val = ex['in']
        if val == '__nan__':
            val = float('nan')
        try:
            print('replay: validate_config_item(%r, item=%r) -> %r' % (spec, val, cv.validate_config_item(spec, _vfi(('replay',), 'k'), val)))
        except Exception as e:  # pylint: disable=broad-except
            print('replay: raised %r' % e)
