"""C09 — light hardware output equals the priority stack's colour (specs/LightStack).

Schedules: `tlc -simulate` of LightStackGen (kind of step drawn before its arguments: commands land inside running fades, several
fade-outs of different keys in flight at once, removed keys set again), hand-written ones, and the family overlapping_removals().
Design checks: LightStack (MC.cfg) and LightStackMC (behaviours starting from populated stacks: every overlap of fade-outs)."""
import random

from lib import tlc, harness

LEVEL = 'model_checking'
EPS = 1e-6
PALETTE = [(0, 0, 0), (255, 255, 255), (255, 0, 0), (0, 100, 255), (100, 100, 100), (17, 34, 51)]
GREYS = [0, 255, 100, 17, 200, 51]
LIGHTS = ['l_w', 'l_rgb', 'l_rgbw', 'l_corr']
BACKENDS = ['plain', 'soft', 'direct', 'batch']
UNITS = [50, 200]
_H = {}


def cfg_text(quick):
    # the two monitors that cost a Range() evaluation per state / a test per transition are checked over this (large) graph in
    # the thorough tier only; the quick tier checks them over LightStackMC (overlap_cfg_text) and on every recorded trace
    return """SPECIFICATION Spec
CONSTANTS
  Keys = {1, 2}
  Prios = {0, 1}
  Cols = {0, 100, 255}
  Fades = {0, 2}
  MaxTime = %d
  MaxOps = %d
INVARIANT RangeSane
INVARIANT TopWins
INVARIANT EmptyIsOff
INVARIANT FadeOutGone
INVARIANT OneEntryPerKey
PROPERTY RemoveRestores
%sCHECK_DEADLOCK FALSE
""" % ((4, 4, '') if quick else (5, 5, 'INVARIANT EndedFadeOutTransparent\nPROPERTY ReAddTakesEffect\n'))


def overlap_cfg_text(quick):
    """LightStackMC: behaviours start from stacks holding two or three keys; calls are removals, colour commands for keys that
    are fading out or gone, and time - every overlap of two or three fade-outs and every re-use of a removed key in the bounds."""
    return """SPECIFICATION MCSpec
CONSTANTS
  Keys = {1, 2, 3}
  Prios = {0, 1}
  Cols = %s
  Fades = {0, 1, 2}
  MaxTime = %d
  MaxOps = %d
  InitStacks <- MCInitStacks
INVARIANT RangeSane
INVARIANT TopWins
INVARIANT EmptyIsOff
INVARIANT FadeOutGone
INVARIANT OneEntryPerKey
INVARIANT EndedFadeOutTransparent
PROPERTY RemoveRestores
PROPERTY ReAddTakesEffect
CHECK_DEADLOCK FALSE
""" % (('{0, 255}', 3, 3) if quick else ('{0, 100, 255}', 4, 4))


GEN_CFG = """SPECIFICATION GSpec
CONSTANTS
  Keys = {1, 2, 3}
  Prios = {0, 1, 2}
  Cols = {0, 1, 2, 3, 4, 5}
  Fades = {0, 1, 2, 3}
  MaxTime = 14
  MaxOps = 12
CHECK_DEADLOCK FALSE
"""


def _machine():
    if 'h' not in _H:
        _H['h'] = harness.boot('lights')
        _H['n'] = 1000
    return _H['h']


def make_doubles(h, kind, unit_ms):
    """Channel doubles: thin recording subclasses of the REAL platform interface classes."""
    from mpf.platforms.interfaces.light_platform_interface import (LightPlatformInterface, LightPlatformSoftwareFade,
                                                                  LightPlatformDirectFade)
    from mpf.core.platform_batch_light_system import PlatformBatchLight, PlatformBatchLightSystem
    loop = h.machine.clock.loop

    class Rec:
        last = 0.0
        ncmd = 0

    class Plain(LightPlatformInterface, Rec):
        def set_fade(self, start_brightness, start_time, target_brightness, target_time):
            self.last = target_brightness
            self.ncmd += 1

        def get_board_name(self):
            return 'verif'

        def is_successor_of(self, other):
            return False

        def get_successor_number(self):
            return None

    class Soft(LightPlatformSoftwareFade, Rec):
        def set_brightness(self, brightness):
            self.last = brightness
            self.ncmd += 1

        def get_board_name(self):
            return 'verif'

        def is_successor_of(self, other):
            return False

        def get_successor_number(self):
            return None

    class Direct(LightPlatformDirectFade, Rec):
        def get_max_fade_ms(self):
            return unit_ms      # fades longer than one unit are continued by the software task

        def set_brightness_and_fade(self, brightness, fade_ms):
            self.last = brightness
            self.ncmd += 1

        def get_board_name(self):
            return 'verif'

        def is_successor_of(self, other):
            return False

        def get_successor_number(self):
            return None

    class Batch(PlatformBatchLight, Rec):
        def get_max_fade_ms(self):
            return unit_ms

        def get_board_name(self):
            return 'verif'

        def is_successor_of(self, other):
            return other.number + 1 == self.number

        def get_successor_number(self):
            return self.number + 1

        def __lt__(self, other):
            return self.number < other.number

    def mk(n):
        _H['n'] += 1
        num = _H['n']
        if kind == 'plain':
            return [Plain(num) for _ in range(n)], None
        if kind == 'soft':
            return [Soft(num, loop, 10) for _ in range(n)], None
        if kind == 'direct':
            return [Direct(num, loop) for _ in range(n)], None

        async def send(batch):
            for light, brightness, fade in batch:
                light.last = brightness
                light.ncmd += 1
        system = PlatformBatchLightSystem(h.machine.clock, send, 100, 4)
        system.start()
        base = _H['n'] * 10
        return [Batch(base + i, system) for i in range(n)], system
    return mk


def exec_schedule(job):
    sched, lname, kind, unit = job
    try:
        return _exec(sched, lname, kind, unit)
    except Exception as ex:  # pylint: disable=broad-except
        import traceback
        _H.pop('h', None)
        return [{'ev': [{'op': 'crash', 'what': repr(ex)[:300]}], '_tb': traceback.format_exc()[-1500:], '_job': [lname, kind, unit]}]


def _exec(sched, lname, kind, unit):
    h = _machine()
    light = h.machine.lights[lname]
    light.clear_stack()
    h.advance_time_and_run(1)
    chans = list(light.hw_drivers.keys())
    saved = {c: light.hw_drivers[c] for c in chans}
    saved_last = light._last_fade_target
    doubles, system = make_doubles(h, kind, unit)(len(chans))
    for c, d in zip(chans, doubles):
        light.hw_drivers[c] = [d]
    nch = 1 if lname == 'l_w' else 3
    lines = []
    saved_style = light._rbgw_style
    if lname == 'l_rgbw':
        # the three values of mpf: rgbw_white_behavior (the attribute is only ever assigned from that setting at load)
        light._rbgw_style = ('min_rgb', 'duck_rgb', 'white_only')[(len(sched) + {50: 0, 100: 1, 200: 2}.get(unit, 0)) % 3]

    # the machine-wide brightness setting (machine variable 'brightness'): 1.0 or 0.8, by schedule
    factor = 0.8 if (len(sched) + (unit // 50)) % 3 == 0 else 1.0
    h.machine.variables.set_machine_var('brightness', factor)
    for _ in range(3):
        h.advance_time_and_run(0)

    # A batched platform transmits at most once per update period (1/update_hz = 10 ms here).  Two fade-outs which end at the
    # same model instant but began in different steps end a fraction of a microsecond apart; the correction for the second one
    # is then transmitted one period after the first.  The hardware of a batched platform is therefore looked at 1.5 update
    # periods after the end of the step's fades (every step lasts that much longer; fades still end inside their step).
    settle = 0.015 if kind == 'batch' else 0.0

    def corrected():
        from mpf.core.rgb_color import RGBColor
        lg = light.get_color()
        # brightness correction computed here, not by the code under test: every component scaled by the factor
        col = light.color_correct(RGBColor([int(x * factor) for x in (lg.red, lg.green, lg.blue)]) if factor != 1.0 else lg)
        style = light._rbgw_style if 'white' in chans and len(chans) > 1 else None
        lo = min(col.red, col.green, col.blue)
        grey = col.red == col.green == col.blue
        out = []
        for c in chans:
            if c == 'white':
                # configured white extraction of RGBW lights (light_settings: rgbw_white_behavior)
                out.append((col.red if grey else 0) if style == 'white_only' else lo)
            elif style == 'duck_rgb':
                out.append(getattr(col, c) - lo)
            elif style == 'white_only':
                out.append(0 if grey else getattr(col, c))
            else:
                out.append(getattr(col, c))
        return out

    def logical():
        c = light.get_color()
        return [c.red, c.green, c.blue]

    def entry_sc(key):
        for e in light.stack:
            if e.key == key and e.start_color is not None:
                return [e.start_color.red, e.start_color.green, e.start_color.blue]
        return [0, 0, 0]
    try:
        for s in list(sched) + [{'op': 'adv'}] * 5:
            op = s['op']
            if op == 'init':
                continue
            if op == 'color':
                col = PALETTE[s['c']]
                if lname == 'l_w':
                    col = (GREYS[s['c']],) * 3      # a one-channel light is driven with shades of white
                key = 'k%d' % s['k']
                # the same request through the three entry points: off() for black, on() / on(brightness) for white and
                # greys (every second time), color() otherwise
                kw = dict(fade_ms=s['f'] * unit, priority=s['p'], key=key)
                grey = col[0] == col[1] == col[2]
                if grey and col[0] == 0 and len(lines) % 2 == 0:
                    light.off(**kw)
                elif grey and col[0] == 255 and len(lines) % 2 == 0:
                    light.on(**kw)
                elif grey and col[0] > 0 and len(lines) % 2 == 0:
                    light.on(brightness=col[0], **kw)
                else:
                    light.color(list(col), **kw)
                lines.append({'op': op, 'c': list(col), 'f': s['f'], 'p': s['p'], 'k': s['k'], 'sc': entry_sc(key), 'lg': logical()})
            elif op == 'remove':
                key = 'k%d' % s['k']
                light.remove_from_stack_by_key(key, fade_ms=s['f'] * unit)
                lines.append({'op': op, 'k': s['k'], 'f': s['f'], 'sc': entry_sc(key), 'lg': logical()})
            elif op == 'clear':
                light.clear_stack()
                lines.append({'op': op, 'lg': logical()})
            elif op == 'adv':
                h.advance_time_and_run(unit * (1 + EPS) / 1000.0 + settle)
                lines.append({'op': op, 'lg': logical(), 'hw': [int(round(d.last * 255)) for d in doubles], 'exp': corrected(),
                              'ks': sorted({int(e.key[1:]) for e in light.stack})})
            if op != 'adv':
                for _ in range(2):
                    h.advance_time_and_run(0)
    finally:
        for d in doubles:
            if hasattr(d, 'stop'):
                d.stop()
        if system:
            system.stop()
        for c in chans:
            light.hw_drivers[c] = saved[c]
        light._rbgw_style = saved_style
        h.machine.variables.set_machine_var('brightness', 1.0)
        light.clear_stack()
        light._last_fade_target = None
        h.advance_time_and_run(0.1)
    # project to one trace per colour component
    out = []
    for ch in range(nch):
        ev = []
        for ln in lines:
            e = dict(ln)
            for k in ('c', 'sc', 'lg'):
                if k in e:
                    e[k] = e[k][ch] if nch == 3 else (e[k][0] if lname != 'l_w' else min(e[k]))
            ev.append(e)
        out.append({'ev': ev, '_job': [lname, kind, unit], '_ch': ch})
    return out


def handmade():
    Cl = lambda c, f, p, k: {'op': 'color', 'c': c, 'f': f, 'p': p, 'k': k}
    Rm = lambda k, f: {'op': 'remove', 'k': k, 'f': f}
    A = {'op': 'adv'}
    return [
        # instant set during a running (software) fade
        [Cl(2, 0, 0, 1), A, Cl(0, 3, 0, 1), A, Cl(2, 0, 0, 1), A, A, A],
        # lower key fading, upper key set on top, removed with a long fade-out
        [Cl(3, 2, 1, 1), Cl(2, 0, 2, 2), A, Rm(2, 3), A, A, A, A],
        # back to the colour from before a long fade while the fade is being stepped
        [Cl(2, 0, 0, 1), A, Cl(0, 3, 0, 1), A, Cl(2, 0, 0, 1), A, A],
        [Cl(1, 2, 0, 1), Cl(4, 1, 2, 3), A, Rm(3, 0), A, A, {'op': 'clear'}, A],
    ]


def overlapping_removals():
    """Hand-written family: faded removals of two DIFFERENT keys of one light in flight at once.

    Three entries k1 < k2 < k3 (priorities 1, 3, 5); key a is removed with fade fa and, gap units later (its fade-out still
    running), key b with fade fb - a above or below b, b's fade-out ending before / with / after a's - then
      (a) a removed key is set again with a lower / the same / a higher priority than it had, during the fade-outs or
          after they have ended (and is then left as the only thing above the lowest entry, so that it is what shows),
      (b) the entry beneath the removed top is itself fading and arrives inside the (longer) fade-out window.
    """
    Cl = lambda c, f, p, k: {'op': 'color', 'c': c, 'f': f, 'p': p, 'k': k}
    Rm = lambda k, f: {'op': 'remove', 'k': k, 'f': f}
    A = {'op': 'adv'}
    prio = {1: 1, 2: 3, 3: 5}
    col = {1: 2, 2: 3, 3: 1}
    base = [Cl(col[k], 0, prio[k], k) for k in (1, 2, 3)] + [A]
    timings = [(3, 1, 1), (3, 1, 2), (2, 1, 3), (2, 0, 2), (4, 2, 3), (3, 0, 1), (1, 0, 3)]
    out = []
    for a, b in ((3, 2), (2, 3), (3, 1), (1, 3), (2, 1), (1, 2)):
        third = 6 - a - b
        for fa, gap, fb in timings:
            two = base + [Rm(a, fa)] + [A] * gap + [Rm(b, fb)]
            rest = max(fa - gap, fb)                # units until both fade-outs have ended
            out.append(two + [A] * (rest + 2) + [Rm(third, 0), A, A])
            for dp in (-1, 0, 1):
                for who in (a, b):
                    again = Cl(4, 0, prio[who] + dp, who)
                    # after both fade-outs have ended / while the later one is still running
                    out.append(two + [A] * (rest + 1) + [again, A, Rm(third, 2 if third > 1 else 0), A, A, A, Rm(who, 0), A])
                    if rest > 1:
                        out.append(two + [A] * (rest - 1) + [again, A, A, Rm(third, 0), A, Cl(5, 1, prio[who] - 1, who), A, A])
    # (b) the entry beneath the removed one is fading and arrives inside the longer fade-out
    for top, mid, low in ((3, 2, 1), (3, 1, 2), (2, 1, 3)):
        for f_mid, wait, fa, gap, fb in ((2, 1, 4, 1, 1), (2, 1, 3, 0, 3), (3, 1, 4, 1, 2), (2, 0, 4, 1, 4), (3, 2, 3, 1, 1)):
            # `low` here is merely the other key that is faded out meanwhile (beneath or above the fading entry)
            out.append([Cl(col[low], 0, prio[low], low), Cl(col[top], 0, prio[top], top), A, Cl(col[mid], f_mid, prio[mid], mid)]
                       + [A] * wait + [Rm(top, fa)] + [A] * gap + [Rm(low, fb)] + [A] * (max(fa, fb) + 3)
                       + [Rm(mid, 0), A, A])
    return out


def gen_schedule(b):
    """The calls of one simulated behaviour of LightStackGen: the `act` of every state reached by a Do step."""
    return [s['act'] for prev, s in zip(b, b[1:]) if prev['pick'] != 0 and s['pick'] == 0]


def _stale_keys(ev, n):
    """(for the wording of a report only) keys listed in line n although, by the log, their removal had completed."""
    t, due, prio = 0, {}, {}
    for e in ev[:n]:
        k = e.get('k')
        if e['op'] == 'adv':
            t += 1
            for x in [x for x in due if due[x] <= t]:
                prio.pop(x, None)
        elif e['op'] == 'clear':
            due, prio = {x['k']: t for x in ev[:n] if 'k' in x}, {}
        elif e['op'] == 'color' and e['p'] >= prio.get(k, e['p']):       # (a lower priority than the key has is ignored)
            due.pop(k, None)
            prio[k] = e['p']
        elif e['op'] == 'remove' and k in prio:
            due[k] = t if k in due or not e['f'] else t + e['f']
            if due[k] <= t:
                prio.pop(k)
    if 0 < n <= len(ev) and 'ks' in ev[n - 1]:
        return [k for k in ev[n - 1]['ks'] if k in due and due[k] <= t]
    return []


def run(ctx):
    from concurrent.futures import ThreadPoolExecutor
    wd = tlc.prepare(ctx.scratch, 'LightStack', 'lightstack')
    with open(wd + '/MC.cfg', 'w') as f:
        f.write(cfg_text(ctx.quick))
    with open(wd + '/MCOverlap.cfg', 'w') as f:
        f.write(overlap_cfg_text(ctx.quick))
    with open(wd + '/Gen.cfg', 'w') as f:
        f.write(GEN_CFG)
    with ThreadPoolExecutor(3) as ex:       # three independent TLC processes
        f_mc = ex.submit(tlc.check, wd, 'LightStack', 'MC.cfg', workers=14, timeout=1500)
        f_ov = ex.submit(tlc.check, wd, 'LightStackMC', 'MCOverlap.cfg', workers=2 if ctx.quick else 8, timeout=1500)
        # LightStackGen draws the kind of each step before its arguments (see the module): commands land inside running
        # fades and fade-outs, several fade-outs are in flight at once, removed keys are used again
        f_sim = ex.submit(tlc.simulate, wd, 'LightStackGen', 'Gen.cfg', num=300 if ctx.quick else 5000,
                          depth=53 if ctx.quick else 73, seed=ctx.seed)
        r = tlc.expect_ok(f_mc.result(), 'LightStack design check')
        r2 = tlc.expect_ok(f_ov.result(), 'LightStack design check (overlapping fade-outs)')
        behs, _ = f_sim.result()
    ctx.add_tlc('LightStackMC', r, {'Keys': 2, 'Prios': 2, 'Cols': 3, 'Fades': '{0,2}', 'MaxOps': 4 if ctx.quick else 5})
    ctx.add_tlc('LightStackMCOverlap', r2, {'Keys': 3, 'Prios': 2, 'Cols': 2 if ctx.quick else 3, 'Fades': '{0,1,2}',
                                            'MaxOps': 3 if ctx.quick else 4, 'InitStacks': 3})
    ctx.coverage['monitors'] += ['RangeSane', 'TopWins', 'EmptyIsOff', 'RemoveRestores', 'FadeOutGone', 'OneEntryPerKey',
                                 'ReAddTakesEffect', 'EndedFadeOutTransparent', 'ObsLogical', 'ObsHw(at rest)', 'ObsKeys']
    rnd = random.Random(ctx.seed)
    jobs = [(gen_schedule(b), rnd.choice(LIGHTS), rnd.choice(BACKENDS), rnd.choice(UNITS)) for b in behs]
    two_fo = sum(1 for b in behs if any(len([e for e in s['stack'] if e['fo']]) > 1 for s in b))
    ctx.coverage['simulated_schedules_with_overlapping_fade_outs'] = two_fo
    if behs and two_fo * 10 < len(behs):
        raise tlc.TLCError('schedule generator: only %d of %d behaviours have two fade-outs in flight' % (two_fo, len(behs)))
    for s in handmade():
        jobs += [(s, lt, be, 50) for lt in ('l_w', 'l_rgb') for be in BACKENDS]
        jobs += [(s, 'l_rgbw', be, u) for be in BACKENDS[:2] for u in (50, 100, 200)]
    fam = overlapping_removals()
    rnd.shuffle(fam)
    combos = [(lt, be) for lt in LIGHTS for be in BACKENDS]
    for i, s in enumerate(fam[:40] if ctx.quick else fam):
        for j in range(1 if ctx.quick else 3):
            lt, be = combos[(5 * i + 7 * j) % len(combos)]
            jobs.append((s, lt, be, UNITS[(i + j) % 2]))
    res = harness.pmap(exec_schedule, jobs, chunk=8)
    traces = [t for r in res for t in r]
    owner = [i for i, r in enumerate(res) for _ in r]
    v = tlc.validate_traces(wd, 'LightStackTrace', 'LightStackTrace.cfg', traces)
    ctx.add_trace_verdict('LightStackTrace', v, len(traces))
    ctx.coverage['executions'] = len(jobs)
    ctx.sample({'kind': 'light-trace', 'job': traces[0].get('_job'), 'trace': traces[0]['ev'][:10]})
    tlc.finish_diagnosis(wd, 'LightStackTrace', 'LightStackTrace.cfg', traces, v)
    for i, info in sorted(v.rejected.items()):
        if info.get('line') is None:
            continue
        fe = info.get('failing_event') or {}
        j = jobs[owner[i]]
        stale = _stale_keys(traces[i]['ev'], info.get('line') or 0) if fe.get('op') == 'adv' else []
        if stale:
            what = 'removed-key-still-in-stack'
        else:
            what = 'hw-at-rest' if (fe.get('op') == 'adv' and fe.get('hw') != fe.get('exp')) else 'logical'
        ctx.violation('C09:%s:%s:%s' % (j[2], what, fe.get('op', '?')),
                      'light %s on backend %s (unit %dms, channel %s): execution not explained by LightStack spec at line %s: %s (prev %s)%s' % (
                          j[1], j[2], j[3], traces[i].get('_ch'), info.get('line'), fe, info.get('prev_event'),
                          '; key(s) %s still in the stack after their removal (fade-out) had ended' % stale if stale else ''),
                      {'job': list(j), 'trace': traces[i], 'info': info})
    ctx.assumptions += ['hardware channels are recording subclasses of the real LightPlatformInterface / LightPlatformSoftwareFade / '
                        'LightPlatformDirectFade / PlatformBatchLight classes', 'mid-fade colours are only bounded by their endpoints']


def replay(ctx, data):
    d = data['replay']
    trs = exec_schedule(tuple(d['job']))
    for t in trs:
        print('replay trace ch', t.get('_ch'), t['ev'])
