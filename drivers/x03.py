"""X03 - the tilt mode and what it does to the game (specs/Tilt)."""
import os
import random

from lib import tlc, harness
from lib.tlaval import to_tla

LEVEL = 'model_checking'
U = 100                 # one model time unit in ms
EPS = 1e-6
MAXPF = 2               # balls on the playfield at most (one added ball)
KEYS = ('id', 'wtt', 'window', 'settle', 'reset', 'players', 'bpg')
WATCH = ['tilt_warning', 'tilt', 'tilt_clear', 'slam_tilt', 'ball_started', 'ball_ended', 'game_ended'] + \
        ['tilt_warning_%d' % n for n in range(0, 13)]


def V(i, wtt, window, settle, reset, players, bpg):
    return dict(id=i, wtt=wtt, window=window, settle=settle, reset=reset, players=players, bpg=bpg)


# config variants: warnings_to_tilt 1..3, multiple_hit_window 0 / 300 ms (3 units), settle_time 0 / 400 ms / 5 s (50 units),
# warnings reset per ball (ball_will_end) or only on request (kept for the whole game), 1-2 players, 2-3 balls
VARIANTS = [
    V(1, 3, 3, 4, 'ball', 1, 2),
    V(2, 3, 3, 4, 'manual', 2, 2),
    V(3, 2, 0, 0, 'ball', 2, 2),
    V(4, 2, 3, 0, 'manual', 1, 3),
    V(5, 1, 3, 4, 'ball', 2, 2),
    V(6, 1, 0, 4, 'manual', 1, 2),
    V(7, 2, 0, 4, 'ball', 1, 3),
    V(8, 3, 0, 0, 'manual', 2, 3),
    V(9, 2, 3, 4, 'ball', 2, 2),
    V(10, 3, 3, 50, 'ball', 1, 2),          # the defaults of the mode: 3 warnings, 300 ms, 5 s
    V(11, 2, 2, 3, 'manual', 2, 2),
    V(12, 3, 2, 2, 'ball', 2, 3),
]
VAR = {v['id']: v for v in VARIANTS}
# model checking: small times
MC_VARIANTS = [
    V(101, 2, 2, 2, 'ball', 1, 2), V(102, 2, 2, 2, 'manual', 2, 2), V(103, 1, 0, 2, 'ball', 2, 2), V(104, 3, 1, 0, 'manual', 1, 2),
    V(105, 2, 0, 1, 'manual', 1, 2), V(106, 3, 2, 3, 'ball', 1, 2),
]


def write_machine(scratch, v):
    d = os.path.join(scratch, 'machines', 'tilt_%d' % v['id'])
    if os.path.exists(d + '/config/config.yaml'):
        return d
    os.makedirs(d + '/config', exist_ok=True)
    os.makedirs(d + '/modes/tilt/config', exist_ok=True)
    with open(d + '/modes/tilt/config/tilt.yaml', 'w') as f:
        f.write('\n'.join([
            '#config_version=6', 'tilt:',
            '  reset_warnings_events: %s' % ('ball_will_end, tilt_reset_warnings' if v['reset'] == 'ball' else 'tilt_reset_warnings'),
            '  tilt_events: tilt_event', '  tilt_warning_events: tilt_warning_event', '  tilt_slam_tilt_events: slam_tilt_event',
            '  multiple_hit_window: %dms' % (v['window'] * U), '  settle_time: %dms' % (v['settle'] * U),
            '  warnings_to_tilt: %d' % v['wtt'], '']))
    with open(d + '/config/config.yaml', 'w') as f:
        f.write('\n'.join([
            '#config_version=6', 'modes:', '  - tilt', 'game:', '  balls_per_game: %d' % v['bpg'],
            'switches:', '  s_start:', '    number:', '    tags: start', '  s_tilt:', '    number:', '    tags: tilt',
            '  s_tilt_warning:', '    number:', '    tags: tilt_warning', '  s_slam_tilt:', '    number:', '    tags: slam_tilt', '']))
    return d


# ------------------------------------------------------------------------------ TLC inputs
def mc_module(variants, name='TiltMC'):
    return """------------------------------ MODULE %s ------------------------------
EXTENDS Tilt
MCConfigs == {%s}
=============================================================================
""" % (name, ',\n   '.join(to_tla({k: v[k] for k in KEYS}) for v in variants))


INVS = ('INVARIANT TypeOK\nINVARIANT SlamOnlyWhileTilted\nINVARIANT TiltedWaits\nINVARIANT NoTimerWithoutTilt\nINVARIANT LiveBall\n'
        'INVARIANT BelowLimitPerBall\nINVARIANT ClearedWhenSettled\n')
PROPS = ('PROPERTY WarningCounts\nPROPERTY WarningEventsOnlyFromWarnings\nPROPERTY TiltExactlyOnce\nPROPERTY FrozenWhileTilted\n'
         'PROPERTY ClearExactlyOnce\nPROPERTY ClearOnlySettled\nPROPERTY NextBallAfterClear\nPROPERTY NoBallStartsTilted\n'
         'PROPERTY ResetAsConfigured\nPROPERTY KeptUnlessReset\nPROPERTY PerBallReset\nPROPERTY NewGameAtZero\nPROPERTY SlamTilt\n'
         'PROPERTY OutsideGameInert\n')
MONITORS = [x.split()[1] for x in (INVS + PROPS).strip().split('\n')]


def tlc_cfg(spec, configs, maxops, maxtime, maxgames, extra=''):
    return """SPECIFICATION %s
CONSTANTS
  Configs <- %s
  MaxOps = %d
  MaxTime = %d
  MaxGames = %d
  MaxPf = %d
%sCHECK_DEADLOCK FALSE
""" % (spec, configs, maxops, maxtime, maxgames, MAXPF, extra)


# ------------------------------------------------------------------------------ execution on the real machine
class Inapplicable(Exception):
    """The schedule asks for a step the real machine is not in a position to take (it has left the model before)."""


class SettleDelay:
    """Stand-in for the tilt mode's DelayManager under the time-warping test loop.  Tilt._tilt_done re-arms its delay with the
    rest of the settle time; the virtual clock stops exactly at the due time of the delay, where float rounding can leave a
    rest of ~1e-13 ms, and a delay that short does not move a float clock any more: the callback would be re-armed for ever
    (a real clock always advances).  One nanosecond is added to the delay."""

    def __init__(self, inner):
        self._inner = inner

    def reset(self, ms, callback, name, **kwargs):
        return self._inner.reset(ms=ms + 1e-6, callback=callback, name=name, **kwargs)

    def __getattr__(self, item):
        return getattr(self._inner, item)


class Run:
    def __init__(self, mdir, v, sched, seed):
        self.h = h = harness.boot(None, machine_dir=mdir, fake_game=True)
        self.m = m = h.machine
        self.v = v
        self.sched = sched
        self.rnd = random.Random(seed)
        self.ev = []
        self.log = []
        self.tilt = m.modes['tilt']
        self.tilt.delay = SettleDelay(self.tilt.delay)
        m.playfield.add_ball = self._add_ball
        m.ball_controller.num_balls_known = 3
        for name in WATCH:
            m.events.add_handler(name, self._mk(name), priority=5)

    def _mk(self, name):
        def hnd(**kwargs):
            if name == 'tilt_warning':
                self.log.append([name, int(kwargs.get('warnings', -1)), int(kwargs.get('warnings_remaining', -1))])
            elif name.startswith('tilt_warning_'):
                self.log.append(['tilt_warning_n', int(name.rsplit('_', 1)[1]), 0])
            else:
                self.log.append([name, 0, 0])
        return hnd

    # harness side of the fake game (no ball devices): the ball appears on the playfield when it is served
    def _add_ball(self, **kwargs):
        self.m.playfield.balls += 1
        self.m.playfield.available_balls += 1

    def _take_from_playfield(self, n):
        self.m.playfield.balls = max(0, self.m.playfield.balls - n)
        self.m.playfield.available_balls = max(0, self.m.playfield.available_balls - n)

    def settle(self, n=40):
        for _ in range(n):
            self.h.advance_time_and_run(0)

    def tap(self, name):
        self.m.switch_controller.process_switch(name, 1, logical=True)
        self.m.switch_controller.process_switch(name, 0, logical=True)

    def observe(self, rec):
        g = self.m.game
        rec['out'] = self.log
        self.log = []
        rec['game'] = bool(g)
        rec['tilted'] = bool(g and g.tilted)
        rec['slam'] = bool(g and g.slam_tilted)
        rec['cur'] = int(g.player.number) if g and g.player else 0
        warn, ball = [0, 0], [0, 0]
        if g:
            for p in g.player_list:
                warn[p.number - 1] = int(p.tilt_warnings)
                ball[p.number - 1] = int(p.ball)
        rec['warn'] = warn
        rec['ball'] = ball
        rec['pf'] = int(self.m.playfield.available_balls)
        rec['_btc'] = self.tilt._balls_to_collect
        self.ev.append(rec)

    def step(self, a):
        op = a['op']
        m = self.m
        g = m.game
        rec = {'op': op}
        if op in ('endgame', 'drain', 'addball') and not g:
            raise Inapplicable(op)
        if op == 'start' and g:
            raise Inapplicable(op)
        if op == 'warnsw':
            self.tap('s_tilt_warning')
        elif op == 'warnev':
            m.events.post('tilt_warning_event')
        elif op == 'tiltsw':
            if self.rnd.random() < 0.7:
                self.tap('s_tilt')
            else:
                m.events.post('tilt_event')
        elif op == 'slam':
            if self.rnd.random() < 0.7:
                self.tap('s_slam_tilt')
            else:
                m.events.post('slam_tilt_event')
        elif op == 'reset':
            m.events.post('tilt_reset_warnings')
        elif op == 'endgame':
            if not g.tilted:
                self._take_from_playfield(MAXPF)
            m.events.post('end_game')
        elif op == 'addball':
            if g.tilted or not g.balls_in_play or m.playfield.available_balls >= MAXPF:
                raise Inapplicable(op)
            g.balls_in_play += 1
            self._add_ball()
        elif op == 'drain':
            if m.playfield.available_balls < 1:
                raise Inapplicable(op)
            if g.tilted and self.tilt._balls_to_collect < 1:
                raise Inapplicable(op)
            self._take_from_playfield(1)
            if g.tilted:
                # the ball reaches a drain device (there are no ball devices in the fake game to post balldevice_*_ball_enter)
                self.tilt._tilted_ball_drain(new_balls=1, unclaimed_balls=1, device=None)
            else:
                self.h.post_relay_event_with_params('ball_drain', balls=1)
        elif op == 'start':
            self.tap('s_start')
            self.settle()
            for _ in range(self.v['players'] - 1):
                self.tap('s_start')
                self.settle()
            if not m.game or m.game.num_players != self.v['players']:
                raise RuntimeError('game did not start with %d players' % self.v['players'])
        elif op == 'adv':
            self.h.advance_time_and_run(U * (1 + EPS) / 1000.0)
        else:
            raise ValueError(op)
        self.settle()
        self.observe(rec)

    def run(self):
        self.skipped = 0
        for a in self.sched:
            if a['op'] == 'init':
                continue
            try:
                self.step(a)
            except Inapplicable:
                # extra time units (mutate) can take the execution off the generated behaviour: such a step is left out,
                # the model judges the schedule that was really executed
                self.skipped += 1
        return self.ev


def exec_schedule(job):
    mdir, vid, sched, seed = job
    v = VAR[vid]
    cfg = {k: v[k] for k in KEYS}
    r = None
    try:
        r = Run(mdir, v, sched, seed)
        ev = r.run()
        out = {'cfg': cfg, 'ev': ev, '_skipped': r.skipped}
    except BaseException as ex:  # pylint: disable=broad-except
        import traceback
        ev = (r.ev if r else []) + [{'op': 'crash', 'what': repr(ex)[:300]}]
        out = {'cfg': cfg, 'ev': ev, '_tb': traceback.format_exc()[-2000:]}
    finally:
        if r is not None:
            harness.shutdown(r.h)
    return out


# ------------------------------------------------------------------------------ schedules
def handmade():
    O = lambda op: {'op': op}
    A, W, E, T, S, D, R = O('adv'), O('warnsw'), O('warnev'), O('tiltsw'), O('slam'), O('drain'), O('reset')
    ST, B, EG = O('start'), O('addball'), O('endgame')
    out = [
        # the mode's defaults: warnings inside 300 ms ignored, tilt on the third, clear 5 s after the last processed hit
        (10, [ST, W, A, W, A, W, A, W, A, A, A, W, A, A, A, W, A, D] + [A] * 20 + [W] + [A] * 52 + [W, A, D, A]),
        # hits keep coming while tilted: each one (outside the window of the last accepted one) pushes tilt_clear out
        (10, [ST, E, E, E, A, D] + [A] * 30 + [W] + [A] * 30 + [E] + [A] * 52),
        (1, [ST, W, A, A, A, W, A, A, A, W, W, A, W, A, A, D, A, A, W, A, A, A, A, A, A]),
        # tilt switch without any warning before: nothing to settle
        (1, [ST, T, T, W, D, A, A, A, A, A]),
        (7, [ST, T, D, A, W, T, W, A, D, A, A, A, A, A]),
        # warnings outside a game still move the settle reference
        (6, [W, A, ST, T, D, A, A, A, A]),
        (6, [E, S, T, R, A, ST, E, A, A, D, A, A, A, A, E, D, A, A, A, A, A]),
        # two balls on the playfield at the tilt: tilt_clear only after both have drained
        (9, [ST, B, W, A, A, A, W, D, A, A, A, A, A, D, A, A, A, A, A]),
        (3, [ST, B, D, W, B, T, D, W, D, W, D]),
        (5, [ST, B, W, D, A, A, A, A, A, A, D, A, W, A, A, A, A, A]),
        # counts kept for the whole game unless reset on request; per player
        (2, [ST, W, A, A, A, W, D, W, A, A, A, W, A, A, A, W, A, D, A, A, A, A, A, W, A, A, A, R, W, A, A, A, W]),
        (8, [ST, W, W, D, W, D, W, W, D, R, W, W, W, D, W, D, D]),
        (11, [ST, W, A, W, A, W, D, W, A, A, A, A, W, A, A, W, D, A, A, A, W]),
        # reset while tilted / while the game is ending
        (2, [ST, W, A, A, A, W, A, A, A, W, R, A, D, A, A, A, A, A, W]),
        (2, [ST, W, T, EG, R, W, S, D, A, A, A, A, A, A]),
        # slam tilt: in a game (fresh / already tilted), outside a game
        (1, [S, ST, W, A, S, W, T, D, A, A, A, A, A, S, ST, T, S, D, A, A, A, A, A]),
        (3, [ST, S, S, D, S, ST, D, D, D, D, S]),
        (12, [ST, B, S, D, A, W, A, A, D, A, A, A]),
        # end_game with a live ball / while a tilt waits
        (9, [ST, W, EG, W, ST, T, A, EG, W, A, D, A, A, A, A, A, ST, W]),
        (4, [ST, W, A, A, A, W, D, EG, ST, W, A, A, A, W, A, A, A, W]),
        # tilt by warnings_to_tilt = 1
        (5, [ST, W, W, A, A, A, W, D, A, A, A, A, A, W, D, A, A, A, A]),
        (6, [ST, E, D, A, A, A, A, E, D, A, A, A, A, A]),
    ]
    return out


def mutate(sched, rnd):
    """Let time pass here and there (windows and settle times are several units long)."""
    out = []
    for a in sched:
        out.append(a)
        if a['op'] != 'init' and rnd.random() < 0.2:
            out += [{'op': 'adv'}] * rnd.choice([1, 2, 3, 4])
    return out


def brief(e):
    return {k: x for k, x in e.items() if not k.startswith('_')} if e else e


def classify(fe, pe):
    """Name the statement-level symptom of a rejected step from its observation (for stable signatures)."""
    if fe.get('op') == 'crash':
        return 'exception'
    names = [x[0] for x in fe.get('out', [])]
    if names.count('tilt') > 1 or names.count('tilt_clear') > 1 or names.count('slam_tilt') > 1:
        return 'event-posted-twice'
    if 'tilt_clear' in names:
        return 'tilt-clear-unexpected'
    if pe and pe.get('tilted') and not fe.get('tilted') and fe.get('game'):
        return 'tilted-cleared-without-tilt-clear'
    if pe and pe.get('tilted') and fe.get('tilted') and fe.get('op') in ('adv', 'drain'):
        return 'tilt-clear-missing'
    if fe.get('op') in ('warnsw', 'warnev'):
        return 'warning-accounting'
    if fe.get('op') in ('tiltsw', 'slam'):
        return 'tilt-accounting'
    if fe.get('op') == 'reset':
        return 'reset'
    return 'model-mismatch'


def run(ctx):
    wd = tlc.prepare(ctx.scratch, 'Tilt', 'tilt')
    # 1. design check: the model satisfies the statement for every interleaving within the bounds
    with open(wd + '/TiltMC.tla', 'w') as f:
        f.write(mc_module(MC_VARIANTS))
    maxops, maxtime, maxgames = (6, 4, 2) if ctx.quick else (8, 6, 2)
    with open(wd + '/MC.cfg', 'w') as f:
        f.write(tlc_cfg('Spec', 'MCConfigs', maxops, maxtime, maxgames, extra=INVS + PROPS))
    r = tlc.expect_ok(tlc.check(wd, 'TiltMC', 'MC.cfg', workers=8, timeout=1500), 'Tilt design check')
    ctx.add_tlc('TiltMC', r, {'configs': len(MC_VARIANTS), 'MaxOps': maxops, 'MaxTime': maxtime, 'MaxGames': maxgames, 'MaxPf': MAXPF})
    ctx.coverage['monitors'] += MONITORS
    # reachability probe: every interesting branch of the model is taken within the bounds
    def probe(p):
        name, inv = p
        with open(wd + '/%s.cfg' % name, 'w') as f:
            f.write(tlc_cfg('Spec', 'MCConfigs', maxops, maxtime, maxgames, extra='INVARIANT %s\n' % name))
        with open(wd + '/Tilt%s.tla' % name, 'w') as f:
            f.write(mc_module(MC_VARIANTS, name='Tilt' + name).replace('=====', '%s == %s\n=====' % (name, inv), 1))
        return name, tlc.check(wd, 'Tilt' + name, name + '.cfg', workers=2, timeout=600)
    from concurrent.futures import ThreadPoolExecutor
    with ThreadPoolExecutor(4) as ex:
        for name, rp in ex.map(probe, PROBES):
            if rp.violated != name:
                raise tlc.TLCError('reachability probe %s: the model never gets there (%s)' % (name, rp.violated))
    ctx.coverage['reachability_probes'] = [p[0] for p in PROBES]
    # 2. schedules: random walks of the model (kind of step drawn first) + hand-written ones
    with open(wd + '/TiltGenMC.tla', 'w') as f:
        f.write(mc_module(VARIANTS, name='TiltGenMC').replace('EXTENDS Tilt\n', 'EXTENDS TiltGen\n'))
    with open(wd + '/Gen.cfg', 'w') as f:
        f.write(tlc_cfg('GSpec', 'MCConfigs', 60, 60, 3))
    behs, _ = tlc.simulate(wd, 'TiltGenMC', 'Gen.cfg', num=330 if ctx.quick else 4000, depth=70 if ctx.quick else 110, seed=ctx.seed)
    rnd = random.Random(ctx.seed)
    jobs = []
    mdirs = {v['id']: write_machine(ctx.scratch, v) for v in VARIANTS}
    for b in behs:
        vid = b[0]['cfg']['id']
        sched = [st['act'] for prev, st in zip(b, b[1:]) if prev['pick'] != 0 and st['pick'] == 0]
        jobs.append((mdirs[vid], vid, mutate(sched, rnd), rnd.randrange(1 << 30)))
    for vid, sched in handmade():
        jobs.append((mdirs[vid], vid, sched, 1))
        jobs.append((mdirs[vid], vid, sched, 2))
    traces = harness.pmap(exec_schedule, jobs, nproc=8, chunk=4, item_timeout=60)
    for t, j in zip(traces, jobs):
        t.setdefault('cfg', {k: VAR[j[1]][k] for k in KEYS})      # a worker that had to be killed
    ctx.log('schedules executed: %d (%d steps, %d inapplicable steps left out)' % (
        len(traces), sum(len(t['ev']) for t in traces), sum(t.get('_skipped', 0) for t in traces)))
    # 3. validation
    with open(wd + '/Trace.cfg', 'w') as f:
        f.write(tlc_cfg('TSpec', 'TConfigs', 10 ** 6, 10 ** 6, 10 ** 6, extra=INVS + 'INVARIANT Reporter\n'))
    v = tlc.validate_traces(wd, 'TiltTrace', 'Trace.cfg', traces)
    ctx.add_trace_verdict('TiltTrace', v, len(traces))
    ctx.sample({'kind': 'tilt-trace', 'cfg': traces[-1]['cfg'], 'trace': [brief(e) for e in traces[-1]['ev'][:12]]})
    tlc.finish_diagnosis(wd, 'TiltTrace', 'Trace.cfg', traces, v)
    for i, info in sorted(v.rejected.items()):
        if info.get('line') is None:
            continue
        if info.get('reason') == 'monitor':
            ctx.violation('X03:monitor:%s' % info.get('monitor'), 'execution (cfg %s) violates %s at line %s' % (
                traces[i]['cfg'], info.get('monitor'), info.get('line')), {'job': list(jobs[i][1:]), 'trace': traces[i], 'info': info})
            continue
        fe = info.get('failing_event') or {}
        pe = info.get('prev_event') or {}
        ctx.violation('X03:%s:%s' % (fe.get('op', 'end'), classify(fe, pe)),
                      'execution (cfg %s) not explained by Tilt spec at line %s: %s (prev %s) %s' % (
                          traces[i]['cfg'], info.get('line'), brief(fe), brief(pe), traces[i].get('_tb', '')),
                      {'job': list(jobs[i][1:]), 'trace': traces[i], 'info': info})
    ops, evs = {}, {}
    for t in traces:
        for e in t['ev']:
            ops[e['op']] = ops.get(e['op'], 0) + 1
            for x in e.get('out', []):
                evs[x[0]] = evs.get(x[0], 0) + 1
    ctx.coverage['ops_executed'] = ops
    # code-as-is points the statement spells out (not alarms): how often the executions went through them
    early, ignored = 0, 0
    for t in traces:
        now, last_tilt_sw = 0, None
        for e in t['ev']:
            if e['op'] == 'adv':
                now += 1
            if e['op'] in ('tiltsw', 'slam') and e.get('game'):
                last_tilt_sw = now
            if any(x[0] == 'tilt_clear' for x in e.get('out', [])) and last_tilt_sw is not None and \
                    now < last_tilt_sw + t['cfg']['settle']:
                early += 1
            if e['op'] == 'warnsw' and e.get('tilted') and not e.get('out'):
                ignored += 1
    ctx.notes.append('tilt_clear posted less than settle_time after the last hit of the TILT switch / slam-tilt switch in %d '
                     'executions: only tilt_warning() moves Tilt.last_tilt_warning_switch, a tilt through the tilt switch alone is '
                     'cleared as soon as the balls have drained (event doc of tilt_clear: "when the settling time has passed after '
                     'the last tilt switch hit"); modelled as the code behaves (statement 4)' % early)
    ctx.notes.append('virtual clock only: Tilt._tilt_done re-arms its delay with the rest of the settle time; when the delay fires '
                     'with a float rest of ~1e-13 ms the time-warping test loop never advances again (endless re-arming); the '
                     'driver lengthens that delay by 1 ns (SettleDelay).  Harmless with a real clock.')
    ctx.notes.append('there is no slam_tilt_clear event in mpf (only tilt_clear after the slam-tilted ball); the accepted warning '
                     'that reaches warnings_to_tilt posts tilt, not tilt_warning / tilt_warning_<n>')
    ctx.coverage['events_observed'] = evs
    ctx.coverage['configs_exercised'] = sorted({j[1] for j in jobs})
    for need in ('tilt', 'tilt_clear', 'slam_tilt', 'tilt_warning', 'game_ended'):
        if not evs.get(need) and not ctx.violations:
            raise tlc.TLCError('vacuous: event %s never observed in any execution' % need)
    ctx.assumptions += [
        'fake-game harness (MpfFakeGameTestCase, no ball devices): a served ball is playfield.available_balls += 1; a drain of a '
        'live ball is the ball_drain relay event; while tilted the ball reaching a drain device is delivered by calling '
        'Tilt._tilted_ball_drain(unclaimed_balls=1) (what the balldevice_<drain>_ball_enter handler would get); an added ball is '
        'game.balls_in_play += 1 together with a ball on the playfield',
        'one time unit = %d ms; all operations happen at unit boundaries; every operation is followed by a settled event loop, so '
        'ball end / next ball start are atomic with respect to the operations (no tilt while ball_ending / ball_starting is '
        'held by somebody else: that corner is the known finding C10:tilt-during-ball-ending:next-ball-live-while-tilted)' % U,
        'tilt and slam tilt arrive through the tagged switch or the configured tilt_events / tilt_slam_tilt_events at random '
        '(same callback); no extra balls; 1-2 players, 2-3 balls per game',
    ]


# states the model must be able to reach within the design-check bounds (the negation is given to TLC as an invariant)
PROBES = [
    ('ProbeSettleWait', '~(s.tilted /\\ s.pf = 0 /\\ s.doneAt # Never)'),
    ('ProbeRearm', '~(act.op = "adv" /\\ s.tilted /\\ s.pf = 0 /\\ s.doneAt > now /\\ s.lastSw > 0 /\\ s.doneAt = s.lastSw + cfg.settle /\\ nops > 4)'),
    ('ProbeSlamWhileTilted', '~(s.slam /\\ act.op = "slam" /\\ ~Has(s, "tilt"))'),
    ('ProbeTwoBallsTilted', '~(s.tilted /\\ s.toCollect = 1 /\\ act.op = "drain")'),
    ('ProbeSecondPlayerWarn', '~(s.game /\\ s.cur = 2 /\\ s.warn[2] > 0 /\\ s.warn[1] > 0)'),
    ('ProbeWindowIgnored', '~(act.op = "warnsw" /\\ s.game /\\ ~s.tilted /\\ s.out = <<>> /\\ s.lastWarn # Never)'),
    ('ProbeEndingWhileTilted', '~(s.tilted /\\ s.ending)'),
    ('ProbeOverLimit', '~(s.game /\\ ~s.tilted /\\ s.warn[s.cur] >= cfg.wtt)'),
]


def replay(ctx, data):
    d = data['replay']
    vid, sched, seed = d['job']
    mdir = write_machine(ctx.scratch, VAR[vid])
    tr = exec_schedule((mdir, vid, sched, seed))
    for e in tr['ev']:
        print(e)
    print(tr.get('_tb', ''))
