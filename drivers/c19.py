"""C19 — BCP messages round-trip exactly and reassemble from any chunking (specs/Bcp).

Half A (reassembly, model checking): specs/Bcp/Bcp.tla is checked exhaustively over every chunking of every
sequence of small wire messages; the real receivers (AsyncioBcpClientSocket.read_message, BCPClientSocket.read_message
and the full BCPClientSocket -> BcpTransportManager._receive_loop -> BcpInterface.process_bcp_message path on a booted
machine) are fed from a hand-driven asyncio.StreamReader with every chunking of short streams, sampled chunkings of
long ones and TLC-simulated Send/Deliver interleavings; BcpTrace.tla judges the logged content ids.  The message sets
(abstract and real) contain lines of the class Bcp!Lookalike: no announcement, but ending like one (parameter names equal
to / ending in "bytes" with all-digit values), followed by further messages with and without payloads.

Half B (codec, bounded-exhaustive enumeration): specs/Bcp/BcpCodec.tla enumerates message shapes (TLC state graph =
case list, `-dump` for the exhaustive part, `-simulate` for the deep part); each shape is instantiated with concrete
values (seeded), run through the real encode_command_string -> decode_command_string, and BcpCodecTrace.tla demands
the Contract (one line, same command, same names, same values, same types) for every case.
"""
import asyncio
import math
import os
import random
import re
import traceback
import zlib

from lib import tlc, harness
from lib.tlaval import to_tla, parse_state

LEVEL = 'model_checking'
BYTE_MARKER = b'&bytes='
REAL_MARKER = list(BYTE_MARKER)


def _codec():
    from mpf.core.bcp import bcp_socket_client as m
    return m


# =====================================================================================================
# typed deep comparison (the oracle discipline: NaN by isnan, bool is not int, int is not float)
# =====================================================================================================
def canon(v):
    """Hashable, type-preserving canonical form of a BCP value."""
    if v is None:
        return ('none',)
    if isinstance(v, bool):
        return ('bool', v)
    if isinstance(v, int):
        return ('int', v)
    if isinstance(v, float):
        return ('float', 'nan') if math.isnan(v) else ('float', repr(v))
    if isinstance(v, str):
        return ('str', v)
    if isinstance(v, (bytes, bytearray)):
        return ('bytes', bytes(v))
    if isinstance(v, list):
        return ('list', tuple(canon(x) for x in v))
    if isinstance(v, tuple):
        return ('tuple', tuple(canon(x) for x in v))
    if isinstance(v, dict):
        return ('dict', tuple(sorted(((canon(k), canon(x)) for k, x in v.items()), key=repr)))
    return ('other', type(v).__name__, repr(v))


def same_type(a, b):
    if type(a) is not type(b):
        return False
    if isinstance(a, list):
        return len(a) == len(b) and all(same_type(x, y) for x, y in zip(a, b))
    if isinstance(a, dict):
        return set(a) == set(b) and all(same_type(a[k], b[k]) for k in a)
    return True


def same_value(a, b):
    """Python equality made deep and NaN-aware; types are judged separately by same_type."""
    if isinstance(a, float) and isinstance(b, float) and math.isnan(a) and math.isnan(b):
        return True
    if isinstance(a, list) and isinstance(b, list):
        return len(a) == len(b) and all(same_value(x, y) for x, y in zip(a, b))
    if isinstance(a, dict) and isinstance(b, dict):
        return set(a) == set(b) and all(same_value(a[k], b[k]) for k in a)
    if isinstance(a, (list, dict)) or isinstance(b, (list, dict)):
        return False
    try:
        return bool(a == b)
    except Exception:  # pylint: disable=broad-except
        return False


# =====================================================================================================
# Half A: reassembly
# =====================================================================================================
def M(cmd, kw=None, pay=None):
    return {'cmd': cmd, 'kw': kw or {}, 'pay': pay}


# concrete messages (index = table id).  0..8 are the short ones used for exhaustive chunking.
TABLE = [
    M('a'),                                   # 0  "a\n"
    M('b'),                                   # 1
    M('c'),                                   # 2
    M('a', pay=b''),                          # 3  "a&bytes=0\n"
    M('b', pay=b'\n'),                        # 4  "b&bytes=1\n\n"          payload is a line terminator
    M('a', pay=b'b\n'),                       # 5  "a&bytes=2\nb\n"         payload looks like a message
    M('a', pay=b'\n\n'),                      # 6
    M('a', {'b': '1'}),                       # 7  "a?b=1\n"
    M('c', {'d': '%'}),                       # 8  "c?d=%25\n"
    M('c19_trigger', {'name': 'ball_started', 'player': 1, 'ball': 3}),                          # 9
    M('c19_set', {'name': 'é\U0001F600 a&b=c?#+', 'value': -2.5, 'flag': True, 'none': None}),  # 10
    M('c19_nested', {'items': [1, 'x\ny', {'k': [None, 1e16]}], 'label': 'a b'}),                # 11 JSON path
    M('c19_frame', {'name': 'dmd'}, pay=bytes(range(256)) + b'\n&bytes=5\nabc\nc19_set?x=1\n'),  # 12 long payload
    M('c19_frame', {'name': 'x'}, pay=b'c19_trigger?name=fake\n'),                               # 13
    M('c19_frame', {}, pay=b'0123456789'),                                                       # 14 two-digit length
    M('c19_trigger', {'name': '%41', 'v': 'int:5', 'w': 'a\nb'}),                                # 15
    M('c19_set', {'value': 1e16, 'n': -2147483649, 'z': ''}),                                    # 16
    M('c19_frame', {'name': '&bytes'}, pay=b'&bytes=1\n'),                                       # 17
    M('c19_nested', {'items': ['&bytes=3']}),                                                    # 18 JSON path, marker
    # 19.. : lines WITHOUT an announcement that end like one (Bcp!Lookalike): parameter names equal to / ending in
    # "bytes" with all-digit string values, as only, last, first and middle parameter, with and without a real payload
    M('a', {'bytes': '1'}),                                                                      # 19 "a?bytes=1\n"
    M('a', {'xbytes': '2'}),                                                                     # 20 "a?xbytes=2\n"
    M('c19_set', {'name': 'intro_video', 'total_bytes': '20'}),                                  # 21 last
    M('c19_set', {'total_bytes': '20', 'name': 'x'}),                                            # 22 not last
    M('c19_set', {'bytes': '7'}),                                                                # 23 only parameter
    M('c19_set', {'bytes': '12', 'name': 'x'}),                                                  # 24 first of two
    M('c19_set', {'rawbytes': '0'}),                                                             # 25 length zero
    M('c19_frame', {'free_bytes': '3'}, pay=b'abc'),                                             # 26 + real payload
    M('c19_trigger', {'name': 'x', 'total_bytes': 20}),                                          # 27 typed int
    M('c19_nested', {'items': [1], 'total_bytes': '20'}),                                        # 28 JSON path
    M('c19_trigger', {'v': 'bytes=5', 'w': '5'}),                                                # 29 value looks like it
    M('c19_frame', {'bytes': '2'}, pay=b'\n\n'),                                                 # 30 "..?bytes=2&bytes=2"
    M('c19_set', {'a': '1', 'kbytes': '3', 'n': 4, 'free_bytes': '300'}),                        # 31 middle and last
    M('c19_set', {'name': 'x', 'bytes': '7'}),                                                   # 32 line CONTAINS the marker
]
JSON_MARKER_MSG = 18
PARAM_MARKER_MSG = 32          # a non-first parameter literally named "bytes": the query path writes "&bytes="
MARKER_MSGS = (JSON_MARKER_MSG, PARAM_MARKER_MSG)
LOOKALIKE_TAIL = re.compile(rb'bytes=\d+$')
CMDS = sorted({m['cmd'] for m in TABLE})
# streams of at most 14 bytes: every chunking
EXHAUSTIVE = [[5, 2], [0, 4], [4, 0], [7, 8], [3, 1, 2], [6, 1], [0, 1, 2, 0, 1, 2, 0], [8, 7]]
LONG = [[9, 12, 10], [13, 11, 14, 0, 4], [15, 3, 16, 17, 9], [10, 10, 5, 2, 11], [14, 12, 13, 1]]
# the same with lookalike lines in front of / between / behind other traffic on the same connection
EXHAUSTIVE_LOOK = [[19, 1], [1, 19], [20, 2]]
LONG_LOOK = [[21, 9, 13, 23, 26, 10], [22, 25, 14, 24, 0, 31, 4, 27], [28, 29, 21, 30, 20, 19, 1], [31, 12, 23, 23, 5, 2]]


class _W:
    """Stands in for the StreamWriter: collects what the real sender writes."""

    transport = None

    def __init__(self):
        self.b = b''

    def write(self, d):
        self.b += d

    def close(self):
        pass


class Table:
    """Side table: wire bytes produced by the real sender, identity by the real whole-message decode."""

    def __init__(self):
        m = _codec()
        self.line, self.wire, self.ident, self.cid = [], [], [], []
        ids = {}
        for e in TABLE:
            w = _W()
            m.AsyncioBcpClientSocket(w, None).send(e['cmd'], e['kw'])
            line = w.b[:-1]
            self.line.append(line)
            if e['pay'] is None:
                self.wire.append(line + b'\n')
            else:
                self.wire.append(line + BYTE_MARKER + str(len(e['pay'])).encode() + b'\n' + e['pay'])
            try:   # ghost whole-message decoder: the real code given the complete line and payload at once
                ident = canon(list(m.AsyncioBcpClientSocket._process_command(line, e['pay'])))
            except Exception:  # pylint: disable=broad-except
                ident = ('undecodable', len(self.ident))
            self.ident.append(ident)
            self.cid.append(ids.setdefault(ident, len(ids) + 1))
        self.ids = ids

    def match(self, msg):
        """Content id of the sent message a received (cmd, kwargs) equals, 0 if none."""
        try:
            return self.ids.get(canon([msg[0], msg[1]]), 0)
        except Exception:  # pylint: disable=broad-except
            return 0


_T = {}
_H = {}


def table():
    if 't' not in _T:
        _T['t'] = Table()
    return _T['t']


class AioReceiver:
    """AsyncioBcpClientSocket.read_message on an event loop owned by the driver."""

    def __init__(self):
        m = _codec()
        self.loop = asyncio.new_event_loop()
        self.reader = asyncio.StreamReader(loop=self.loop)
        self.sock = m.AsyncioBcpClientSocket(_W(), self.reader)
        self.got = []
        self.error = None
        self.task = self.loop.create_task(self._consume())

    async def _consume(self):
        try:
            while True:
                self.got.append(await self.sock.read_message())
        except asyncio.CancelledError:
            raise
        except Exception as ex:  # pylint: disable=broad-except
            self.error = '%s: %s' % (type(ex).__name__, str(ex)[:120])

    @staticmethod
    async def _idle():
        for _ in range(8):
            await asyncio.sleep(0)

    def feed(self, chunk):
        self.reader.feed_data(chunk)

    def pump(self):
        n0 = len(self.got)
        while True:
            n = len(self.got)
            self.loop.run_until_complete(self._idle())
            if len(self.got) == n:
                break
        return self.got[n0:]

    def close(self):
        self.task.cancel()
        try:
            self.loop.run_until_complete(self.task)
        except BaseException:  # pylint: disable=broad-except
            pass
        self.loop.close()


def _machine():
    if _H.get('dirty'):
        harness.shutdown(_H.pop('h'))
        _H.pop('dirty')
    if 'h' not in _H:
        h = harness.boot('base', patches={'bcp': {'connections': {}, 'servers': []}})
        if not h.machine.bcp.interface.configured:
            raise RuntimeError('BCP interface not configured')
        _H['h'] = h
        _H['sink'] = []
        for c in CMDS:
            h.machine.bcp.interface.register_command_callback(c, _mk_cb(c))
    return _H['h']


def _mk_cb(cmd):
    async def cb(client, **kwargs):
        del client
        _H['sink'].append((cmd, kwargs))
    return cb


class MpfReceiver:
    """BCPClientSocket on a booted machine: 'mpf' = read_message consumed directly,
    'machine' = registered with the real BcpTransportManager, dispatched by the real BcpInterface."""

    def __init__(self, kind):
        m = _codec()
        self.kind = kind
        self.h = _machine()
        mc = self.h.machine
        self.reader = asyncio.StreamReader(loop=mc.clock.loop)
        self.client = m.BCPClientSocket(mc, 'c19', mc.bcp)
        self.client.accept_connection(self.reader, _W())
        self.error = None
        if kind == 'machine':
            self.got = _H['sink']
            del self.got[:]
            mc.bcp.transport.register_transport(self.client)
            self.task = None
        else:
            self.got = []
            self.task = mc.clock.loop.create_task(self._consume())

    async def _consume(self):
        try:
            while True:
                self.got.append(await self.client.read_message())
        except asyncio.CancelledError:
            raise
        except Exception as ex:  # pylint: disable=broad-except
            self.error = '%s: %s' % (type(ex).__name__, str(ex)[:120])

    def feed(self, chunk):
        self.reader.feed_data(chunk)

    def pump(self):
        n0 = len(self.got)
        try:
            while True:
                n = len(self.got)
                self.h.advance_time_and_run(0)
                self.h.advance_time_and_run(0)
                if len(self.got) == n:
                    break
        except BaseException as ex:  # pylint: disable=broad-except
            self.error = '%s: %s' % (type(ex).__name__, str(ex)[:120])
            _H['dirty'] = True
        if self.kind == 'machine' and self.error is None:
            task = self.h.machine.bcp.transport._readers.get(self.client)      # pylint: disable=protected-access
            if task is None or task.done():
                self.error = 'receive loop of the transport ended'
                _H['dirty'] = True
        return list(self.got[n0:])

    def close(self):
        try:
            if self.kind == 'machine':
                self.h.machine.bcp.transport.unregister_transport(self.client)
            else:
                self.task.cancel()
            self.h.advance_time_and_run(0)
        except BaseException:  # pylint: disable=broad-except
            _H['dirty'] = True


def exec_reasm(job):
    try:
        return _exec_reasm(job)
    except Exception as ex:  # pylint: disable=broad-except
        _H['dirty'] = True
        return {'cfg': {'rcv': job['rcv']}, 'ev': [{'op': 'crash', 'what': repr(ex)[:300]}], '_job': job,
                '_tb': traceback.format_exc()[-1500:]}


def _exec_reasm(job):
    t = table()
    rcv = AioReceiver() if job['rcv'] == 'asyncio' else MpfReceiver(job['rcv'])
    ev = []
    pending = b''
    pos = 0

    def deliver(k):
        nonlocal pending, pos
        chunk, pending = pending[:k], pending[k:]
        if not chunk:
            return True
        pos += len(chunk)
        rcv.feed(chunk)
        got = rcv.pump()
        ev.append({'op': 'deliver', 'k': len(chunk), 'pos': pos, 'rx': [t.match(g) for g in got]})
        if rcv.error:
            ev.append({'op': 'crash', 'what': rcv.error})
            return False
        return True

    try:
        ok = True
        for st in job['sched']:
            if st[0] == 's':
                i = st[1]
                e = TABLE[i]
                ev.append({'op': 'send', 'm': t.cid[i], 'line': list(t.line[i]), 'hp': e['pay'] is not None,
                           'pay': list(e['pay'] or b''), '_tab': i})
                pending += t.wire[i]
            else:
                ok = deliver(st[1])
                if not ok:
                    break
        if ok and pending:
            ok = deliver(len(pending))
        if ok:
            got = rcv.pump()
            ev.append({'op': 'end', 'rx': [t.match(g) for g in got]})
    finally:
        rcv.close()
    return {'cfg': {'rcv': job['rcv']}, 'ev': [{k: v for k, v in e.items() if not k.startswith('_')} for e in ev],
            '_job': job, '_tabs': [e['_tab'] for e in ev if e['op'] == 'send']}


def chunk_sched(msgs, cuts, total):
    """All sends first, then deliveries that end at the given stream positions."""
    s = [('s', i) for i in msgs]
    p = 0
    for c in list(cuts) + [total]:
        if c > p:
            s.append(('d', c - p))
            p = c
    return s


def all_chunkings(msgs, n):
    for mask in range(1 << (n - 1)):
        yield chunk_sched(msgs, [i + 1 for i in range(n - 1) if (mask >> i) & 1], n)


def sampled_chunkings(msgs, n, bounds, rng, nrand):
    yield chunk_sched(msgs, [], n)                    # one read
    yield chunk_sched(msgs, range(1, n), n)           # single bytes
    for c in range(1, n):                             # every two-way split
        yield chunk_sched(msgs, [c], n)
    near = sorted({b + d for b in bounds for d in (-2, -1, 0, 1, 2) if 0 < b + d < n})
    yield chunk_sched(msgs, near, n)                  # cuts around every framing boundary
    for _ in range(nrand):
        dens = rng.choice((0.02, 0.1, 0.3, 0.6))
        yield chunk_sched(msgs, [c for c in range(1, n) if rng.random() < dens], n)
    for _ in range(nrand // 2):                       # fine near the boundaries, coarse elsewhere
        yield chunk_sched(msgs, sorted(set(rng.sample(near, min(len(near), rng.randint(1, 6)))) |
                                       {c for c in range(1, n) if rng.random() < 0.03}), n)


def framing_bounds(msgs):
    """Stream positions just after each line terminator and each payload."""
    t = table()
    out, p = [], 0
    for i in msgs:
        hdr = len(t.wire[i]) - len(TABLE[i]['pay'] or b'')
        out.append(p + len(t.line[i]))
        out.append(p + hdr)
        p += len(t.wire[i])
        out.append(p)
    return out


def reasm_mc_module(quick):
    """Small abstract wire messages over bytes {a & = NL 1} with the two-byte marker '&='."""
    a, amp, eq, nl = 97, 38, 61, 10
    if quick:
        bodies = [[a], [amp], [amp, a], [a, amp, a], [eq, amp]]
        pays = [None, [], [nl], [a], [nl, nl], [amp, eq], [a, nl], [amp, eq, 49]]
    else:
        bodies = [[a], [amp], [a, a], [amp, a], [a, amp], [eq, amp], [a, amp, a], [eq, amp, a]]
        pays = [None, [], [nl], [a], [nl, nl], [amp, eq], [a, nl], [nl, a], [amp, eq, 49], [amp, eq, 48, nl]]
    msgs = []
    for b in bodies:
        for p in pays:
            msgs.append({'id': len(msgs) + 1, 'line': b, 'hasPay': p is not None, 'pay': p or []})
    three = [m for m in msgs if len(m['line']) <= 2 and len(m['pay']) <= 2][:10 if quick else 18]
    # lines that end like an announcement without being one ("=1" is the marker "&=" without its left boundary):
    # alone, behind a command, with length 0, not at the end of the line; each with and without a real payload
    if quick:
        lbodies = [[eq, 49], [a, eq, 49], [a, eq, 48], [eq, 49, a], [a]]
        lpays = [None, [a], [nl]]
    else:
        lbodies = [[eq, 49], [a, eq, 49], [a, eq, 48], [eq, 49, a], [a], [amp, a, eq, 49], [eq, 49, 49], [eq, a, eq, 49]]
        lpays = [None, [], [a], [nl], [eq, 49]]
    look = []
    for b in lbodies:
        for p in lpays:
            look.append({'id': len(look) + 1, 'line': b, 'hasPay': p is not None, 'pay': p or []})
    look3 = [m for m in look if len(m['line']) <= 3 and m['pay'] in ([], [a], [nl]) and not (m['hasPay'] and not m['pay'])][:12]
    t = table()
    real = [{'id': i + 1, 'line': list(t.line[i]), 'hasPay': TABLE[i]['pay'] is not None, 'pay': list(TABLE[i]['pay'] or b'')}
            for i in range(len(TABLE)) if len(t.wire[i]) <= (24 if quick else 40) and i not in MARKER_MSGS]
    gen = [{'id': i + 1, 'line': list(t.line[i]), 'hasPay': TABLE[i]['pay'] is not None, 'pay': list(TABLE[i]['pay'] or b'')}
           for i in range(len(TABLE)) if len(t.wire[i]) <= 90 and i not in MARKER_MSGS]
    txt = """----------------------------- MODULE BcpMC -----------------------------
EXTENDS Bcp
MCMarker == <<38, 61>>
RealMarker == %s
MCMsgs2 == {%s}
MCMsgs3 == {%s}
MCMsgsL == {%s}
MCMsgsL3 == {%s}
RealMsgs == {%s}
GenMsgs == {%s}
NoDev == {}
DevModeLost == {"ModeLostAcrossReads"}
DevNoLeft == {"MarkerWithoutLeftBoundary"}
=============================================================================
""" % (to_tla(REAL_MARKER), ',\n  '.join(to_tla(m) for m in msgs), ',\n  '.join(to_tla(m) for m in three),
       ',\n  '.join(to_tla(m) for m in look), ',\n  '.join(to_tla(m) for m in look3), ',\n  '.join(to_tla(m) for m in real), ',\n  '.join(to_tla(m) for m in gen))
    return txt, len(msgs), len(three), len(real), len(look), len(look3)


REASM_CFG = """SPECIFICATION Spec
CONSTANTS
  Msgs <- %s
  Marker <- %s
  NL = 10
  MaxMsgs = %d
  Deviations <- %s
%sCHECK_DEADLOCK FALSE
"""
REASM_PROPS = ('INVARIANT TypeOK\nINVARIANT InOrderPrefix\nINVARIANT ChunkingIndependent\nINVARIANT CompleteWhenDelivered\n'
               'INVARIANT DispatchedAsSoonAsComplete\nPROPERTY DispatchAppendOnly\n')
REASM_TRACE_CFG = """SPECIFICATION TSpec
CONSTANTS
  Msgs <- TMsgs
  Marker <- TMarker
  NL = 10
  MaxMsgs = 1000000
  Deviations <- TDeviations
INVARIANT Reporter
INVARIANT InOrderPrefix
INVARIANT ChunkingIndependent
INVARIANT CompleteWhenDelivered
CHECK_DEADLOCK FALSE
"""


def reasm_signature(tr, info):
    fe = info.get('failing_event') or {}
    op = fe.get('op', '?')
    haspay = any(e.get('hp') for e in tr['ev'] if e.get('op') == 'send')
    tail = 'payload' if haspay else 'plain'
    upto = tr['ev'][:info['line']] if info.get('line') else tr['ev']
    if any(e.get('op') == 'send' and BYTE_MARKER not in bytes(e['line']) and LOOKALIKE_TAIL.search(bytes(e['line'])) for e in upto):
        tail += '+marker-lookalike-line'      # naming only: a line of the class Bcp!Lookalike was sent before the failure
    if info.get('reason') == 'monitor':
        return 'C19:reasm:monitor:%s:%s' % (info.get('monitor'), tail)
    if op == 'send':
        line = bytes(fe.get('line', []))
        if BYTE_MARKER in line:
            path = 'json' if b'?json=' in line else 'query'
            return 'C19:reasm:sender-line-contains-byte-marker:%s' % path
        if b'\n' in line:
            return 'C19:reasm:sender-line-contains-newline'
        return 'C19:reasm:send'
    if op == 'crash':
        return 'C19:reasm:crash:%s:%s' % (str(fe.get('what', '?')).split(':')[0], tail)
    if op in ('deliver', 'end'):
        sent = [e['m'] for e in tr['ev'] if e.get('op') == 'send']
        rx = []
        for e in tr['ev'][:info['line']]:
            rx += e.get('rx', [])
        if 0 in rx:
            why = 'unknown-message'
        elif rx != sent[:len(rx)]:
            why = 'order-or-duplicate'
        elif op == 'end':
            why = 'incomplete'
        else:
            why = 'premature'
        return 'C19:reasm:%s:%s:%s' % (op, why, tail)
    return 'C19:reasm:%s:%s' % (op, tail)


def run_reassembly(ctx, wd):
    t = table()
    # ---- design check: every chunking of every sequence of small abstract messages --------------------
    txt, n2, n3, nreal, nlook, nlook3 = reasm_mc_module(ctx.quick)
    with open(wd + '/BcpMC.tla', 'w') as f:
        f.write(txt)
    runs = [('Bcp 2 msgs', 'MCMsgs2', 'MCMarker', 2, 'NoDev', n2), ('Bcp 3 msgs', 'MCMsgs3', 'MCMarker', 3, 'NoDev', n3),
            ('Bcp real-bytes msgs', 'RealMsgs', 'RealMarker', 2, 'NoDev', nreal),
            ('Bcp lookalike msgs', 'MCMsgsL', 'MCMarker', 2, 'NoDev', nlook)]
    if not ctx.quick:
        runs.append(('Bcp 3 lookalike msgs', 'MCMsgsL3', 'MCMarker', 3, 'NoDev', nlook3))
    for label, ms, mk, mx, dev, n in runs:
        cfg = 'MC_%s_%d.cfg' % (ms, mx)
        with open(os.path.join(wd, cfg), 'w') as f:
            f.write(REASM_CFG % (ms, mk, mx, dev, REASM_PROPS))
        r = tlc.expect_ok(tlc.check(wd, 'BcpMC', cfg, timeout=3000), label)
        ctx.add_tlc(label, r, {'messages': n, 'MaxMsgs': mx, 'marker': mk, 'chunkings': 'all (Deliver(k), k>=1)'})
    # design sensitivity: a receiver that forgets its mode between reads must be caught by the monitors
    with open(wd + '/MC_dev.cfg', 'w') as f:
        f.write(REASM_CFG % ('MCMsgs3', 'MCMarker', 2, 'DevModeLost', REASM_PROPS))
    r = tlc.check(wd, 'BcpMC', 'MC_dev.cfg', timeout=3000)
    if not r.violated:
        raise tlc.TLCError('deviation ModeLostAcrossReads not caught by the Bcp monitors:\n' + r.out[-1500:])
    ctx.notes.append('design sensitivity: deviation ModeLostAcrossReads violates %s' % r.violated)
    # ... and so must a receiver that accepts the announcement without its left boundary, on the abstract and on the
    # real-byte message set (which also shows that both sets contain lines of the class Bcp!Lookalike)
    for ms, mk in (('MCMsgsL', 'MCMarker'), ('RealMsgs', 'RealMarker')):
        with open(wd + '/MC_dev2.cfg', 'w') as f:
            f.write(REASM_CFG % (ms, mk, 2, 'DevNoLeft', REASM_PROPS))
        r = tlc.check(wd, 'BcpMC', 'MC_dev2.cfg', timeout=3000)
        if not r.violated:
            raise tlc.TLCError('deviation MarkerWithoutLeftBoundary not caught by the Bcp monitors on %s:\n' % ms + r.out[-1500:])
        ctx.notes.append('design sensitivity: deviation MarkerWithoutLeftBoundary on %s violates %s' % (ms, r.violated))
    ctx.coverage['monitors'] += ['InOrderPrefix', 'ChunkingIndependent', 'CompleteWhenDelivered', 'DispatchedAsSoonAsComplete',
                                 'DispatchAppendOnly', 'BcpTrace: rx = sent ids in order, complete at end']
    # ---- schedules -----------------------------------------------------------------------------------
    rng = random.Random(ctx.seed * 7919 + 19)
    jobs = []
    rcvs = ('asyncio', 'mpf', 'machine')
    ex = EXHAUSTIVE[:3] if ctx.quick else EXHAUSTIVE
    nexh = 0
    for si, msgs in enumerate(ex):
        if set(MARKER_MSGS) & set(msgs):
            continue
        n = sum(len(t.wire[i]) for i in msgs)
        if n > 14:
            raise tlc.TLCError('exhaustive stream %s has %d bytes' % (msgs, n))
        which = [rcvs[si % 3]] if ctx.quick else ('asyncio', rcvs[1 + si % 2])
        for rk in which:
            for s in all_chunkings(msgs, n):
                jobs.append({'rcv': rk, 'sched': s, 'src': 'exhaustive'})
                nexh += 1
    # lookalike lines followed by further traffic: every chunking, on both client classes (and the machine path)
    exl = EXHAUSTIVE_LOOK[:1] if ctx.quick else EXHAUSTIVE_LOOK
    for msgs in exl:
        n = sum(len(t.wire[i]) for i in msgs)
        if n > 14:
            raise tlc.TLCError('exhaustive stream %s has %d bytes' % (msgs, n))
        for rk in (('asyncio', 'machine') if ctx.quick else rcvs):
            for s in all_chunkings(msgs, n):
                jobs.append({'rcv': rk, 'sched': s, 'src': 'exhaustive-lookalike'})
                nexh += 1
    nsamp = 0
    longs = (LONG[:3] + LONG_LOOK[:2]) if ctx.quick else (LONG + LONG_LOOK)
    for si, msgs in enumerate(longs):
        n = sum(len(t.wire[i]) for i in msgs)
        b = framing_bounds(msgs)
        for ci, s in enumerate(sampled_chunkings(msgs, n, b, rng, 30 if ctx.quick else 300)):
            jobs.append({'rcv': rcvs[(si + ci) % 3], 'sched': s, 'src': 'sampled'})
            nsamp += 1
    # every lookalike message of the table in front of another message and of a payload message, on every receiver
    for i in range(len(TABLE)):
        if i in MARKER_MSGS or not LOOKALIKE_TAIL.search(t.line[i]):
            continue
        for follow in ([1], [13, 9]):
            msgs = [i] + follow
            n = sum(len(t.wire[j]) for j in msgs)
            hdr = len(t.wire[i]) - len(TABLE[i]['pay'] or b'')
            for rk in rcvs:
                for cuts in ([], [hdr - 1], [hdr], [hdr + 1], list(range(1, n))):
                    jobs.append({'rcv': rk, 'sched': chunk_sched(msgs, cuts, n), 'src': 'lookalike-pairs'})
                    nsamp += 1
    # TLC-simulated interleavings of Send and Deliver over the real-byte message table
    with open(wd + '/Gen.cfg', 'w') as f:
        f.write(REASM_CFG % ('GenMsgs', 'RealMarker', 5, 'NoDev', ''))
    behs, _ = tlc.simulate(wd, 'BcpMC', 'Gen.cfg', num=150 if ctx.quick else 1500, depth=40, seed=ctx.seed)
    for bi, b in enumerate(behs):
        s = []
        for st in b:
            a = st['act']
            if a['op'] == 'send':
                s.append(('s', a['m'] - 1))
            elif a['op'] == 'deliver':
                s.append(('d', a['k']))
        jobs.append({'rcv': rcvs[bi % 3], 'sched': s, 'src': 'tlc-simulate'})
    # the message whose JSON-encoded line contains the payload announcement (statement domain: nested
    # lists of strings with separators) — a few chunkings on every receiver
    for rk in rcvs:
        n = len(t.wire[JSON_MARKER_MSG]) + len(t.wire[0])
        for cuts in ([5],) if ctx.quick else ([], [5], list(range(1, n))):
            jobs.append({'rcv': rk, 'sched': chunk_sched([JSON_MARKER_MSG, 0], cuts, n), 'src': 'json-marker'})
    # the same for a payload-less message with a non-first parameter literally named "bytes": the query path writes
    # the announcement itself ("...&bytes=7")
    for rk in rcvs:
        n = len(t.wire[PARAM_MARKER_MSG]) + len(t.wire[0])
        for cuts in ([5],) if ctx.quick else ([], [5], list(range(1, n))):
            jobs.append({'rcv': rk, 'sched': chunk_sched([PARAM_MARKER_MSG, 0], cuts, n), 'src': 'param-marker'})
    ctx.log('reassembly: %d executions (%d exhaustive chunkings, %d sampled, %d simulated)' % (len(jobs), nexh, nsamp, len(behs)))
    traces = harness.pmap(exec_reasm, jobs, chunk=64)
    with open(wd + '/Trace.cfg', 'w') as f:
        f.write(REASM_TRACE_CFG)
    v = tlc.validate_traces(wd, 'BcpTrace', 'Trace.cfg', traces, workers=8, batch=6000)
    ctx.add_trace_verdict('BcpTrace', v, len(traces))
    # rejections the batch run had no budget to locate: locate them (bounded) so that no failure class stays unnamed
    groups = {}                       # spread the budget over receivers and schedule sources
    for i, info in sorted(v.rejected.items()):
        if info.get('line') is None:
            groups.setdefault((traces[i]['cfg']['rcv'], traces[i]['_job'].get('src')), []).append(i)
    undi = []
    while groups and len(undi) < 24:
        for g in sorted(groups):
            undi.append(groups[g].pop(0))
            if not groups[g]:
                del groups[g]
    undi = sorted(undi[:24])
    for b0 in range(0, len(undi), 8):
        ids = undi[b0:b0 + 8]
        v2 = tlc.validate_traces(wd, 'BcpTrace', 'Trace.cfg', [traces[i] for i in ids], workers=2, batch=8)
        for k, i in enumerate(ids):
            if k in v2.rejected:
                v.rejected[i] = v2.rejected[k]
    ctx.coverage['bounds']['reassembly executions'] = {
        'exhaustive_chunkings': nexh, 'exhaustive_streams': [[len(t.wire[i]) for i in m] for m in ex],
        'exhaustive_lookalike_streams': [[t.wire[i].decode() for i in m] for m in exl],
        'lookalike_lines_executed': sorted({bytes(e['line']).decode() for tr in traces for e in tr['ev'] if e.get('op') == 'send' and
                                            BYTE_MARKER not in bytes(e['line']) and LOOKALIKE_TAIL.search(bytes(e['line']))}),
        'sampled_chunkings': nsamp, 'tlc_simulated': len(behs), 'receivers': list(rcvs)}
    ctx.sample({'kind': 'reassembly-trace', 'cfg': traces[0]['cfg'], 'trace': traces[0]['ev'][:6]})
    located = [(i, info) for i, info in sorted(v.rejected.items()) if info.get('line') is not None]
    by_sig = {}
    for i, info in located:
        by_sig.setdefault(reasm_signature(traces[i], info), set()).add(traces[i]['cfg']['rcv'])
    for i, info in located:
        tr = traces[i]
        fe = info.get('failing_event') or {}
        after = [e for e in tr['ev'] if e.get('op') == 'crash']
        sig = reasm_signature(tr, info)
        ctx.violation(sig,
                      'seen on receivers %s; ' % sorted(by_sig[sig]) + 'receiver %s: execution not explained by Bcp reassembly spec at line %s: %s; messages %s; %s' % (
                          tr['cfg']['rcv'], info.get('line'), _short(fe),
                          [(TABLE[j]['cmd'], TABLE[j]['kw'], None if TABLE[j]['pay'] is None else len(TABLE[j]['pay']))
                           for j in tr.get('_tabs', [])][:4],
                          ('real receiver then: %s' % after[0]['what']) if after else
                          ('the line written by the real sender contains the payload announcement %r, the receivers wait for '
                           'that many payload bytes: real receiver dispatched %s of %d messages' % (
                               BYTE_MARKER, [x for e in tr['ev'] for x in e.get('rx', [])], len(tr.get('_tabs', []))))
                          if fe.get('op') == 'send' and BYTE_MARKER in bytes(fe.get('line', [])) else ''),
                      {'half': 'reasm', 'job': tr['_job'], 'trace': tr['ev'][:60], 'info': info})


def _short(e):
    e = dict(e)
    for k in ('line', 'pay'):
        if k in e:
            e[k] = bytes(e[k])[:80]
    return e


# =====================================================================================================
# Half B: codec
# =====================================================================================================
TOK = {
    'PCT': ['%'], 'D2': ['2'], 'D5': ['5'], 'HL': list('abcdefABCDEF'), 'LET': list('gzQxkT'),
    'HEX': ['%41', '%2F', '%c3%a9', '%25', '%0A', '%00'],
    'COLON': [':'], 'AMP': ['&'], 'EQ': ['='], 'QM': ['?'], 'HASH': ['#'], 'SP': [' '], 'PLUS': ['+'], 'NL': ['\n'],
    'CTL': ['\t', '\r', '\x0b', '\x1f'], 'QUOTE': ['"', '\\', "'"],
    'NONASCII': ['\u00e9', '\u00df', '\u044f', '\u4e2d', '\u00a0', '\u2028'], 'ASTRAL': ['\U0001F600', '\U0001D11E', '\U0010FFFF'],
    'PINT': ['int:5', 'int:-12', 'int:0'], 'PINTBAD': ['int:x', 'float:abc', 'int:'],
    'PBOOL': ['bool:true', 'bool:false', 'Bool:True'], 'PFLOAT': ['float:1e+16', 'float:-2.5'], 'PNONE': ['NoneType:'],
    'JSONEQ': ['json='], 'MARKER': ['&bytes='],
}
SCALAR = {
    ('int', 'neg'): [-3, -17, -2147483649], ('int', 'zero'): [0], ('int', 'pos'): [5, 42, 2147483647],
    ('int', 'large'): [2 ** 31, 2 ** 53 + 1, 2 ** 63], ('int', 'huge'): [10 ** 20, -10 ** 30],
    ('float', 'small'): [1e-07, 2.5e-10], ('float', 'exp'): [1e+16, 1e+22, 6.02e+23], ('float', 'neg'): [-2.5, -1e+16],
    ('float', 'frac'): [0.1 + 0.2, 3.141592653589793, 1.5], ('float', 'zero'): [0.0], ('float', 'negzero'): [-0.0],
    ('float', 'inf'): [float('inf'), float('-inf')], ('float', 'nan'): [float('nan')],
    ('float', 'max'): [1.7976931348623157e+308], ('float', 'denorm'): [5e-324],
    ('bool', 'true'): [True], ('bool', 'false'): [False], ('none', ''): [None],
}
NESTS = ['list_empty', 'dict_empty', 'list_scalars', 'dict_scalars', 'list_list', 'list_dict', 'dict_list', 'dict_dict']
STRNESTS = ['list_str', 'dict_str', 'dict_strkey']
# (identifiers with upper-case letters too: names must come back exactly as sent)
CMDKINDS = {'plain': ['trigger', 'switch', 'x'], 'ident': ['ball_started', 'mode2_stop', 'player_turn_start', 'a_1_b', 'showStatus']}
KEYS = [['name', 'k1', 'player_num', 'slideName'], ['value', 'k2', 'state', 'Value'], ['x', 'k3', 'prev_value', 'X']]


def _nest(sub, s, rng):
    sc = [1, -2.5, True, None, 'x', 1e16, 0, False, 10 ** 20, '']
    rng.shuffle(sc)
    if sub == 'list_empty':
        return []
    if sub == 'dict_empty':
        return {}
    if sub == 'list_scalars':
        return sc[:5]
    if sub == 'dict_scalars':
        return {'k%d' % i: x for i, x in enumerate(sc[:5])}
    if sub == 'list_list':
        return [[1, 'a'], [], [None, 2.5]]
    if sub == 'list_dict':
        return [{'a': 1, 'b': None}, {}, {'c': 'x'}]
    if sub == 'dict_list':
        return {'a': [1, True], 'b': [], 'c': ['x', None]}
    if sub == 'dict_dict':
        return {'a': {'b': 1.5}, 'c': {}, 'd': {'e': None, 'f': False}}
    if sub == 'list_str':
        return [s, 7]
    if sub == 'dict_str':
        return {'k': s}
    if sub == 'dict_strkey':
        return {s: 1}
    raise ValueError(sub)


def shape_key(shape):
    return repr((shape['cmd'], [(p['key'], p['kind'], p['sub'], tuple(p['toks'])) for p in shape['params']]))


def instantiate(shape, seed, with_pieces=False, pin=None):
    rng = random.Random(zlib.crc32(('%d|%s' % (seed, shape_key(shape))).encode()))
    cmd = rng.choice(CMDKINDS[shape['cmd']])
    kw = {}
    pieces = []
    for i, p in enumerate(shape['params']):
        key = 'json' if p['key'] == 'json' else rng.choice(KEYS[i % len(KEYS)]) + ('' if i < len(KEYS) else str(i))
        pieces.append([rng.choice(TOK[t]) for t in p['toks']])
        if pin and i < len(pin) and pin[i] is not None:
            pieces[-1] = list(pin[i])          # suspicion cases of DESIGN section 5: fixed concrete text
        s = ''.join(pieces[-1])
        if p['kind'] == 'str':
            v = s
        elif p['kind'] == 'nest':
            v = _nest(p['sub'], s, rng)
        else:
            v = rng.choice(SCALAR[(p['kind'], p['sub'])])
        kw[key] = v
    if with_pieces:
        return cmd, kw, pieces
    return cmd, kw


def roundtrip(cmd, kw):
    """Run the real codec; every flag compares two real values."""
    m = _codec()
    names = list(kw)
    bad = {'raised': True, 'oneline': False, 'cmd': False, 'keys': False,
           'params': [{'val': False, 'typ': False} for _ in names]}
    try:
        enc = m.encode_command_string(cmd, **kw)
    except Exception as ex:  # pylint: disable=broad-except
        return dict(bad, _enc=None, _err='encode: %r' % ex)
    oneline = isinstance(enc, str) and '\n' not in enc
    try:
        dcmd, dkw = m.decode_command_string(enc)
    except Exception as ex:  # pylint: disable=broad-except
        return dict(bad, oneline=oneline, _enc=enc, _err='decode: %r' % ex)
    if not isinstance(dkw, dict):
        return {'raised': False, 'oneline': oneline, 'cmd': dcmd == cmd, 'keys': False,
                'params': [{'val': False, 'typ': False} for _ in names], '_enc': enc, '_dec': repr(dkw)}
    return {'raised': False, 'oneline': oneline, 'cmd': dcmd == cmd, 'keys': sorted(dkw) == sorted(names),
            'params': [{'val': k in dkw and same_value(kw[k], dkw[k]), 'typ': k in dkw and same_type(kw[k], dkw[k])}
                       for k in names],
            '_enc': enc, '_dec': repr(dkw)}


def codec_case(job):
    shape, seed, pin = job
    cmd, kw = instantiate(shape, seed, pin=pin)
    res = roundtrip(cmd, kw)
    ev = []
    for p in shape['params']:
        ev.append({'op': 'param', 'key': p['key'], 'kind': p['kind'], 'sub': p['sub']})
        ev += [{'op': 'tok', 't': t} for t in p['toks']]
    ev.append(dict({'op': 'check'}, **{k: v for k, v in res.items() if not k.startswith('_')}))
    return {'cfg': {'cmd': shape['cmd']}, 'ev': ev, '_shape': shape, '_seed': seed, '_pin': pin, '_orig': repr((cmd, kw)),
            '_enc': res.get('_enc'), '_dec': res.get('_dec'), '_err': res.get('_err')}


_PREFIX = re.compile(r'^(int:|float:)')
_PCTESC = re.compile(r'%[0-9a-fA-F]{2}')


def _is_prefix_lookalike(s):
    return bool(_PREFIX.match(s)) or s.lower() in ('bool:true', 'bool:false') or s == 'NoneType:'


def _roundtrips(cmd, kw):
    res = roundtrip(cmd, kw)
    return (not res['raised']) and res['oneline'] and res['cmd'] and res['keys'] and all(x['val'] and x['typ'] for x in res['params'])


def param_class(p, key, value, pieces=()):
    """Failure class of ONE parameter run alone through the real codec; None if it round-trips."""
    res = roundtrip('x', {key: value})
    pr = res['params'][0]
    if not res['raised'] and res['oneline'] and res['cmd'] and res['keys'] and pr['val'] and pr['typ']:
        return None
    how = 'raises' if res['raised'] else ('value' if not pr['val'] and pr['typ'] else 'type' if pr['val'] else 'value+type')
    if not res['oneline']:
        how = 'not-one-line'
    if p['kind'] == 'str':
        if key == 'json':
            return 'param-named-json'
        if _is_prefix_lookalike(value):
            return 'str-type-prefix-lookalike' + ('-raises' if res['raised'] else '')
        if _PCTESC.search(value) and not res['raised'] and res['oneline']:
            return 'str-percent-escape-lookalike'
        # an unforeseen class: name it after the tokens that already fail on their own, else after the token set
        alone = sorted({t for t, txt in zip(p['toks'], pieces)
                        if not (_is_prefix_lookalike(txt) or _PCTESC.search(txt)) and not _roundtrips('x', {'k': txt})})
        return 'str:%s:%s' % ('-'.join(alone or sorted(set(p['toks']))) or 'empty', how)
    if key == 'json':
        return 'param-named-json'
    return '%s-%s:%s' % (p['kind'], p['sub'] or 'x', how)


def codec_signatures(tr):
    """Name the failure class(es) of a rejected case by isolating each parameter (naming only; the verdict was TLC's)."""
    shape = tr['_shape']
    cmd, kw, pieces = instantiate(shape, tr['_seed'], with_pieces=True, pin=tr['_pin'])
    classes = []
    for p, (k, v), pc in zip(shape['params'], kw.items(), pieces):
        c = param_class(p, k, v, pc)
        if c:
            classes.append((c, k, v))
    if classes:
        return [('C19:codec:' + c, k, v) for c, k, v in classes]
    chk = tr['ev'][-1]
    what = 'raises' if chk['raised'] else 'not-one-line' if not chk['oneline'] else 'command' if not chk['cmd'] else \
        'keys' if not chk['keys'] else 'params'
    return [('C19:codec:combination:%s:%s' % (what, '+'.join('%s-%s' % (p['kind'], p['sub'] or 'x') for p in shape['params']) or
                                              'no-params:' + shape['cmd']), None, None)]


CODEC_CFG = """SPECIFICATION Spec
CONSTANTS
  CmdKinds = {%s}
  Toks = {%s}
  Scalars <- MCScalars
  Nests = {%s}
  StrNests = {%s}
  JsonKey = %s
  MaxParams = %d
  MaxToks = %d
  MaxNToks = %d
  MaxSum = %d
%sCHECK_DEADLOCK FALSE
"""
CODEC_PROPS = 'INVARIANT ShapeOK\nINVARIANT ContractIsTotal\nPROPERTY ShapeFrozenAfterCheck\n'
CODEC_TRACE_CFG = """SPECIFICATION TSpec
CONSTANTS
  CmdKinds = {%s}
  Toks = {%s}
  Scalars <- MCScalars
  Nests = {%s}
  StrNests = {%s}
  JsonKey = TRUE
  MaxParams = 1000
  MaxToks = 1000
  MaxNToks = 1000
  MaxSum = 1000
INVARIANT Reporter
INVARIANT ShapeOK
INVARIANT ContractIsTotal
CHECK_DEADLOCK FALSE
"""


def _q(xs):
    return ', '.join('"%s"' % x for x in xs)


def codec_cfg(cmdkinds, maxp, maxt, maxn, maxs, props, jsonkey=True):
    return CODEC_CFG % (_q(cmdkinds), _q(sorted(TOK)), _q(NESTS), _q(STRNESTS), 'TRUE' if jsonkey else 'FALSE',
                        maxp, maxt, maxn, maxs, props)


_STATE = re.compile(r'^State \d+:\n((?:/\\.*\n(?:(?!/\\|State ).+\n)*)+)', re.M)


def dumped_shapes(path):
    """Message shapes = the 'build' states of the dumped state graph."""
    out = []
    for m in _STATE.finditer(open(path).read() + '\n'):
        st = parse_state(m.group(1))
        if st['phase'] == 'build':
            out.append({'cmd': st['cmd'], 'params': [dict(p, toks=list(p['toks'])) for p in st['params']]})
    return out


def run_codec(ctx, wd):
    with open(wd + '/BcpCodecMC.tla', 'w') as f:
        f.write("""--------------------------- MODULE BcpCodecMC ---------------------------
EXTENDS BcpCodec
MCScalars == {%s}
=============================================================================
""" % ', '.join(to_tla({'kind': k, 'sub': s}) for (k, s) in sorted(SCALAR)))
    with open(wd + '/BcpCodecTraceMC.tla', 'w') as f:
        f.write('''------------------------- MODULE BcpCodecTraceMC -------------------------
EXTENDS BcpCodecTrace
MCScalars == {%s}
=============================================================================
''' % ', '.join(to_tla({'kind': k, 'sub': s}) for (k, s) in sorted(SCALAR)))
    shapes = {}
    # exhaustive enumerations: the state graph is the case list
    if ctx.quick:
        enums = [('single parameter, strings <= 2 tokens', ['plain', 'ident'], 1, 2, 1, 2)]
    else:
        enums = [('single parameter, strings <= 3 tokens', ['plain', 'ident'], 1, 3, 2, 3),
                 ('two parameters, strings <= 1 token', ['plain'], 2, 1, 1, 2)]
    for label, ck, maxp, maxt, maxn, maxs in enums:
        cfg = 'CodecMC_%d_%d.cfg' % (maxp, maxt)
        with open(os.path.join(wd, cfg), 'w') as f:
            f.write(codec_cfg(ck, maxp, maxt, maxn, maxs, CODEC_PROPS))
        dump = os.path.join(wd, 'shapes_%d_%d' % (maxp, maxt))
        r = tlc.expect_ok(tlc.check(wd, 'BcpCodecMC', cfg, timeout=3000, extra=['-dump', dump]), 'BcpCodec ' + label)
        ctx.add_tlc('BcpCodec ' + label, r, {'MaxParams': maxp, 'MaxToks': maxt, 'MaxNToks': maxn, 'MaxSum': maxs,
                                             'tokens': len(TOK), 'scalars': len(SCALAR), 'nests': len(NESTS) + len(STRNESTS)})
        got = dumped_shapes(dump + '.dump')
        if 2 * len(got) != r.distinct:
            raise tlc.TLCError('codec enumeration: %d shapes parsed from dump but %d states' % (len(got), r.distinct))
        for s in got:
            shapes.setdefault(shape_key(s), s)
    nenum = len(shapes)
    # deep shapes by simulation
    with open(wd + '/CodecGen.cfg', 'w') as f:
        f.write(codec_cfg(['plain', 'ident'], 3, 4, 3, 8, '', jsonkey=False))
    behs, _ = tlc.simulate(wd, 'BcpCodecMC', 'CodecGen.cfg', num=500 if ctx.quick else 6000, depth=14, seed=ctx.seed)
    for b in behs:
        for st in b[-3:]:
            s = {'cmd': st['cmd'], 'params': [dict(p, toks=list(p['toks'])) for p in st['params']]}
            shapes.setdefault(shape_key(s), s)
    # hand-written multi-parameter shapes around the suspected defect classes and the JSON path
    def P(kind, sub='', toks=(), key='plain'):
        return {'key': key, 'kind': kind, 'sub': sub, 'toks': list(toks)}
    hand = [
        [P('str', toks=['HEX']), P('nest', 'list_empty')],            # JSON path: strings are not unquoted
        [P('str', toks=['PINT']), P('nest', 'dict_scalars')],
        [P('str', toks=['HEX']), P('int', 'pos'), P('str', toks=['PINT'])],
        [P('float', 'exp'), P('float', 'nan'), P('float', 'negzero')],
        [P('bool', 'true'), P('int', 'pos'), P('none', '')],
        [P('nest', 'list_str', toks=['MARKER']), P('str', toks=['NL'])],
        [P('str', toks=['PCT', 'D2', 'D5']), P('str', toks=['PCT', 'HL', 'D5'])],
        [P('nest', 'dict_list', key='json')],
        [P('str', toks=[], key='json'), P('int', 'neg')],
        [],
    ]
    for ps in hand:
        for ck in ('plain', 'ident'):
            s = {'cmd': ck, 'params': ps}
            shapes.setdefault(shape_key(s), s)
    order = sorted(shapes)
    reps = 1 if ctx.quick else 2
    jobs = [(shapes[k], ctx.seed * 100 + rep, None) for k in order for rep in range(reps)]
    # the suspicion inputs of DESIGN section 5 (#13) with their exact text, independent of the seed
    pinned = [('HEX', '%41'), ('PINT', 'int:5'), ('PBOOL', 'bool:true'), ('PNONE', 'NoneType:'), ('PFLOAT', 'float:1e+16'),
              ('PINTBAD', 'int:x'), ('HEX', '%25'), ('PBOOL', 'bool:false')]
    jobs = [({'cmd': 'plain', 'params': [P('str', toks=[t])]}, ctx.seed, [[txt]]) for t, txt in pinned] + jobs
    ctx.log('codec: %d shapes (%d enumerated exhaustively), %d cases' % (len(shapes), nenum, len(jobs)))
    traces = harness.pmap(codec_case, jobs, chunk=256, item_timeout=20)
    with open(wd + '/CodecTrace.cfg', 'w') as f:
        f.write(CODEC_TRACE_CFG % (_q(sorted(CMDKINDS)), _q(sorted(TOK)), _q(NESTS), _q(STRNESTS)))
    v = tlc.validate_traces(wd, 'BcpCodecTraceMC', 'CodecTrace.cfg', traces, workers=8, batch=10000, diagnose=False)
    ctx.add_trace_verdict('BcpCodecTrace', v, len(traces))
    ctx.coverage['monitors'] += ['BcpCodec Contract (raised=F, oneline, cmd, keys, every param val+typ)']
    ctx.coverage['bounds']['codec cases'] = {'shapes': len(shapes), 'enumerated_exhaustively': nenum, 'simulated_behaviours': len(behs),
                                             'instantiations_per_shape': reps}
    ok = [t for t in traces if t['ev'][-1]['params']]
    if ok:
        ctx.sample({'kind': 'codec-case', 'orig': ok[0]['_orig'], 'encoded': ok[0]['_enc'], 'trace': ok[0]['ev']})
    nviol = {}
    found = []
    for i, info in sorted(v.rejected.items()):
        tr = traces[i]
        chk = tr['ev'][-1]
        allok = (not chk['raised']) and chk['oneline'] and chk['cmd'] and chk['keys'] and all(p['val'] and p['typ'] for p in chk['params'])
        if allok:
            raise tlc.TLCError('codec trace rejected although every logged observation holds: %s' % tr['ev'])
        for sig, k, val in codec_signatures(tr):
            nviol[sig] = nviol.get(sig, 0) + 1
            found.append((0 if tr['_pin'] else 1, len(tr['_shape']['params']), sum(len(p['toks']) for p in tr['_shape']['params']), i, sig, k, val))
    bysig = {}
    for rec in sorted(found, key=lambda x: x[:4]):        # pinned, then simplest failing inputs first
        bysig.setdefault(rec[4], []).append(rec)
    for sig, recs in sorted(bysig.items()):
        _, _, _, i, _, k, val = recs[0]
        tr = traces[i]
        if k is not None:
            ex = []
            seen = set()
            for r in recs:
                if repr(r[6]) in seen or len(ex) >= 6:
                    continue
                seen.add(repr(r[6]))
                iso = roundtrip('x', {r[5]: r[6]})
                ex.append('%s=%r -> %r -> %s' % (r[5], r[6], iso.get('_enc'),
                                                 iso.get('_dec') if not iso.get('_err') else iso['_err']))
            what = '%d cases; original -> encoded -> decoded: %s' % (len(recs), ' | '.join(ex))
        else:
            what = 'encode_command_string%s = %r decodes to %s%s (observed %s)' % (
                tr['_orig'][:300], tr['_enc'], tr['_dec'], (' -> ' + tr['_err']) if tr['_err'] else '',
                {x: y for x, y in tr['ev'][-1].items() if x != 'op'})
        ctx.violation(sig, 'encode_command_string -> decode_command_string does not round-trip: ' + what,
                      {'half': 'codec', 'shape': tr['_shape'], 'seed': tr['_seed'], 'pin': tr['_pin'], 'orig': tr['_orig'],
                       'param': None if k is None else [k, repr(val)], 'trace': tr['ev']})
    ctx.coverage['codec_rejections_by_signature'] = nviol


def run(ctx):
    wd = tlc.prepare(ctx.scratch, 'Bcp', 'bcp')
    run_reassembly(ctx, wd)
    run_codec(ctx, wd)
    ctx.assumptions += [
        'reassembly: bytes are fed with StreamReader.feed_data on an event loop owned by the driver (no sockets); after every '
        'chunk the loop runs until idle',
        'reassembly: a message is identified by what the real code decodes from the complete line and payload at once '
        '(ghost whole-message decoder), so codec deviations do not leak into the reassembly verdict',
        'reassembly: payload framing "<line>&bytes=<n>\\n<n raw bytes>" is produced by the driver (MPF itself never sends payloads); '
        'lines are produced by the real AsyncioBcpClientSocket.send',
        'codec: command names are identifiers; parameter names are identifiers (plus the literal name "json"); dict keys are strings; '
        'tuples, bytes and lone surrogates are outside the statement',
    ]


def replay(ctx, data):
    d = data['replay']
    if d['half'] == 'reasm':
        job = d['job']
        job['sched'] = [tuple(x) for x in job['sched']]
        tr = exec_reasm(job)
        for e in tr['ev']:
            print(_short(e))
    else:
        tr = codec_case((d['shape'], d['seed'], d.get('pin')))
        print('original :', tr['_orig'])
        print('encoded  :', repr(tr['_enc']))
        print('decoded  :', tr['_dec'], tr['_err'] or '')
        print('observed :', tr['ev'][-1])
        if d.get('param'):
            cmd, kw = instantiate(d['shape'], d['seed'], pin=d.get('pin'))
            k = d['param'][0]
            iso = roundtrip('x', {k: kw[k]})
            print('isolated : %s=%r -> %r -> %s %s' % (k, kw[k], iso.get('_enc'), iso.get('_dec'), iso.get('_err') or ''))
