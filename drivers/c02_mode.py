"""Custom mode code (``mode: code:``) of machines/c02q: the repository's Mode, unchanged, which tells the C02 driver when its
start() is entered and left.  Nothing of the behaviour is replaced: start() is Mode.start."""
from mpf.core.mode import Mode


class ProbedMode(Mode):

    """Mode whose start() calls are reported to ``probe`` (an object with m_enter/m_exit), if one is attached."""

    probe = None

    def start(self, mode_priority=None, callback=None, **kwargs) -> None:
        """Run Mode.start; report the call."""
        p = self.probe
        if p is None:
            super().start(mode_priority, callback, **kwargs)
            return
        tok = p.m_enter(self, kwargs)
        try:
            super().start(mode_priority, callback, **kwargs)
        finally:
            p.m_exit(self, kwargs, tok)
