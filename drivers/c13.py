"""C13 — delays and periodic timers fire exactly when promised, or never.

Engines: specs/Delays (DelayManager), specs/Timers (PeriodicTask + timer device).
"""
import random

from lib import tlc, harness
from drivers import c13_timers

LEVEL = 'model_checking'
UNITS = [1, 10, 250, 1000]      # ms per abstract time unit, varied per schedule (unit mix-ups show)
EPS = 1e-6


def mc_cfg(quick):
    return """SPECIFICATION MCSpec
CONSTANTS
  Names = {"a", "b"}
  Durs = %s
  Args = {"p0", "p1"}
  MaxTime = %d
  MaxOps = 3
INVARIANT TypeOK
INVARIANT FiredJustified
INVARIANT RunNowRuns
INVARIANT NoMissed
INVARIANT CheckTruthful
PROPERTY NoOverdueWhenTimeMoves
VIEW View
CHECK_DEADLOCK FALSE
""" % (('{0, 1}', 2) if quick else ('{0, 1, 2}', 3))


# ----------------------------------------------------------------------------- execution on real code
_H = {}


def _machine():
    if 'h' not in _H:
        _H['h'] = harness.boot('base')
    return _H['h']


class DelayRun:
    """Execute one schedule (list of act records from the spec) on a real DelayManager."""

    def __init__(self, sched, unit_ms, owner):
        self.sched = sched
        self.U = unit_ms
        self.owner = owner
        self.h = _machine()
        self.ev = []
        self.consumed = set()
        self.pos = 0
        from mpf.core.delays import DelayManager
        if owner == 'mode':
            self.mode = self.h.machine.modes['m1']
            self._ensure_mode()
            self.dm = self.mode.delay
            self.dm.clear()
        else:
            self.dm = DelayManager(self.h.machine)
        self.t0 = self.h.machine.clock.get_time()
        self.names = ['a', 'b', 'c']
        self.cbs = {n: self._mk_cb(n) for n in self.names}

    def _ensure_mode(self):
        if not self.mode.active:
            self.mode.start()
            self.h.advance_time_and_run(0)
            self.h.advance_time_and_run(0)
            if not self.mode.active:
                raise RuntimeError('helper mode did not start')

    def pend(self):
        return sorted(n for n in self.names if self.dm.check(n))

    def units_now(self):
        x = (self.h.machine.clock.get_time() - self.t0) * 1000.0 / self.U
        k = round(x)
        return k if abs(x - k) < 1e-3 else -1

    def _mk_cb(self, n):
        def cb(**kw):
            a = kw.get('arg', 'NOARG')
            if set(kw) - {'arg'}:
                a = 'EXTRA'
            self.ev.append({'op': 'fire', 'n': n, 'arg': a, 't': self.units_now()})
            # nested calls: the schedule steps marked nested that follow this callback's Fire step
            idx = None
            for i in range(self.pos, len(self.sched)):
                s = self.sched[i]
                if i not in self.consumed and s['op'] == 'fire' and s['n'] == n:
                    idx = i
                    break
            if idx is None:
                return
            self.consumed.add(idx)
            j = idx + 1
            while j < len(self.sched) and self.sched[j].get('nested') is True and self.sched[j]['op'] != 'fire':
                self.consumed.add(j)
                self.call(self.sched[j])
                j += 1
        return cb

    def call(self, s):
        op = s['op']
        nested = bool(s.get('nested'))
        n = s.get('n')
        if op in ('add', 'reset', 'addif'):
            ms = s['d'] * self.U
            f = {'add': self.dm.add, 'reset': self.dm.reset, 'addif': self.dm.add_if_doesnt_exist}[op]
            f(ms, self.cbs[n], n, arg=s['arg'])
            self.ev.append({'op': op, 'n': n, 'd': s['d'], 'arg': s['arg'], 'nested': nested, 'pend': self.pend()})
        elif op == 'remove':
            self.dm.remove(n)
            self.ev.append({'op': op, 'n': n, 'nested': nested, 'pend': self.pend()})
        elif op == 'clear':
            if self.owner == 'mode' and self.mode.active and not self.mode.stopping:
                # "its owning mode stops": the mode clears its delays when the stop is requested and once more when
                # it has stopped (delays added while it was stopping, fix ee93c65) - the second clear is logged
                # from the mode's stop callback, which runs right after it (when the stop was requested by a delay
                # callback: in the event processing that ends that callback, before the loop runs another timer)
                self.mode.stop(callback=lambda: self.ev.append({'op': 'clear', 'nested': nested, 'pend': self.pend()}))
            else:
                self.dm.clear()
            self.ev.append({'op': op, 'nested': nested, 'pend': self.pend()})
        elif op == 'runnow':
            self.ev.append({'op': op, 'n': n, 'nested': nested})
            self.dm.run_now(n)
        else:
            raise ValueError(op)

    def run(self):
        h = self.h
        for i, s in enumerate(self.sched):
            self.pos = i
            if i in self.consumed or s['op'] in ('init', 'fire'):
                continue
            if s.get('nested') is True:
                continue        # a nested step whose callback never ran: cannot be executed
            if s['op'] == 'tick':
                self.ev.append({'op': 'tick'})
                h.advance_time_and_run(self.U * (1 + EPS) / 1000.0)
                if self.owner == 'mode':
                    self._ensure_mode()
                self.ev.append({'op': 'sync', 'pend': self.pend()})
                continue
            if self.owner == 'mode':
                self._ensure_mode()
            self.call(s)
            h.advance_time_and_run(0)
            h.advance_time_and_run(0)
            self.ev.append({'op': 'sync', 'pend': self.pend()})
        # run out: everything still pending must fire at its time
        for _ in range(5):
            self.ev.append({'op': 'tick'})
            h.advance_time_and_run(self.U * (1 + EPS) / 1000.0)
            self.ev.append({'op': 'sync', 'pend': self.pend()})
        self.dm.clear()
        return self.ev


def exec_delay_schedule(job):
    sched, unit, owner = job
    try:
        ev = DelayRun(sched, unit, owner).run()
        return {'ev': ev, '_unit': unit, '_owner': owner}
    except Exception as ex:  # pylint: disable=broad-except
        import traceback
        return {'ev': [{'op': 'crash', 'what': repr(ex)[:200]}], '_unit': unit, '_owner': owner,
                '_tb': traceback.format_exc()[-1500:]}


def gen_cfg():
    return 'DelaysGen.cfg'


def run_delays(ctx):
    wd = tlc.prepare(ctx.scratch, 'Delays', 'delays')
    with open(wd + '/MC.cfg', 'w') as f:
        f.write(mc_cfg(ctx.quick))
    r = tlc.expect_ok(tlc.check(wd, 'DelaysMC', 'MC.cfg', timeout=900), 'Delays design check')
    ctx.add_tlc('DelaysMC', r, {'Names': 2, 'Durs': '{0,1}' if ctx.quick else '{0,1,2}', 'Args': 2, 'MaxOps': 3})
    ctx.coverage['monitors'] += ['FiredJustified', 'RunNowRuns', 'NoMissed', 'CheckTruthful', 'NoOverdueWhenTimeMoves']
    num = 400 if ctx.quick else 6000
    behs, rs = tlc.simulate(wd, 'Delays', 'DelaysGen.cfg', num=num, depth=26 if ctx.quick else 40, seed=ctx.seed)
    rnd = random.Random(ctx.seed)
    jobs = []
    for b in behs:
        sched = [s['act'] for s in b]
        jobs.append((sched, rnd.choice(UNITS), rnd.choice(['plain', 'plain', 'mode'])))
    jobs += [(s, u, o) for (s, u, o) in handmade()]
    traces = harness.pmap(exec_delay_schedule, jobs, chunk=8)
    v = tlc.validate_traces(wd, 'DelaysTrace', 'DelaysTrace.cfg', traces)
    ctx.add_trace_verdict('DelaysTrace', v, len(traces))
    ctx.coverage['delay_schedules'] = len(jobs)
    ctx.coverage['delay_distinct_schedules'] = len({repr(j[0]) for j in jobs})
    ctx.sample({'kind': 'delay-schedule', 'schedule': jobs[0][0][:12], 'trace': traces[0]['ev'][:12]})
    for i, info in sorted(v.rejected.items()):
        fe = info.get('failing_event') or {}
        pe = info.get('prev_event') or {}
        sig = 'C13:delays:%s-after-%s' % (fe.get('op', 'end'), pe.get('op', 'start'))
        if fe.get('op') == 'fire' and fe.get('arg') in ('NOARG', 'EXTRA'):
            sig = 'C13:delays:callback-args-lost'
        ctx.violation(sig, 'DelayManager execution not explained by the Delays spec at line %s: %s (prev %s)' % (
            info.get('line'), fe, pe), {'kind': 'delays', 'job': list(jobs[i]), 'trace': traces[i], 'info': info})


def handmade():
    A = lambda n, d, a, nested=False: {'op': 'add', 'n': n, 'd': d, 'arg': a, 'nested': nested}
    T = {'op': 'tick'}
    out = []
    for u in UNITS:
        for o in ('plain', 'mode'):
            out.append(([A('a', 2, 'p0'), T, {'op': 'runnow', 'n': 'a', 'nested': False}, T, T], u, o))
            out.append(([A('a', 1, 'p0'), A('b', 1, 'p1'), T, {'op': 'fire', 'n': 'a'},
                         {'op': 'remove', 'n': 'b', 'nested': True}, {'op': 'fire', 'n': 'b'},
                         {'op': 'remove', 'n': 'a', 'nested': True}, T], u, o))
            out.append(([A('a', 1, 'p0'), T, {'op': 'fire', 'n': 'a'}, A('a', 1, 'p1', True), T, T], u, o))
            out.append(([A('a', 3, 'p0'), T, {'op': 'reset', 'n': 'a', 'd': 3, 'arg': 'p2', 'nested': False}, T, T, T, T], u, o))
            out.append(([A('a', 2, 'p0'), A('b', 3, 'p0'), T, {'op': 'clear', 'nested': False}, T, T, T], u, o))
    return out


def run(ctx):
    run_delays(ctx)
    c13_timers.run(ctx)
    from drivers import c13_suite
    c13_suite.suite_traces(ctx)
    ctx.assumptions += ['virtual time (TimeTravelLoop): timers fire at their exact due time; real-loop lateness is '
                        'modelled only for PeriodicTask via a late-running loop double',
                        'trace spec binds call arguments, callback arguments, fire times and check() for every name']


def replay(ctx, data):
    d = data['replay']
    if d.get('kind') == 'suite':
        from drivers import c13_suite
        return c13_suite.suite_traces(ctx, modules=[d['src'].split('::')[0].split('/')[-1][:-3]])
    if d.get('kind') == 'delays':
        tr = exec_delay_schedule(tuple(d['job']))
        wd = tlc.prepare(ctx.scratch, 'Delays', 'delays')
        v = tlc.validate_traces(wd, 'DelaysTrace', 'DelaysTrace.cfg', [tr])
        for i, info in v.rejected.items():
            ctx.violation(data['sig'], 'replayed: %s' % info, d)
        print('replay trace:', tr['ev'])
    else:
        c13_timers.replay(ctx, data)
