"""X08 - ball search of a playfield inside a running game (specs/BallSearch)."""
import os
import traceback

from lib import tlc, harness
from lib.tlaval import to_tla

LEVEL = 'model_checking'
ALLDEV = ['zerophase']
U = 1000            # ms per abstract time unit
MAXBALLS = 2
FLIPPER = 3         # callback id of the real flipper; 1 and 2 are registered by the harness (1 with a restore callback)


def C(i, T, I, W, S, fa, prio, K, en=True):
    return dict(id=i, en=en, T=T, I=I, W=W, S=list(S), fa=fa, prio=list(prio), K=K)


TABLE = [
    C(1, 3, 1, 2, (1, 1, 1), 'new_ball', (30, 10, 20), 2),
    C(2, 2, 2, 1, (2, 1, 1), 'end_game', (10, 20, 30), 2),
    C(3, 2, 1, 3, (1, 0, 2), 'end_ball', (20, 30, 10), 1),        # a phase without searches in the middle
    C(4, 2, 1, 1, (0, 1, 1), 'new_ball', (10, 30, 20), 1),        # first phase skipped; the only known ball is lost
    C(5, 3, 1, 1, (1, 1, 0), 'end_game', (30, 20, 10), 2),        # last phase skipped
    C(6, 2, 1, 1, (1, 1, 1), 'new_ball', (10, 20, 30), 2, en=False),
    C(7, 2, 1, 1, (0, 0, 0), 'new_ball', (20, 10, 30), 2),        # nothing to search: gives up at once
    C(8, 2, 1, 2, (1, 2, 1), 'end_ball', (40, 50, 60), 2),
]
BYID = {c['id']: c for c in TABLE}


def write_machine(scratch):
    d = os.path.join(scratch, 'machines', 'ballsearch')
    os.makedirs(d + '/config', exist_ok=True)
    for c in TABLE:
        with open(d + '/config/config_%d.yaml' % c['id'], 'w') as f:
            f.write('\n'.join([
                '#config_version=6', 'game:', '  balls_per_game: 50',
                'switches:', '  s_start:', '    number:', '    tags: start', '  s_pf:', '    number:', '    tags: playfield_active',
                '  s_flip:', '    number:',
                'coils:', '  c_flip:', '    number:', '    default_pulse_ms: 20', '    default_hold_power: 0.25',
                'flippers:', '  f1:', '    main_coil: c_flip', '    activation_switch: s_flip', '    include_in_ball_search: true',
                '    ball_search_order: %d' % c['prio'][FLIPPER - 1], '    ball_search_hold_time: 200ms',
                'playfields:', '  playfield:', '    tags: default', '    enable_ball_search: %s' % ('true' if c['en'] else 'false'),
                '    ball_search_timeout: %dms' % (c['T'] * U), '    ball_search_interval: %dms' % (c['I'] * U),
                '    ball_search_wait_after_iteration: %dms' % (c['W'] * U),
                '    ball_search_phase_1_searches: %d' % c['S'][0], '    ball_search_phase_2_searches: %d' % c['S'][1],
                '    ball_search_phase_3_searches: %d' % c['S'][2], '    ball_search_failed_action: %s' % c['fa'],
                '    ball_search_enable_events: bs_enable', '    ball_search_disable_events: bs_disable',
                '    ball_search_block_events: bs_block', '    ball_search_unblock_events: bs_unblock', '']))
    return d


def mc_module():
    return """----------------------------- MODULE BallSearchMC -----------------------------
EXTENDS BallSearch
MCConfigs == {%s}
MCNoDev == {}
MCAllDev == {%s}
=============================================================================
""" % (',\n   '.join(to_tla(c) for c in TABLE), ', '.join('"%s"' % d for d in ALLDEV))


CFG = """SPECIFICATION %s
CONSTANTS
  Configs <- %s
  Deviations <- %s
  MaxOps = %d
  MaxTime = %d
  MaxBalls = %d
%sCHECK_DEADLOCK FALSE
"""
INVS = ['TypeOK', 'Timers', 'BlockedInert', 'Balls']
PROPS = ['OnlyTimers', 'StartOnTimeout', 'TimeoutStarts', 'StartedOnce', 'StoppedOnce', 'FailedAfterStopped', 'GiveUpOnce',
         'StopsAtOnce', 'HitRestartsTimer', 'CallOrder', 'IdleInert']


def props(intent):
    return ''.join('INVARIANT %s\n' % i for i in INVS + (['PhaseBounds'] if intent else [])) + ''.join('PROPERTY %s\n' % p for p in PROPS)


# ---- execution on real mpf -------------------------------------------------------------------------------------------
class Run:
    def __init__(self, mdir, cid):
        self.c = c = BYID[cid]
        self.h = h = harness.boot(None, machine_dir=mdir, config='config_%d.yaml' % cid, fake_game=True)
        self.m = m = h.machine
        self.bs = bs = m.playfield.ball_search
        self.ret = {1: True, 2: True}
        self.reset()
        # own callbacks through the public registration (the real flipper registered itself at boot)
        bs.register(c['prio'][0], self._cb(1), 'own1', restore_callback=self._restore)
        bs.register(c['prio'][1], self._cb(2), 'own2')
        # the flipper's own callback stays in place; the call is logged around it
        bs.callbacks = [cb._replace(callback=self._wrap(cb.callback)) if cb.name == 'f1' else cb for cb in bs.callbacks]
        for n, tag in (('ball_search_started', 'started'), ('ball_search_stopped', 'stopped'), ('ball_search_failed', 'failed')):
            m.events.add_handler(n, self._ev(tag, 0))
        for p in (1, 2, 3):
            m.events.add_handler('ball_search_phase_%d' % p, self._ev('phase', p))
        m.events.add_handler('ball_ending', self._cnt('bend'), priority=1000)
        m.events.add_handler('game_ending', self._cnt('gend'), priority=1000)
        h.start_game()
        if m.playfield.balls != 1:
            raise RuntimeError('expected one ball on the playfield after the game start')
        m.playfield.add_ball = self._add_ball
        m.ball_controller.num_balls_known = c['K']
        bs.disable()
        self.settle(8)
        self.reset()
        bs.enable()         # time origin of the schedule: the timeout timer starts here
        self.settle()

    def reset(self):
        self.log = {'calls': [], 'evs': [], 'rest': 0, 'addb': 0, 'bend': 0, 'gend': 0}

    def _cb(self, i):
        def cb(phase, iteration):
            self.log['calls'].append([i, int(phase), int(iteration)])
            return self.ret[i]
        return cb

    def _wrap(self, inner):
        def cb(phase, iteration):
            self.log['calls'].append([FLIPPER, int(phase), int(iteration)])
            return inner(phase, iteration)
        return cb

    def _restore(self):
        self.log['rest'] += 1

    def _ev(self, tag, p):
        def hnd(**kwargs):
            self.log['evs'].append([tag, p, int(kwargs.get('iteration', 0))])
        return hnd

    def _cnt(self, key):
        def hnd(**kwargs):
            self.log[key] += 1
        return hnd

    def _add_ball(self, *args, **kwargs):
        if not args and not kwargs:         # the replacement ball of the failed action; the game serves with player_controlled
            self.log['addb'] += 1
        return True

    def settle(self, n=4):
        for _ in range(n):
            self.h.advance_time_and_run(0)

    def step(self, a):
        op = a['op']
        m = self.m
        if op == 'tick':
            self.h.advance_time_and_run(U * (1 + 1e-6) / 1000.0)
        elif op == 'hit':
            self.h.hit_and_release_switch('s_pf')
        elif op in ('enable', 'disable', 'block', 'unblock'):
            m.events.post('bs_' + op)
        elif op == 'addball':
            m.playfield.balls += 1
            m.playfield.available_balls += 1
        elif op == 'capture':
            m.events.post('balldevice_captured_from_playfield', balls=1)
        elif op == 'cancel':
            m.events.post('cancel_ball_search')
        elif op == 'setret':
            self.ret[a['c']] = bool(a['b'])
        else:
            raise ValueError(op)
        self.settle(12)
        rec = dict(a)
        rec.update(self.log)
        self.reset()
        bs = self.bs
        rec.update(en=bool(bs.enabled), bl=bool(bs.blocked), st=bool(bs.started), ph=int(bs.phase), it=int(bs.iteration),
                   balls=int(m.playfield.balls), known=int(m.ball_controller.num_balls_known), game=m.game is not None)
        return rec


def exec_schedule(job):
    mdir, cid, sched = job
    ev = []
    r = None
    try:
        r = Run(mdir, cid)
        for a in sched:
            if a['op'] == 'init':
                continue
            try:
                ev.append(r.step(a))
            except Exception as ex:  # pylint: disable=broad-except
                # an exception of the real code is never swallowed: the line is not explained by the model
                ev.append({'op': 'crash', 'after': a['op'], 'what': repr(ex)[:300], '_tb': traceback.format_exc()[-1500:]})
                break
        return {'cfg': BYID[cid], 'ev': ev}
    except Exception as ex:  # pylint: disable=broad-except
        ev.append({'op': 'crash', 'after': 'setup', 'what': repr(ex)[:300]})
        return {'cfg': BYID[cid], 'ev': ev, '_tb': traceback.format_exc()[-1500:]}
    finally:
        if r is not None:
            harness.shutdown(r.h)


def A(op, **kw):
    d = {'op': op}
    d.update(kw)
    return d


def handmade():
    T, H, EN, DI, BL, UB = A('tick'), A('hit'), A('enable'), A('disable'), A('block'), A('unblock')
    AB, CP, CA = A('addball'), A('capture'), A('cancel')

    def R(c, b):
        return A('setret', c=c, b=b)
    out = []
    # every configuration: the undisturbed search from the timeout to giving up, then time passes with nothing to do
    for c in TABLE:
        out.append((c['id'], [T] * 40))
    out += [
        # callbacks that decline: the next one follows at once; all own callbacks decline
        (1, [R(1, False)] + [T] * 8 + [R(2, False)] + [T] * 6 + [R(1, True)] + [T] * 16),
        (8, [R(2, False), R(1, False)] + [T] * 30),
        (3, [R(1, False)] + [T] * 5 + [R(2, False)] + [T] * 20),        # zero phase entered inside the loop, first callback declines
        (4, [R(1, False)] + [T] * 20),
        # found balls at every moment of the search: hit, ball enters a device, a second ball arrives
        (1, [T, T, H, T, T, T, T, H, T, T, T, T, T, H, H, T, T, T, T, T, T, CP, T, T, T]),
        (2, [T, T, T, AB, T, T, T, T, CP, T, T, T, T, T, CP, T, T, T, EN, T, T, T, T]),
        (8, [T, T, T, T, T, T, T, H] + [T] * 4 + [CP] + [T] * 4 + [AB] + [T] * 30),
        # disable / block / unblock around a running search; enable while blocked is inert; enable is repeated
        (1, [T, T, T, T, DI, T, T, T, T, EN, EN, T, T, T, T, BL, T, EN, H, T, T, T, UB, T, T, T, T, T, BL, BL, UB, UB] + [T] * 24),
        (5, [BL, T, T, T, CP, UB, T, T, T, AB, T, T, T, T, DI, H, T, T, T, EN] + [T] * 14),
        (2, [T, EN, T, EN, T, EN, T, T, T, CA, T, T, T, EN, T, T, T, CA]),
        # cancel: inert without a search, gives up a running one; with two balls lost
        (1, [CA, T, AB, T, T, T, T, CA, T, T, EN, T, T, T, T, T] + [T] * 12),
        (3, [T, T, T, CA, T, EN, T, T, T, T, CA, T, T]),
        (4, [T, T, T, T, CA, T, T, EN, T, T, T, T, T, T, T, T]),
        # configuration without ball search: nothing ever happens
        (6, [T, T, T, EN, T, T, T, H, AB, T, T, T, BL, UB, T, T, T, CA]),
        (7, [T, T, T, EN, T, T, T, AB, T, T, T]),
        # after the game has ended: a search outside a game gives up without an action
        (2, [T] * 14 + [AB, T, T, T] + [T] * 14),
        (5, [T] * 12 + [AB] + [T] * 12),
    ]
    return out


def dev_counts(traces):
    n = 0
    for t in traces:
        S = t['cfg']['S']
        for e in t['ev']:
            if e.get('op') == 'crash':
                continue
            if any(S[x[1] - 1] == 0 for x in e['calls']) or any(x[0] == 'phase' and S[x[1] - 1] == 0 for x in e['evs']):
                n += 1
    return {'zerophase': n}


def run(ctx):
    mdir = write_machine(ctx.scratch)
    wd = tlc.prepare(ctx.scratch, 'BallSearch', 'ballsearch')
    with open(wd + '/BallSearchMC.tla', 'w') as f:
        f.write(mc_module())
    ops, mt = (3, 14) if ctx.quick else (4, 18)
    for label, devs, intent in (('intent', 'MCNoDev', True), ('as-coded', 'MCAllDev', False)):
        with open(wd + '/MC_%s.cfg' % label, 'w') as f:
            f.write(CFG % ('Spec', 'MCConfigs', devs, ops, mt, MAXBALLS, props(intent)))
        r = tlc.expect_ok(tlc.check(wd, 'BallSearchMC', 'MC_%s.cfg' % label, timeout=1500, coverage=(label == 'as-coded')),
                          'BallSearch design check (%s)' % label)
        ctx.add_tlc('BallSearchMC/' + label, r, {'configs': len(TABLE), 'MaxOps': ops, 'MaxTime': mt, 'MaxBalls': MAXBALLS,
                                                'Deviations': [] if intent else ALLDEV})
        if label == 'as-coded':
            cov = r.coverage()
            missing = [a for a in ('DoEnable', 'DoDisable', 'DoBlock', 'DoUnblock', 'Hit', 'AddBall', 'Capture', 'Cancel', 'SetRet', 'Tick')
                       if a in cov and cov[a][0] == 0]
            if missing:
                raise tlc.TLCError('actions never taken in the design check: %s' % missing)
            ctx.coverage['action_coverage'] = {k: list(v) for k, v in cov.items()}
    ctx.coverage['monitors'] += INVS + ['PhaseBounds (intent model only)'] + PROPS
    with open(wd + '/Gen.cfg', 'w') as f:
        f.write(CFG % ('GSpec', 'MCConfigs', 'MCAllDev', 24, 60, MAXBALLS, ''))
    behs, _ = tlc.simulate(wd, 'BallSearchGen', 'Gen.cfg', num=160 if ctx.quick else 1500, depth=140, seed=ctx.seed)
    jobs = []
    for b in behs:
        sched = [s['act'] for k, s in enumerate(b) if k > 0 and (s['nops'] != b[k - 1]['nops'] or s['now'] != b[k - 1]['now'])]
        jobs.append((mdir, b[0]['cfg']['id'], sched))
    jobs += [(mdir, cid, sched) for cid, sched in handmade()]
    traces = harness.pmap(exec_schedule, jobs, chunk=8)
    with open(wd + '/Trace.cfg', 'w') as f:
        f.write(CFG % ('TSpec', 'TConfigs', 'TAllDev', 1000000, 1000000, MAXBALLS,
                       'INVARIANT Reporter\n' + ''.join('INVARIANT %s\n' % i for i in INVS if i != 'TypeOK')))
    v = tlc.validate_traces(wd, 'BallSearchTrace', 'Trace.cfg', traces)
    ctx.add_trace_verdict('BallSearchTrace', v, len(traces))
    ctx.coverage['configs_exercised'] = sorted({j[1] for j in jobs})
    ctx.coverage['steps'] = sum(len(t['ev']) for t in traces)
    ctx.coverage['searches_started'] = sum(1 for t in traces for e in t['ev'] if any(x[0] == 'started' for x in e.get('evs', [])))
    ctx.coverage['searches_failed'] = sum(1 for t in traces for e in t['ev'] if any(x[0] == 'failed' for x in e.get('evs', [])))
    ctx.sample({'kind': 'ball-search-trace', 'cfg': traces[-1]['cfg'], 'trace': traces[-1]['ev'][:8]})
    n = dev_counts(traces)
    ctx.coverage['deviations_used'] = n
    ctx.notes.append('named deviations of mpf from its documentation, steps that needed them: %s' % n)
    tlc.finish_diagnosis(wd, 'BallSearchTrace', 'Trace.cfg', traces, v)
    for i, info in sorted(v.rejected.items()):
        if info.get('reason') == 'monitor':
            ctx.violation('X08:monitor:%s' % info.get('monitor'), 'monitor %s violated by a real execution at line %s (cfg %s)' % (
                info.get('monitor'), info.get('line'), traces[i]['cfg']), {'cid': jobs[i][1], 'sched': jobs[i][2], 'trace': traces[i]})
            continue
        if info.get('line') is None:
            continue
        fe = info.get('failing_event') or {}
        ctx.violation('X08:%s%s' % (fe.get('op', '?'), ':' + str(fe.get('after')) if fe.get('op') == 'crash' else ''),
                      'ball search execution not explained by BallSearch spec at line %s: %s (prev %s; cfg %s)' % (
                          info.get('line'), fe, info.get('prev_event'), traces[i]['cfg']),
                      {'cid': jobs[i][1], 'sched': jobs[i][2], 'trace': traces[i], 'info': info})
    ctx.assumptions += ['fake-game harness (no ball devices): balls appear on / leave the playfield by playfield.balls and the '
                        'balldevice_captured_from_playfield event; add_ball() of the failed action is counted, not served',
                        'three callbacks with distinct priorities: two harness closures (one with a restore callback) and a real flipper',
                        'one abstract time unit = %d ms; requests happen between units' % U]


def replay(ctx, data):
    d = data['replay']
    mdir = write_machine(ctx.scratch)
    tr = exec_schedule((mdir, d['cid'], d['sched']))
    for e in tr['ev']:
        print(e)
