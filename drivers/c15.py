"""C15 — persistent data is durable, never torn, and survives write failures (specs/DataManager).

Part 1 (DataManager.tla): real DataManager / FileManager / YamlInterface on a stub machine in a scratch
directory.  Every writer thread is a REAL thread run under a cooperative scheduler: the thread blocks at each
of its blocking points (sleeps, `_dirty.wait`, the `is_busy` poll, `_dirty.clear`, `deepcopy`, `open` of the
temp file, first / second half of the YAML text, `os.replace`) and the driver decides from the TLC schedule who
runs next, whether a fault is raised there, or whether the process crashes here.
Fault model (more than one kind of write failure): injected faults of kind 'io' (OSError and its subclasses) and of
kind 'exc' (exceptions of other classes: ValueError of a closed stream, YAMLError, TypeError ...) at the deep copy
and at each of the four steps of a file save, and DATA that makes the write fail: values the safe YAML dumper
cannot represent (decimal.Decimal, Fraction, complex, arbitrary objects ...: kind 'norepr') and values that cannot
even be deep-copied (locks, generators: kind 'nocopy') handed to save_all.
Part 2 (MachineVars.tla): real MachineVariables on booted machines (machines/c15_mv); a reboot passes the persisted
data through the real YAML writer and loader and boots a new machine with the wall clock moved on.  Variables created
by code at run time (persist / expiry policies) and variables DECLARED IN THE CONFIG (machine_vars: section with
initial_value, value_type, persist - explicit or by default), set to falsy values (0, 0.0, -0.0, False, '') and others,
over several boots in a row; observed after every boot: existence, value (as id of the value table), persist flag, and
what the data file holds.  MV_DEVS: named deviations of the code as it is, as in part 1.
Part 3 (DataManager.tla with StopSeq = TRUE): saves issued DURING the clean shutdown of a BOOTED machine.  The data
managers are the ones MachineController.create_data_manager() returns for a real machine (machines/c15_mv; the last of
them is installed as the data manager of the machine variables), their writer threads run under the same cooperative
scheduler, and the machine is stopped by its own code: machine.stop() / the `quit` event, the real _run_loop() which
leaves the loop and calls _do_stop(), the `shutdown` event with handlers at several priorities (registered by the
driver; some also post an event whose handler does the work), shutdown().  The handlers execute their part of the
schedule: save_all() on a data manager, a write of a persistent machine variable, and steps of the writer threads (a
slow handler: the writers get to run between the stop request, the handlers and the final shutdown()).  Afterwards the
writers run to their end and the files must hold what was handed over last (DurableAfterShutdown); a writer that ends
while data is still being handed over is rejected by the model and explained by the deviation StopperSetEarly.
Part 4 (ProcessExit): REAL `mpf game` processes on a scratch copy of machines/c15_mv (config exit.yaml, custom code
custom_code/c15_exit.py; nothing patched, real threads, real time): the machine's code saves, requests the stop, saves
in a handler of the shutdown event, the process ends the way mpf ends (sys.exit()).  What the data file holds after the
process has ended is the observation; the steps of the writer thread are not observed (free traces).  The design
waits for the writers before the process ends; NoJoinBeforeExit names the behaviour of a process that does not.
"""
import builtins
import contextlib
import copy as _copy
import datetime
import decimal
import errno
import fractions
import io
import math
import os
import random
import re
import shutil
import subprocess
import sys
import threading
import types

from lib import tlc, harness
from lib.tlaval import to_tla

LEVEL = 'model_checking'
# BusyCheckThenAct: code as it is (known finding).  The other three were fixed in mpf and stay as regression deviations.
DEVS = ['BusyFlagLeaksOnError', 'FinalFlushUsesClearedCopy', 'StaleYamlEmitterAfterError', 'BusyCheckThenAct']
# deviations that only explain traces (schedules are not generated with them: a dead writer takes no more steps)
DEVS_ALL = DEVS + ['WriterDiesOnSaveError', 'WriterDiesOnCopyError', 'StopperSetEarly']
DEVS_EXIT = ['NoJoinBeforeExit']        # part 4 only: a free trace cannot tell the writer-internal deviations apart
PROP_OF = {'BusyFlagLeaksOnError': 'ErrorDoesNotWedge', 'FinalFlushUsesClearedCopy': 'DurableAfterShutdown',
           'StaleYamlEmitterAfterError': 'ErrorDoesNotWedge', 'BusyCheckThenAct': 'SingleWriter',
           'WriterDiesOnSaveError': 'ErrorDoesNotWedge', 'WriterDiesOnCopyError': 'ErrorDoesNotWedge',
           'StopperSetEarly': 'DurableAfterShutdown', 'NoJoinBeforeExit': 'DurableAfterShutdown'}
WHAT = {
    'BusyFlagLeaksOnError':
        'FileManager.save (mpf/core/file_manager.py) sets FileManager.is_busy = True and does not reset it when the '
        "interface's save or os.replace raises; afterwards every DataManager writer thread spins forever in "
        '`while FileManager.is_busy: time.sleep(0.2)`: no later save_all of ANY data manager is written and the '
        'writer threads never end',
    'FinalFlushUsesClearedCopy':
        'DataManager._writing_thread (mpf/core/data_manager.py) flushes at shutdown only `if data and '
        'self._dirty.is_set()`, but the local `data` is None before the first and after every completed save, so a '
        'save_all that lands while the writer is in time.sleep(min_wait_secs) (rate limit or start-up sleep) '
        'followed by shutdown is never written',
    'StaleYamlEmitterAfterError':
        'the module-level ruamel instance `_yaml` of mpf/file_interfaces/yaml_interface.py keeps the context manager '
        'and output stream of a dump that raised; every later YamlInterface.save (of any data manager) then raises '
        "ValueError('I/O operation on closed file.') right after truncating the temp file: one failed write stops all "
        'later saves for the rest of the process',
    'BusyCheckThenAct':
        'the single-writer flag is tested in DataManager._writing_thread (`while FileManager.is_busy`) but only set '
        'two steps later inside FileManager.save (after _dirty.clear() and deepcopy): two writer threads can both see '
        'it False and be inside FileManager.save at the same time (concurrent dumps through the shared ruamel '
        'instance raise EmitterError / write into the other file / crash the interpreter)',
    'WriterDiesOnSaveError':
        'a write that fails inside FileManager.save with an exception the handler around it in '
        'DataManager._writing_thread (mpf/core/data_manager.py) does not catch ends the writer thread: the data file '
        'keeps the earlier version, but every later save_all of that data manager is never written, not even at '
        'shutdown (the exception of the failing step is in `_exc` of the trace line that ends in `exited`)',
    'WriterDiesOnCopyError':
        '`data = copy.deepcopy(self.data)` in DataManager._writing_thread (mpf/core/data_manager.py) is outside the '
        'try block that guards FileManager.save: data that cannot be deep-copied (or any exception raised by the copy) '
        'ends the writer thread, and every later save_all of that data manager is never written, not even at shutdown',
    'StopperSetEarly':
        'during the clean shutdown of a machine (mpf/core/machine.py: stop / _run_loop / _do_stop / shutdown) '
        'machine.thread_stopper is set before the handlers of the `shutdown` event are done: a DataManager writer '
        'thread (mpf/core/data_manager.py _writing_thread) that gets to run meanwhile leaves its loop, tests the dirty '
        'flag once and ends; data handed to save_all() (or a persistent machine variable written) by a shutdown '
        'handler after that moment is never written although the shutdown was clean',
    'NoJoinBeforeExit':
        'the process ends without waiting for the DataManager writer threads: they are started with '
        '_thread.start_new_thread (mpf/core/data_manager.py DataManager.__init__), threads the interpreter does not wait '
        'for at exit; MachineController.shutdown() (mpf/core/machine.py) only sets thread_stopper and nothing joins the '
        'writers; `mpf game` returns from machine.run() and calls sys.exit() (mpf/commands/game.py Command.exit) about a '
        'millisecond later. A writer that is in time.sleep(min_wait_secs) at that moment (rate limit: the previous write '
        'was less than min_wait_secs ago; or the start-up delay) never gets to its final flush: data handed to save_all() '
        'shortly before or during the clean shutdown is not on disk after the process has ended',
}
SAVEPTS = ('saveOpen', 'saveWrite', 'saveClose', 'replace')
CS_POINTS = ('clearDirty', 'copy') + SAVEPTS
FAULTPTS = ('copy',) + SAVEPTS
STEP_TIMEOUT = 20

# ------------------------------------------------------------------------------------------------ value table
# every YAML-representable kind of value; each version adds a 'ver' key so that versions are pairwise different
VALUES = [
    {'a': 1, 'neg': -7, 'zero': 0, 'big': 2 ** 70},
    {'f': 1.5, 'small': 1e-7, 'large': 1e300, 'negz': -0.0, 'whole': 3.0, 'pinf': float('inf'), 'ninf': float('-inf')},
    {'x': float('nan')},
    {'t': True, 'f': False, 'n': None},
    {'s': 'hello world', 'e': '', 'u': 'héllo 世界 \U0001F3B1'},
    {'yes': 'yes', 'num': '123', 'null': 'null', 'flt': '1e3', 'colon': 'a: b', 'hash': 'x #y', 'lead': '  lead',
     'trail': 'trail  ', 'tilde': '~', 'true': 'True', 'octal': '0o17', 'date': '2020-01-01', 'dash': '- x',
     'q': "it's \"q\""},
    {'ml': 'line1\nline2\n', 'ml2': 'a\n\nb', 'tab': 'a\tb', 'cr': 'a\rb', 'nl_end': 'x\n', 'long': 'word ' * 60},
    {'l': [1, 'a', None, 2.5, [3, [4]]], 'el': [], 'ed': {}},
    {'a': {'b': {'c': {'d': [{'e': 1}, {'f': [1, 2]}]}}}},
    {1: 'int key', 'k': 2, True: 'bool key', 2.5: 'float key', None: 'none key'},
    {'d': datetime.date(2020, 2, 29), 'dt': datetime.datetime(2021, 3, 4, 5, 6, 7),
     'dtus': datetime.datetime(2021, 3, 4, 5, 6, 7, 123456)},
    {'b': b'\x00\x01\xffabc'},
    {'s': {1, 2, 3}},
    {'switches': {'s_left': 12, 's_right': 0}, 'events': {'game_started': 3},
     'player': {'score': {'top': [1000000, 500], 'average': 12345.678, 'total': 9}}},
    {'score': [['BRI', 7050550], ['GHK', 93060]], 'loops': [['JK', 42]]},
    {'credit_units': {'value': 6, 'expire': 1700003600.123456, 'expire_secs': 3600},
     'p1': {'value': 118208660, 'expire': None, 'expire_secs': None}},
    {'bell': 'a\x07b', 'nul': 'a\x00b', 'del': '\x7f', 'nel': 'a\x85b', 'ls': 'a\u2028b', 'bom': '\ufeffx'},
    {('k%d' % i): {'value': i, 'l': list(range(20))} for i in range(900)},     # > 16 kB: several write() calls
]


def strict_eq(a, b):
    """Equality that also compares types (True != 1, 1 != 1.0) and treats NaN as equal to NaN."""
    if type(a) is not type(b):
        return False
    if isinstance(a, dict):
        if len(a) != len(b):
            return False
        for k, v in a.items():
            hit = [k2 for k2 in b if type(k2) is type(k) and (k2 == k or (k2 != k2 and k != k))]
            if len(hit) != 1 or not strict_eq(v, b[hit[0]]):
                return False
        return True
    if isinstance(a, (list, tuple)):
        return len(a) == len(b) and all(strict_eq(x, y) for x, y in zip(a, b))
    if isinstance(a, float) and math.isnan(a):
        return math.isnan(b)
    return a == b


# ------------------------------------------------------------------------------------------- ways to fail
class _Opaque:
    """An object of a class nobody registered a YAML representer for."""


def _gen():
    yield 1


# values the safe dumper cannot represent (they can be deep-copied)
NOREPR = [lambda: decimal.Decimal('1.5'), lambda: fractions.Fraction(1, 3), lambda: 2 + 1j, _Opaque,
          lambda: frozenset([1, 2]), lambda: range(3), lambda: len, lambda: bytearray(b'ab'), lambda: decimal.Decimal]
# values copy.deepcopy cannot copy (the dumper could not represent them either)
NOCOPY = [threading.Lock, _gen, threading.RLock]


def plant(val, bad, where):
    """Put the bad element somewhere into the (good) value."""
    w = where % 5
    if w == 0:
        val['bad'] = bad
    elif w == 1:
        val['zz_nested'] = {'l': [1, {'deep': [bad]}]}
    elif w == 2:
        val['bad_list'] = [1, 'a', bad]
    elif w == 3:                        # at the very end of a document of several write() calls
        val.update({('k%03d' % i): list(range(20)) for i in range(400)})
        val['zzzz'] = bad
    else:
        try:
            val[bad] = 'bad key'
        except TypeError:               # unhashable
            val['bad'] = bad
    return val


def _ruamel_error(msg):
    from ruamel.yaml.error import YAMLError
    return YAMLError(msg)


# injected faults: every class of 'io' is an OSError, no class of 'exc' is
IO_FAULTS = [lambda w: OSError(errno.ENOSPC, 'injected: no space left on device (%s)' % w),
             lambda w: OSError(errno.EIO, 'injected: I/O error (%s)' % w),
             lambda w: PermissionError(errno.EACCES, 'injected: permission denied (%s)' % w),
             lambda w: FileNotFoundError(errno.ENOENT, 'injected: no such file or directory (%s)' % w),
             lambda w: TimeoutError(errno.ETIMEDOUT, 'injected: timed out (%s)' % w),
             lambda w: OSError(errno.EROFS, 'injected: read-only file system (%s)' % w)]
EXC_FAULTS = [lambda w: ValueError('I/O operation on closed file. (injected, %s)' % w),
              lambda w: _ruamel_error('injected dumper error (%s)' % w),
              lambda w: TypeError('injected (%s)' % w),
              lambda w: RuntimeError('injected (%s)' % w),
              lambda w: UnicodeEncodeError('utf-8', 'x\udc80', 1, 2, 'surrogates not allowed (injected, %s)' % w),
              lambda w: AttributeError('injected (%s)' % w),
              lambda w: RecursionError('injected (%s)' % w),
              lambda w: MemoryError('injected (%s)' % w),
              lambda w: LookupError('injected (%s)' % w),
              lambda w: KeyError('injected (%s)' % w),
              lambda w: AssertionError('injected (%s)' % w)]


def _fail(c, kind, where):
    """Raise the injected fault of this kind (the class is picked by the driver in c.sel)."""
    table = IO_FAULTS if kind == 'io' else EXC_FAULTS
    ex = table[c.sel % len(table)](where)
    assert isinstance(ex, OSError) == (kind == 'io')
    raise ex


# ------------------------------------------------------------------------------------- cooperative scheduler
class _Killed(BaseException):
    """Raised inside a writer thread when the simulated process dies."""


_TLS = threading.local()
_CUR = {}


def _ctl():
    return getattr(_TLS, 'ctl', None)


class Ctl:
    """Hand-off between the driver and one writer thread."""

    def __init__(self, idx):
        self.idx = idx
        self.go = threading.Semaphore(0)
        self.at = threading.Semaphore(0)
        self.point = 'new'
        self.fault = ''            # '' | 'io' | 'exc': what the next released step has to raise
        self.sel = 0               # which class of that kind
        self.dead = False
        self.slept = False
        self.exc = None
        self.thread = None

    # --- writer thread side
    def arrive(self, point):
        self.point = point
        self.at.release()
        self.go.acquire()
        if self.dead:
            raise _Killed()
        f, self.fault = self.fault, ''
        return f

    # --- driver side
    def wait_arrival(self):
        return self.at.acquire(timeout=STEP_TIMEOUT)

    def release(self, fault='', sel=0):
        self.fault = fault
        self.sel = sel
        self.go.release()
        if not self.at.acquire(timeout=STEP_TIMEOUT):
            return 'hung'
        return self.point

    def kill(self):
        if self.point in ('exited', 'hung'):
            return
        self.dead = True
        self.go.release()
        self.at.acquire(timeout=STEP_TIMEOUT)


def _runner(ctl, fn, args):
    _TLS.ctl = ctl
    try:
        fn(*args)
    except _Killed:
        pass
    except BaseException as ex:  # pylint: disable=broad-except
        ctl.exc = repr(ex)[:200]
    finally:
        _TLS.ctl = None
        ctl.point = 'exited'
        ctl.at.release()


def _start_new_thread(fn, args=(), kwargs=None):
    ctl = _CUR.pop('next')
    t = threading.Thread(target=_runner, args=(ctl, fn, args), daemon=True)
    ctl.thread = t
    t.start()
    return t.ident


class CoopThread:
    """threading.Thread as the data manager module may use it for its writer (instead of _thread.start_new_thread):
    start() hands the thread to the scheduler; join() called by the main thread runs that writer, step by logged step,
    to its end (nobody else could release it)."""

    def __init__(self, group=None, target=None, name=None, args=(), kwargs=None, *, daemon=None):
        del group
        self._target, self._args, self._kwargs = target, tuple(args), dict(kwargs or {})
        self.name = name or 'writer'
        self.daemon = bool(daemon)
        self.ident = None
        self._ctl = None

    def start(self):
        self._ctl = _CUR.get('next')
        if self._kwargs:
            target, kwargs = self._target, self._kwargs
            self.ident = _start_new_thread(lambda *a: target(*a, **kwargs), self._args)
        else:
            self.ident = _start_new_thread(self._target, self._args)

    def is_alive(self):
        return self._ctl is not None and self._ctl.point not in ('exited', 'hung')

    def join(self, timeout=None):
        del timeout
        w = _CUR.get('world')
        if self._ctl is None or _ctl() is not None or w is None:
            return
        w.joined(self._ctl)


def _sleep(secs):
    c = _ctl()
    if c is None or secs < 0.5:      # the 0.2 s pause between two polls of the busy flag: the poll is the point
        return
    first, c.slept = not c.slept, True
    c.arrive('initSleep' if first else 'rateSleep')


class CoopEvent:
    """threading.Event whose wait() / clear() are scheduling points of the writer thread."""

    def __init__(self):
        self._flag = False

    def set(self):
        self._flag = True

    def is_set(self):
        return self._flag

    def clear(self):
        c = _ctl()
        if c is not None:
            c.arrive('clearDirty')
        self._flag = False

    def wait(self, timeout=None):
        c = _ctl()
        if c is not None:
            c.arrive('waitDirty')
        return self._flag


def _deepcopy(x, *a):
    c = _ctl()
    if c is not None:
        f = c.arrive('copy')
        if f:
            _fail(c, f, 'deepcopy')
    return _copy.deepcopy(x, *a)


class CoopFile:
    """The temp file as YamlInterface.save sees it: the first write() is split into two halves."""

    def __init__(self, f, ctl):
        self._f = f
        self._c = ctl
        self._state = 0

    def write(self, data):
        c = _ctl()
        if self._f.closed or c is None:
            return self._f.write(data)      # a closed file raises ValueError, as the real one does
        if self._state == 0:
            f = c.arrive('saveWrite')
            if f:
                _fail(c, f, 'write')
            half = len(data) // 2
            self._f.write(data[:half])
            self._f.flush()
            self._state = 1
            f = c.arrive('saveClose')
            if f:
                _fail(c, f, 'write rest')
            self._f.write(data[half:])
            self._f.flush()
            self._state = 2
            return len(data)
        return self._f.write(data)

    def __enter__(self):
        return self

    def __exit__(self, *a):
        self._f.close()
        return False

    def __getattr__(self, k):
        return getattr(self._f, k)


def _open(file, mode='r', *a, **kw):
    c = _ctl()
    if c is not None and 'w' in mode:
        f = c.arrive('saveOpen')
        if f:
            _fail(c, f, 'open')
        return CoopFile(builtins.open(file, mode, *a, **kw), c)
    return builtins.open(file, mode, *a, **kw)


class OsProxy:
    def __getattr__(self, k):
        return getattr(os, k)

    @staticmethod
    def replace(a, b):
        c = _ctl()
        f = c.arrive('replace') if c is not None else ''
        if f:
            _fail(c, f, 'replace')
        return os.replace(a, b)


def _fresh_yaml():
    from ruamel import yaml
    y = yaml.YAML(typ='safe')
    y.default_flow_style = False
    return y


class Patched:
    """Install the scheduling points into the three mpf modules for the duration of one execution."""

    def __enter__(self):
        import mpf.core.data_manager as dmmod
        import mpf.core.file_manager as fmmod
        import mpf.file_interfaces.yaml_interface as yimod
        real_fm = fmmod.FileManager

        class FMProxy:
            @property
            def is_busy(self):
                c = _ctl()
                if c is not None:
                    c.arrive('waitBusy')
                return real_fm.is_busy

            @is_busy.setter
            def is_busy(self, v):
                real_fm.is_busy = v
            save = staticmethod(real_fm.save)
            load = staticmethod(real_fm.load)

        self.mods = (dmmod, fmmod, yimod)
        self.saved = (dmmod.time, dmmod._thread, dmmod.threading, dmmod.copy, dmmod.FileManager, fmmod.os,
                      yimod.__dict__.get('open'), yimod.YamlInterface.cache, yimod._yaml)
        dmmod.time = types.SimpleNamespace(sleep=_sleep)
        dmmod._thread = types.SimpleNamespace(start_new_thread=_start_new_thread)
        dmmod.threading = types.SimpleNamespace(Event=CoopEvent, Thread=CoopThread, current_thread=threading.current_thread,
                                                main_thread=threading.main_thread)
        dmmod.copy = types.SimpleNamespace(copy=_copy.copy, deepcopy=_deepcopy)
        dmmod.FileManager = FMProxy()
        fmmod.os = OsProxy()
        yimod.open = _open
        yimod.YamlInterface.cache = False
        yimod._yaml = _fresh_yaml()
        real_fm.is_busy = False
        return self

    def __exit__(self, *a):
        dmmod, fmmod, yimod = self.mods
        (dmmod.time, dmmod._thread, dmmod.threading, dmmod.copy, dmmod.FileManager, fmmod.os, o, cache, y) = self.saved
        if o is None:
            yimod.__dict__.pop('open', None)
        else:
            yimod.open = o
        yimod.YamlInterface.cache = cache
        yimod._yaml = y
        fmmod.FileManager.is_busy = False
        return False


class StubMachine:
    """What DataManager.__init__ and _writing_thread need from the machine controller."""

    def __init__(self, path, nm):
        self.machine_path = path
        self.thread_stopper = threading.Event()
        self.options = {'production': False}
        self.config = {'mpf': {'paths': {'dm%d' % i: 'data/dm%d.yaml' % i for i in range(1, nm + 1)}},
                       'logging': {'console': {'data_manager': 'none'}, 'file': {'data_manager': 'none'}}}


class World:
    """One process image: nm data managers with their writer threads on one data directory."""

    def __init__(self, root, nm, salt):
        self.root = root
        self.nm = nm
        self.salt = salt
        self.gen = 0
        self.dir = os.path.join(root, 'p0')
        os.makedirs(self.dir)
        self.versions = {i: {} for i in range(1, nm + 1)}
        self.nsaves = 0
        self.nfaults = 0
        self.ev = []
        self.aborted = False
        self.notes = []
        self._seen = {}
        _CUR['world'] = self
        self.start()

    def joined(self, c):
        """The code under test joins writer c (main thread): run it to its end."""
        self.notes.append('writer joined by the code under test')
        self.on_join()
        for _ in range(60):
            if c.point in ('exited', 'hung') or self.aborted:
                return
            if c.point == 'waitBusy':
                for o in self.alive():          # the holder of the busy flag has to get out of the way
                    if o != c.idx and self.ctl[o].point in CS_POINTS:
                        self.step(o)
            self.step(c.idx)

    def on_join(self):
        pass

    def start(self):
        from mpf.core.data_manager import DataManager
        self.phase = 'run'                     # where the main thread is in the stop sequence (driver's own book-keeping)
        self.machine = StubMachine(self.dir, self.nm)
        self.dm = {}
        self.ctl = {}
        for i in range(1, self.nm + 1):
            c = Ctl(i)
            _CUR['next'] = c
            self.dm[i] = DataManager(self.machine, 'dm%d' % i, min_wait_secs=1)
            self.ctl[i] = c
            if not c.wait_arrival():
                raise RuntimeError('writer thread %d did not reach its first blocking point' % i)

    def path(self, i, d=None):
        return os.path.join(d or self.dir, 'data', 'dm%d.yaml' % i)

    def lookup(self, i, got):
        for vid, val in self.versions[i].items():
            if strict_eq(val, got):
                return vid
        return -1

    def ver_on_disk(self, i):
        from mpf.core.file_manager import FileManager
        p = self.path(i)
        if not os.path.isfile(p):
            return 0
        st = os.stat(p)
        key = (p, st.st_ino, st.st_mtime_ns, st.st_size)
        if self._seen.get(i, (None, None))[0] != key:       # parse again only when the file has changed
            try:
                got = FileManager.load(p, halt_on_error=True)
                self._seen[i] = (key, self.lookup(i, got))
            except Exception:  # pylint: disable=broad-except
                self._seen[i] = (key, -1)
        return self._seen[i][1]

    def disk(self):
        return [self.ver_on_disk(i) for i in range(1, self.nm + 1)]

    def tmpstate(self):
        out = []
        for i in range(1, self.nm + 1):
            p = os.path.join(self.dir, 'data', '_dm%d.yaml' % i)
            out.append(os.path.getsize(p) if os.path.isfile(p) else -1)
        return out

    def stopped(self):
        return self.phase == 'stopped'

    # ---- main
    def save(self, i, k='ok', x=None):
        if self.stopped():
            return
        self.nsaves += 1
        v = self.nsaves
        val = _copy.deepcopy(VALUES[(v * 5 + i * 3 + self.salt) % len(VALUES)])
        val['ver'] = v
        line = {'op': 'save', 'i': i, 'v': v, 'k': k}
        if k == 'ok':
            self.versions[i][v] = _copy.deepcopy(val)
        else:                                # a version that can never be on disk
            table = NOREPR if k == 'norepr' else NOCOPY
            n = (self.salt + v) if x is None else x
            bad = table[n % len(table)]()
            plant(val, bad, n // len(table))
            line['_bad'] = '%s at %d' % (type(bad).__name__, (n // len(table)) % 5)
        self.hand_over(i, v, val, line)
        line['disk'] = self.disk()
        self.ev.append(line)

    def hand_over(self, i, v, val, line):
        del v, line
        self.dm[i].save_all(val)

    def shutdown(self):
        if self.stopped():
            return
        self.machine.thread_stopper.set()
        self.phase = 'stopped'
        self.ev.append({'op': 'shutdown', 'disk': self.disk()})

    def do(self, s):
        """Execute one step of a schedule."""
        if self.aborted:
            return
        op = s['op']
        if op == 'save':
            self.save(s['i'], s.get('k', 'ok'), s.get('x'))
        elif op == 'shutdown':
            self.shutdown()
        elif op == 'crash':
            self.crash()
        elif op == 'unwedge':
            self.unwedge()
        elif op == 'w':
            self.step(s['i'], s.get('fault', 'none'), s.get('x'))
        elif op == 'run':            # hand-written schedules: step writer i until it is at a point
            self.run_until(s['i'], s['until'])
        elif op == 'settle':
            self.settle()

    def play(self, sched):
        for s in sched:
            self.do(s)

    def unwedge(self):
        from mpf.core.file_manager import FileManager
        if FileManager.is_busy and not any(c.point in ('clearDirty', 'copy') + SAVEPTS for c in self.ctl.values()):
            FileManager.is_busy = False
            self.ev.append({'op': 'unwedge'})

    def crash(self):
        import mpf.file_interfaces.yaml_interface as yimod
        from mpf.core.file_manager import FileManager
        self.gen += 1
        new = os.path.join(self.root, 'p%d' % self.gen)
        shutil.copytree(self.dir, new)         # the disk at the instant of the crash
        at = {i: c.point for i, c in self.ctl.items()}
        for c in self.ctl.values():
            c.kill()
        FileManager.is_busy = False            # a new process
        yimod._yaml = _fresh_yaml()
        self.dir = new
        self.start()                           # the real loader (DataManager._load) reads the surviving files
        loaded = []
        for i in range(1, self.nm + 1):
            d = self.dm[i].data
            if not os.path.isfile(self.path(i)):
                loaded.append(0 if d == {} else -1)
            else:
                loaded.append(self.lookup(i, d))
        self.ev.append({'op': 'crash', 'loaded': loaded, '_at': at, '_tmp': self.tmpstate()})

    # ---- writers
    def step(self, i, fault='none', x=None):
        c = self.ctl[i]
        p = c.point
        if p in ('exited', 'hung') or self.aborted:
            return None
        if p == 'saveOpen' and any(o.point in ('saveWrite', 'saveClose') for o in self.ctl.values() if o is not c):
            # never re-enter the shared ruamel instance from two threads (it can crash the interpreter); two
            # writers inside FileManager.save are already visible in the trace at this point
            self.notes.append('dump overlap avoided')
            return None
        f = fault if fault in ('io', 'exc') and p in FAULTPTS else 'none'
        if f != 'none':
            self.nfaults += 1
            np = c.release(f, (self.salt + self.nfaults) if x is None else x)
        else:
            np = c.release()
        line = {'op': 'w', 'i': i, 'pc': p, 'fault': f, 'npc': np, 'disk': self.disk(), '_tmp': self.tmpstate()}
        if c.exc:
            line['_exc'] = c.exc
        self.ev.append(line)
        if np == 'hung':
            self.aborted = True
        return np

    def run_until(self, i, target, limit=24):
        for _ in range(limit):
            if self.ctl[i].point in (target, 'exited', 'hung'):
                return
            if self.step(i) is None:
                return

    def alive(self):
        return [i for i, c in sorted(self.ctl.items()) if c.point not in ('exited', 'hung')]

    def fair_round(self):
        """Step every live writer once; returns False if nobody moved (all poll / wait in vain)."""
        moved = False
        for i in self.alive():
            c = self.ctl[i]
            if c.point == 'waitBusy' and any(o.point in ('clearDirty', 'copy') for o in self.ctl.values() if o is not c):
                continue      # the harness itself does not poll inside another writer's check-then-act window
            p = c.point
            np = self.step(i)
            moved = moved or (np is not None and np != p)
        return moved

    def settle(self, rounds=40):
        """Run the writers fairly until all of them wait for new work (or nothing moves any more)."""
        idle = 0
        for _ in range(rounds):
            if self.aborted or all(self.ctl[i].point == 'waitDirty' and not self.dm[i]._dirty.is_set() for i in self.alive()):
                return
            idle = 0 if self.fair_round() else idle + 1
            if idle >= 3:
                return

    def finish(self, rounds=40):
        self.shutdown()
        idle = 0
        for _ in range(rounds):
            if self.aborted or not self.alive():
                break
            idle = 0 if self.fair_round() else idle + 1
            if idle >= 3:
                break           # wedged: the writers only poll the busy flag
        self.ev.append({'op': 'end', 'exited': [self.ctl[i].point == 'exited' for i in range(1, self.nm + 1)],
                        'disk': self.disk()})

    def close(self):
        for c in self.ctl.values():
            c.kill()
        _CUR.pop('world', None)


class MachineWorld(World):
    """Part 3: nm real data managers of a BOOTED machine (MachineController.create_data_manager); the last one is
    installed as the data manager of the machine variables.  The machine is stopped by its own stop sequence."""

    MV_NAME = 'c15_last'

    def __init__(self, root, nm, salt, h):
        self.h = h
        self.segs = []
        self.ncalled = 0
        self.hooked = False
        super().__init__(root, nm, salt)

    def start(self):
        from mpf.core.machine import MachineController
        self.phase = 'run'
        m = self.machine = self.h.machine
        self.dm = {}
        self.ctl = {}
        for i in range(1, self.nm + 1):
            m.config['mpf']['paths']['dm%d' % i] = self.path(i)        # an absolute path, as a machine config may give
            c = Ctl(i)
            _CUR['next'] = c
            self.dm[i] = MachineController.create_data_manager(m, 'dm%d' % i)       # the real one, not the test double
            self.ctl[i] = c
            if type(self.dm[i]).__name__ != 'DataManager' or not c.wait_arrival():
                raise RuntimeError('writer thread %d did not reach its first blocking point' % i)
        m.variables.machine_var_data_manager = self.dm[self.nm]
        m.variables.configure_machine_var(name=self.MV_NAME, persist=True)

    def hand_over(self, i, v, val, line):
        if i != self.nm or line['k'] != 'ok':
            self.dm[i].save_all(val)
            return
        # a persistent machine variable is written: MachineVariables hands the dict of all persistent variables over
        value = (1000 + v, 'v%d' % v, v + 0.5)[(v + self.salt) % 3]
        self.machine.variables.set_machine_var(self.MV_NAME, value)
        self.versions[i][v] = _copy.deepcopy(self.dm[i].data)
        line['_via'] = 'set_machine_var(%s, %r)' % (self.MV_NAME, value)
        if self.phase == 'run':
            self.h.advance_time_and_run(0)

    def crash(self):
        self.notes.append('crash not executed on a booted machine')

    def on_join(self):
        # shutdown() joins its writers after it has set the stopper: that is the `stopped` line
        if self.phase == 'handlers' and self.machine.thread_stopper.is_set() and not self.segs:
            self._stopped_line()

    def _stopped_line(self):
        m = self.machine
        self.phase = 'stopped'
        self.ev.append({'op': 'stopped', 'disk': self.disk(), '_stopper': m.thread_stopper.is_set(),
                        '_handlers_called': self.ncalled, '_not_called': len(self.segs)})

    def shutdown(self):
        self.dostop([])

    def stop(self):
        """The stop request: machine.stop(), directly or as the handler of the `quit` event."""
        if self.phase != 'run':
            return
        m = self.machine
        if self.salt % 2:
            m.stop()
            how = 'machine.stop()'
        else:
            m.events.post('quit')
            m.events.process_event_queue()
            how = 'event quit'
        self.phase = 'stopreq'
        self.ev.append({'op': 'stop', 'disk': self.disk(), '_how': how})

    def _segment(self, **kwargs):
        """Called by the event manager while the `shutdown` event is processed: the next part of the schedule."""
        del kwargs
        if not self.segs:
            return
        marked, ops = self.segs.pop(0)
        self.ncalled += 1
        try:
            if marked:
                self.ev.append({'op': 'h', 'disk': self.disk(), '_stopper': self.machine.thread_stopper.is_set()})
            self.play(ops)
        except Exception as ex:  # pylint: disable=broad-except
            self.ev.append({'op': 'harness-crash', 'what': 'in a shutdown handler: ' + repr(ex)[:300]})
            self.aborted = True

    def _register(self, n):
        """n handler invocations: handlers of `shutdown` at different (and equal) priorities, every third one posts an
        event from its shutdown handler and does the work in the handler of that event."""
        ev = self.machine.events
        for j in range(n):
            prio = 1000000 if j == 0 else (1, 50, 1, 1000, -5)[(j + self.salt) % 5]
            if j and (j + self.salt) % 3 == 0:
                name = 'c15_shutdown_chain_%d' % j

                def chain(_name=name, **kwargs):
                    del kwargs
                    ev.post(_name)
                ev.add_handler('shutdown', chain, priority=prio)
                ev.add_handler(name, lambda **kwargs: self._segment(**kwargs))
            else:
                ev.add_handler('shutdown', lambda **kwargs: self._segment(**kwargs), priority=prio)

    def dostop(self, segs):
        """The clean shutdown by the machine's own code; segs = [(marked, ops)]: what the handlers do, in the order they
        get called."""
        if self.phase in ('handlers', 'stopped'):
            return
        m = self.machine
        self.segs = list(segs)
        self._register(len(self.segs))
        real = m._do_stop

        def entered():           # call-through: only logs that _do_stop() was entered
            self.phase = 'handlers'
            self.ev.append({'op': 'dostop', 'disk': self.disk(), '_stopper': m.thread_stopper.is_set()})
            real()
        m._do_stop = entered
        try:
            with contextlib.redirect_stdout(io.StringIO()):
                if self.phase == 'stopreq':
                    m._run_loop()          # the real main loop: ends because of the stop request, then _do_stop()
                else:
                    m._do_stop()           # as _crash_shutdown() and the test cases of mpf do
        finally:
            m._do_stop = lambda: None      # for the tearDown of the harness
        if self.phase == 'handlers':
            self._stopped_line()
        elif self.phase != 'stopped':
            raise RuntimeError('the stop sequence did not enter _do_stop()')

    def do(self, s):
        op = s['op']
        if op == 'stop':
            self.stop()
        elif op in ('dostop', 'h', 'stopped'):
            pass                    # structure of the stop sequence: see play()
        else:
            super().do(s)

    def play(self, sched):
        """Everything between `dostop` and `stopped` is executed from inside the handlers of the shutdown event."""
        sched = list(sched)
        for k, s in enumerate(sched):
            if s['op'] == 'dostop' and self.phase in ('run', 'stopreq') and not self.aborted:
                rest = sched[k + 1:]
                end = next((n for n, x in enumerate(rest) if x['op'] == 'stopped'), len(rest))
                segs = [(False, [])]
                for x in rest[:end]:
                    if x['op'] == 'h':
                        segs.append((True, []))
                    else:
                        segs[-1][1].append(x)
                self.dostop(segs)
                super().play(rest[end:])
                return
            self.do(s)

    def close(self):
        super().close()
        if self.phase != 'stopped':
            self.machine._do_stop = lambda: None
            try:
                self.machine.shutdown()
            except Exception:  # pylint: disable=broad-except
                pass
        harness.shutdown(self.h)


def run_job(job):
    """Execute one schedule on the real code; returns the trace."""
    root = os.path.join(job['scratch'], 'dm_%d_%d' % (os.getpid(), job['id']))
    shutil.rmtree(root, ignore_errors=True)
    os.makedirs(root)
    w = h = None
    try:
        h = harness.boot(MV_MACHINE) if job.get('world') == 'machine' else None
        with Patched():
            w = MachineWorld(root, job['nm'], job['salt'], h) if h else World(root, job['nm'], job['salt'])
            try:
                w.play(job['sched'])
                if job.get('settle') and not w.stopped():
                    w.settle()
                w.finish()
            finally:
                w.close()
        return {'ev': w.ev, '_job': job['id'], '_notes': sorted(set(w.notes))}
    except Exception as ex:  # pylint: disable=broad-except
        import traceback
        ev = (w.ev if w else []) + [{'op': 'harness-crash', 'what': repr(ex)[:300]}]
        if h is not None and w is None:
            harness.shutdown(h)
        return {'ev': ev, '_job': job['id'], '_tb': traceback.format_exc()[-2000:]}
    finally:
        shutil.rmtree(root, ignore_errors=True)


# ------------------------------------------------------------------------------------------ hand-made schedules
def handmade():
    S = lambda i, k='ok', x=None: {'op': 'save', 'i': i, 'k': k, 'x': x}
    W = lambda i, f='none', x=None: {'op': 'w', 'i': i, 'fault': f, 'x': x}
    R = lambda i, p: {'op': 'run', 'i': i, 'until': p}
    SD, CR, UW, ST = {'op': 'shutdown'}, {'op': 'crash'}, {'op': 'unwedge'}, {'op': 'settle'}
    hs = []
    # (2) a save_all inside the rate-limit sleep right before shutdown / inside the start-up sleep
    hs.append(('flush-rate-sleep', [W(1), S(1), R(1, 'rateSleep'), S(1), SD], False))
    hs.append(('flush-init-sleep', [S(1), SD], False))
    hs.append(('flush-both', [W(1), W(2), S(1), S(2), R(1, 'rateSleep'), R(2, 'rateSleep'), S(2), S(1), SD], False))
    # (1) one failed write at each of the four steps, then a later save_all of either manager
    for p in SAVEPTS:
        hs.append(('error-%s-then-save' % p, [W(1), W(2), S(1), R(1, p), W(1, 'io'), S(1), S(2), ST], False))
    # (3) look behind the leaked flag: is the next save written?
    for p in ('saveWrite', 'saveClose'):
        hs.append(('error-%s-unwedge-save' % p, [W(1), W(2), S(1), R(1, p), W(1, 'io'), UW, S(2), ST, UW, S(1), ST, UW, ST], False))
    hs.append(('error-saveOpen-unwedge-save', [W(1), W(2), S(1), R(1, 'saveOpen'), W(1, 'io'), UW, S(1), S(2), ST, UW, ST], False))
    # (4) two dirty managers woken at the same time
    hs.append(('two-writers', [W(1), W(2), S(1), S(2), R(1, 'clearDirty'), R(2, 'clearDirty'), R(1, 'saveOpen'), R(2, 'saveOpen'),
                               R(1, 'rateSleep'), R(2, 'rateSleep')], True))
    # crash at every point of a save that replaces an existing version; afterwards the new process keeps working
    for k in range(0, 10):
        hs.append(('crash-at-%d' % k, [W(1), W(2), S(1), S(2), ST, S(1)] + [W(1)] * k + [CR, W(1), W(2), S(1), S(2), ST], True))
    # seeded (a): a save_all while the previous version is being written must not be lost
    for p in ('copy', 'saveOpen', 'saveWrite', 'saveClose', 'replace'):
        hs.append(('save-during-%s' % p, [W(1), S(1), R(1, p), S(1), ST], True))
    # seeded (b): a failed write must leave the good file alone
    for p in SAVEPTS:
        hs.append(('error-%s-keeps-file' % p, [W(1), S(1), ST, S(1), R(1, p), W(1, 'io'), CR, ST], True))
    # every kind of failed write, then later good saves of both managers: they have to reach the disk
    # (a) data that cannot be written: every unrepresentable / uncopyable value at every place in the data
    for k, table in (('norepr', NOREPR), ('nocopy', NOCOPY)):
        for x in range(len(table) * 5):
            hs.append(('%s-%d-then-save' % (k, x), [W(1), W(2), S(1), ST, S(1, k, x), ST, S(1), S(2), ST], True))
        hs.append(('%s-first-then-save' % k, [W(1), S(1, k), ST, S(1), ST], True))
        hs.append(('%s-then-crash' % k, [W(1), W(2), S(1), ST, S(1, k), ST, CR, W(1), S(1), ST], True))
        hs.append(('%s-overtaken-by-good-save' % k, [W(1), S(1, k), R(1, 'copy'), S(1), ST], True))
        hs.append(('%s-in-final-flush' % k, [W(1), S(1), R(1, 'rateSleep'), S(1, k), SD], False))
        hs.append(('%s-then-save-in-rate-sleep-then-shutdown' % k, [W(1), S(1, k), R(1, 'rateSleep'), S(1), SD], False))
    # (b) every class of injected fault at every step of a save (and at the copy before it)
    for kind, table in (('io', IO_FAULTS), ('exc', EXC_FAULTS)):
        for x in range(len(table)):
            p = FAULTPTS[x % len(FAULTPTS)]
            hs.append(('%s-class%d-at-%s-then-save' % (kind, x, p),
                       [W(1), W(2), S(1), ST, S(1), R(1, p), W(1, kind, x), ST, S(1), S(2), ST], True))
    for p in FAULTPTS:
        hs.append(('exc-at-%s-then-save' % p, [W(1), W(2), S(1), ST, S(1), R(1, p), W(1, 'exc'), ST, S(1), S(2), ST], True))
        hs.append(('exc-at-%s-keeps-file' % p, [W(1), S(1), ST, S(1), R(1, p), W(1, 'exc'), CR, ST], True))
        hs.append(('exc-at-%s-in-final-flush' % p, [W(1), S(1), R(1, 'rateSleep'), S(1), SD, R(1, p), W(1, 'exc')], False))
    return hs


def handmade_machine():
    """Part 3: saves while the machine shuts down.  Manager 1 is a data manager code saves to with save_all(), manager
    2 is the one of the machine variables (a save is a write of a persistent machine variable).  STOP = stop request,
    DS = _do_stop() begins, H = the next handler of the shutdown event begins, END = _do_stop() has returned."""
    S = lambda i: {'op': 'save', 'i': i, 'k': 'ok', 'x': None}
    W = lambda i, f='none', x=None: {'op': 'w', 'i': i, 'fault': f, 'x': x}
    R = lambda i, p: {'op': 'run', 'i': i, 'until': p}
    ST, STOP, DS, H, END = {'op': 'settle'}, {'op': 'stop'}, {'op': 'dostop'}, {'op': 'h'}, {'op': 'stopped'}
    hs = []
    for i, n in ((1, 'save_all'), (2, 'machine-var')):
        o = 3 - i
        # the plain stop sequence, nothing saved meanwhile
        hs.append(('stop-plain-%s' % n, [W(1), W(2), S(i), DS, END]))
        # a handler saves, the writers do not get to run before the handlers are done
        hs.append(('stop-handler-saves-%s' % n, [W(1), W(2), S(i), ST, DS, H, S(i), END]))
        # a slow handler (the writers run meanwhile), then the final data is saved: by the same handler / by a later one
        hs.append(('stop-slow-handler-then-save-%s' % n, [W(1), W(2), S(i), ST, DS, H, W(i), W(o), W(i), W(o), S(i), END]))
        hs.append(('stop-slow-handler-save-in-next-%s' % n, [W(1), W(2), S(i), ST, DS, H, W(i), W(i), W(o), H, S(i), END]))
        hs.append(('stop-slow-handler-first-save-ever-%s' % n, [W(1), W(2), DS, H, W(i), W(i), H, S(i), END]))
        # the writers get to run right after _do_stop() has begun, before the first handler
        hs.append(('stop-writer-runs-first-%s' % n, [W(1), W(2), S(i), ST, DS, W(i), W(i), H, S(i), H, W(i), S(i), END]))
        # the writer is in its start-up sleep / in the rate-limit sleep / busy writing when the handlers run
        hs.append(('stop-in-init-sleep-%s' % n, [S(i), DS, H, W(i), S(i), H, W(i), W(i), END]))
        hs.append(('stop-in-init-sleep-nothing-saved-before-%s' % n, [DS, H, W(i), W(o), H, S(i), END]))
        hs.append(('stop-in-rate-sleep-%s' % n, [W(1), W(2), S(i), R(i, 'rateSleep'), DS, H, W(i), S(i), H, W(i), W(i), END]))
        hs.append(('stop-in-rate-sleep-save-before-%s' % n, [W(1), W(2), S(i), R(i, 'rateSleep'), S(i), DS, H, W(i), W(i), S(i), END]))
        for p in ('copy', 'saveWrite', 'replace'):
            hs.append(('stop-during-%s-%s' % (p, n), [W(1), W(2), S(i), R(i, p), DS, H, S(i), W(i), W(i), H, W(i), W(i), W(i),
                                                    S(i), END]))
        # several handlers, each saves, the writers run in between
        hs.append(('stop-handlers-save-in-turn-%s' % n, [W(1), W(2), S(1), S(2), ST, DS, H, S(i), W(i), W(i), H, S(o), W(o), W(i),
                                                        W(i), H, S(i), S(o), H, W(1), W(2), END]))
        hs.append(('stop-five-handlers-%s' % n, [W(1), W(2), S(i), ST, DS] + [H, W(i), W(o), S(i)] * 5 + [END]))
        # saves racing with the stop request
        hs.append(('stop-request-then-save-%s' % n, [W(1), W(2), S(i), ST, STOP, S(i), DS, END]))
        hs.append(('stop-request-writer-runs-then-save-%s' % n, [W(1), W(2), S(i), ST, STOP, W(i), W(i), S(i), W(i), DS, H, W(i),
                                                                S(i), END]))
        hs.append(('stop-request-in-init-sleep-%s' % n, [STOP, S(i), W(i), DS, H, S(i), END]))
        hs.append(('stop-request-save-stop-save-%s' % n, [W(1), W(2), S(i), STOP, S(o), W(o), W(i), DS, H, W(o), W(i), S(o),
                                                         H, S(i), END]))
        # a failed write in the final flush after handlers saved; a failed write while the handlers run
        hs.append(('stop-handler-saves-flush-fails-%s' % n, [W(1), W(2), S(i), ST, DS, H, S(i), END, R(i, 'saveWrite'), W(i, 'io')]))
        hs.append(('stop-write-fails-in-handler-%s' % n, [W(1), W(2), S(i), ST, DS, H, S(i), R(i, 'saveOpen'), W(i, 'exc'),
                                                         H, S(i), END]))
    return hs


# ------------------------------------------------------------------------------------------------ TLC configs
def dm_cfg(spec, nm, saves, errs, crashes, devs, props, bad=1, stopseq=False, handlers=0):
    return ('SPECIFICATION %s\nCONSTANTS\n  NM = %d\n  MaxSaves = %d\n  MaxErrors = %d\n  MaxBad = %d\n  MaxCrashes = %d\n'
            '  MaxHandlers = %d\n  StopSeq = %s\n  Deviations = {%s}\n%sCHECK_DEADLOCK FALSE\n' % (
                spec, nm, saves, errs, bad, crashes, handlers, 'TRUE' if stopseq else 'FALSE',
                ', '.join('"%s"' % d for d in devs), props))


SAFETY = ('INVARIANT TypeOK\nINVARIANT NeverTorn\nINVARIANT DurableAfterShutdown\nINVARIANT DurableAfterExit\n'
          'INVARIANT SingleWriter\nINVARIANT BusyWhileWriting\n')
LIVENESS = 'PROPERTY Written\nPROPERTY BusyFree\nPROPERTY WriterEnds\n'


def design_checks(ctx, wd):
    q = ctx.quick
    b = dict(NM=2, MaxSaves=3 if q else 4, MaxErrors=1, MaxBad=1, MaxCrashes=1)
    with open(wd + '/MC.cfg', 'w') as f:
        f.write(dm_cfg('Spec', b['NM'], b['MaxSaves'], b['MaxErrors'], b['MaxCrashes'], [], SAFETY))
    r = tlc.expect_ok(tlc.check(wd, 'DataManager', 'MC.cfg', timeout=3000), 'DataManager design check (safety)')
    ctx.add_tlc('DataManager safety', r, b)
    bl = dict(NM=2, MaxSaves=2 if q else 3, MaxErrors=1, MaxBad=1, MaxCrashes=1)
    with open(wd + '/Live.cfg', 'w') as f:
        f.write(dm_cfg('FairSpec', bl['NM'], bl['MaxSaves'], bl['MaxErrors'], bl['MaxCrashes'], [], LIVENESS))
    r = tlc.expect_ok(tlc.check(wd, 'DataManager', 'Live.cfg', timeout=3000), 'DataManager design check (liveness)')
    ctx.add_tlc('DataManager liveness', r, bl)
    # the stop sequence of a machine step by step (stop request, _do_stop, handlers of the shutdown event that save,
    # stopper set at the end), writers interleaved everywhere
    bs = dict(NM=2, MaxSaves=3 if q else 4, MaxErrors=1, MaxBad=0, MaxCrashes=0, MaxHandlers=2, StopSeq=True)
    with open(wd + '/MCStop.cfg', 'w') as f:
        f.write(dm_cfg('Spec', bs['NM'], bs['MaxSaves'], bs['MaxErrors'], 0, [], SAFETY, bad=0, stopseq=True,
                       handlers=bs['MaxHandlers']))
    r = tlc.expect_ok(tlc.check(wd, 'DataManager', 'MCStop.cfg', timeout=3000), 'DataManager design check (stop sequence)')
    ctx.add_tlc('DataManager safety, stop sequence', r, bs)
    bsl = dict(NM=2, MaxSaves=2, MaxErrors=0, MaxBad=0, MaxCrashes=0, MaxHandlers=1, StopSeq=True)
    with open(wd + '/LiveStop.cfg', 'w') as f:
        f.write(dm_cfg('FairSpec', 2, 2, 0, 0, [], LIVENESS, bad=0, stopseq=True, handlers=1))
    r = tlc.expect_ok(tlc.check(wd, 'DataManager', 'LiveStop.cfg', timeout=3000), 'DataManager design check (stop sequence, liveness)')
    ctx.add_tlc('DataManager liveness, stop sequence', r, bsl)
    ctx.coverage['monitors'] += ['NeverTorn', 'DurableAfterShutdown', 'DurableAfterExit', 'SingleWriter', 'BusyWhileWriting',
                                 'Written (ErrorDoesNotWedge)', 'BusyFree (ErrorDoesNotWedge)', 'WriterEnds']
    # the named deviations are the behaviours that break the properties: each one alone must be caught by TLC
    # (the last two numbers: budget of injected faults / of unwritable versions; the writer-dies deviations are
    # checked once with bad data only and once with injected faults only)
    expect = [('FinalFlushUsesClearedCopy', 'Spec', 'INVARIANT DurableAfterShutdown\n', 'DurableAfterShutdown', 1, 0),
              ('BusyFlagLeaksOnError', 'FairSpec', 'PROPERTY BusyFree\n', 'TemporalProperty', 1, 0),
              ('StaleYamlEmitterAfterError', 'FairSpec', 'PROPERTY Written\n', 'TemporalProperty', 1, 0),
              ('BusyCheckThenAct', 'Spec', 'INVARIANT SingleWriter\n', 'SingleWriter', 1, 0),
              ('WriterDiesOnSaveError', 'FairSpec', 'PROPERTY Written\n', 'TemporalProperty', 0, 1),
              ('WriterDiesOnSaveError', 'FairSpec', 'PROPERTY Written\n', 'TemporalProperty', 1, 0),
              ('WriterDiesOnCopyError', 'FairSpec', 'PROPERTY Written\n', 'TemporalProperty', 0, 1),
              ('WriterDiesOnCopyError', 'FairSpec', 'PROPERTY Written\n', 'TemporalProperty', 1, 0)]
    if q:       # the injected-fault variants of the writer-dies deviations only in the thorough tier
        expect = [e for e in expect if not (e[0].startswith('WriterDies') and e[5] == 0)]
    expect.append(('StopperSetEarly', 'Spec', 'INVARIANT DurableAfterShutdown\n', 'DurableAfterShutdown', 0, 0))
    expect.append(('NoJoinBeforeExit', 'Spec', 'INVARIANT DurableAfterExit\n', 'DurableAfterExit', 0, 0))
    for d, spec, props, viol, errs, bad in expect:
        with open(wd + '/Dev.cfg', 'w') as f:
            f.write(dm_cfg(spec, 2, 2, errs, 0, [d], props, bad=bad, stopseq=(d in ('StopperSetEarly', 'NoJoinBeforeExit')),
                           handlers=1))
        r = tlc.check(wd, 'DataManager', 'Dev.cfg', timeout=3000)
        if not r.violated and re.search(r'Temporal propert\w+ .*violated', r.out):
            r.violated = 'TemporalProperty'
        if r.violated != viol:
            raise tlc.TLCError('deviation %s: expected TLC to report %s, got %s\n%s' % (d, viol, r.violated, r.out[-1500:]))
        ctx.add_tlc('DataManager with Deviations={%s}, MaxErrors=%d, MaxBad=%d: %s violated (as intended)' % (d, errs, bad, viol), r)


def explain(wd, traces, ids, cfg):
    """Second pass: minimal set of named deviations that explains each rejected trace (None = unexplained)."""
    import json
    path = os.path.join(wd, 'explain.ndjson')
    with open(path, 'w') as f:
        for k, i in enumerate(ids):
            rec = {k2: v2 for k2, v2 in traces[i].items() if not k2.startswith('_')}
            rec['tid'] = k + 1
            f.write(json.dumps(rec, separators=(',', ':')) + '\n')
    r = tlc.check(wd, 'DataManagerTrace', cfg, workers=4, timeout=900, env={'TRACE_FILE': path, 'VERBOSE': '0'})
    if not r.ok:
        raise tlc.TLCError('explain pass failed: %s\n%s' % (r.errors[:3], r.out[-3000:]))
    best = {}
    for m in re.finditer(r'USED (\d+) \{([^}]*)\}', r.out):
        i = ids[int(m.group(1)) - 1]
        s = tuple(sorted(x.strip().strip('\\"') for x in m.group(2).split(',') if x.strip()))
        if i not in best or (len(s), s) < (len(best[i]), best[i]):
            best[i] = s
    return best, r


def _pub(job):
    return {k: v for k, v in job.items() if k != 'scratch'}


def show(ev, upto=None):
    out = []
    for e in ev[:upto]:
        if e['op'] == 'w':
            out.append('w%d:%s%s>%s%s%s' % (e['i'], e['pc'], '' if e['fault'] == 'none' else '!' + e['fault'], e['npc'],
                                            e['disk'], ('{%s}' % e['_exc']) if e.get('_exc') and e['npc'] == 'exited' else ''))
        elif e['op'] == 'save':
            out.append('save%d(v%d%s%s)' % (e['i'], e['v'], '' if e.get('k', 'ok') == 'ok' else ':%s %s' % (e['k'], e.get('_bad')),
                                            ' ' + e['_via'] if e.get('_via') else ''))
        elif e['op'] == 'crash':
            out.append('CRASH loaded=%s' % e['loaded'])
        elif e['op'] == 'end':
            out.append('END exited=%s disk=%s' % (e['exited'], e['disk']))
        elif e['op'] in ('stop', 'dostop', 'h', 'stopped'):
            out.append({'stop': 'STOP-REQUEST(%s)' % e.get('_how'), 'dostop': '_DO_STOP{', 'h': 'HANDLER:',
                        'stopped': '}STOPPED(handlers called: %s)' % e.get('_handlers_called')}[e['op']]
                       + ('[stopper is set]' if e.get('_stopper') and e['op'] != 'stopped' else ''))
        else:
            out.append(e['op'])
    return ' '.join(out)


def run_datamanager(ctx):
    wd = tlc.prepare(ctx.scratch, 'DataManager', 'datamanager')
    exit_runs = start_exit_runs(ctx)        # part 4: real processes, collected below
    design_checks(ctx, wd)
    q = ctx.quick
    trace_round(ctx, wd, 2, True, 260 if q else 3000, 140 if q else 1500, 70 if q else 110)
    # part 3: the data managers of a booted machine, stopped by the machine's own stop sequence
    trace_round(ctx, wd, 2, True, 90 if q else 1500, 40 if q else 600, 60 if q else 90, world='machine')
    validate_exit_runs(ctx, wd, collect_exit_runs(exit_runs))
    if not q:
        with open(wd + '/MC3.cfg', 'w') as f:
            f.write(dm_cfg('Spec', 3, 3, 1, 0, [], SAFETY))
        r = tlc.expect_ok(tlc.check(wd, 'DataManager', 'MC3.cfg', timeout=3000), 'DataManager design check (3 managers)')
        ctx.add_tlc('DataManager safety, 3 managers', r, dict(NM=3, MaxSaves=3, MaxErrors=1, MaxBad=1, MaxCrashes=0))
        trace_round(ctx, wd, 3, False, 700, 300, 120)


def write_trace_cfgs(wd, nm):
    consts = ('CONSTANTS\n  NM = %d\n  MaxSaves = 1000000\n  MaxErrors = 1000000\n  MaxBad = 1000000\n'
              '  MaxCrashes = 1000000\n  MaxHandlers = 1000000\n  StopSeq = TRUE\n' % nm)
    with open(wd + '/Trace.cfg', 'w') as f:
        f.write('SPECIFICATION TSpec\n' + consts + '  Deviations = {}\nINVARIANT Reporter\nINVARIANT NeverTorn\n'
                'INVARIANT DurableAfterShutdown\nINVARIANT DurableAfterExit\nINVARIANT SingleWriter\nINVARIANT AllExitedAtEnd\n'
                'CHECK_DEADLOCK FALSE\n')
    with open(wd + '/TraceDev.cfg', 'w') as f:
        f.write('SPECIFICATION TSpec\n' + consts + '  Deviations = {%s}\nINVARIANT Reporter\nINVARIANT UsedReport\n'
                'CHECK_DEADLOCK FALSE\n' % ', '.join('"%s"' % d for d in DEVS_ALL))
    with open(wd + '/TraceDevExit.cfg', 'w') as f:
        f.write('SPECIFICATION TSpec\n' + consts + '  Deviations = {%s}\nINVARIANT Reporter\nCHECK_DEADLOCK FALSE\n'
                % ', '.join('"%s"' % d for d in DEVS_EXIT))


def trace_round(ctx, wd, nm, with_handmade, n_design, n_dev, depth, world='stub'):
    """Generate schedules for nm managers, execute them on the real code, validate and classify the traces."""
    mw = world == 'machine'
    rnd = random.Random(ctx.seed * 31 + nm + (1000 if mw else 0))
    jobs = []

    def add(sched, settle, label):
        jobs.append({'id': len(jobs), 'sched': sched, 'settle': settle, 'nm': nm, 'salt': rnd.randrange(1000),
                     'scratch': ctx.scratch, 'label': label, 'world': world})
    if with_handmade and mw:
        for name, sched in handmade_machine():
            for _ in range(2):              # both ways of requesting the stop, different priorities / chained handlers
                add(sched, False, name)
    elif with_handmade:
        for name, sched, settle in handmade():
            add(sched, settle, name)
    # schedules of the design and schedules that also walk through the recorded deviations (unwedge, two writers)
    for label, devs, num in (('design', [], n_design), ('deviating', DEVS, n_dev)):
        with open(wd + '/Gen.cfg', 'w') as f:
            if mw:      # no process crash / unwritable data here (part 1 has them); up to 4 handlers of the shutdown event
                f.write(dm_cfg('Spec', nm, 5, 1, 0, devs, '', bad=0, stopseq=True, handlers=4))
            else:
                f.write(dm_cfg('Spec', nm, 5, 2, 1, devs, '', bad=2))
        behs, _ = tlc.simulate(wd, 'DataManager', 'Gen.cfg', num=num, depth=depth, seed=ctx.seed)
        for b in behs:
            add([s['act'] for s in b if s['act']['op'] != 'init'], rnd.random() < 0.5, label)
    traces = harness.pmap(run_job, jobs, chunk=8)
    write_trace_cfgs(wd, nm)
    v = tlc.validate_traces(wd, 'DataManagerTrace', 'Trace.cfg', traces, diagnose=False)
    ctx.add_trace_verdict('DataManagerTrace (%d managers%s)' % (nm, ' of a booted machine, stop sequence' if mw else ''), v,
                          len(traces))
    k0 = 6 if mw else 0
    ctx.sample({'kind': 'datamanager-trace', 'schedule': jobs[k0]['label'], 'trace': show(traces[k0]['ev'])})
    if mw:
        st = ctx.coverage.setdefault('stop_sequence', {})
        ph = {'run': 0, 'stopreq': 0, 'handlers': 0}
        wsteps = dict(ph)
        for t in traces:
            cur = 'run'
            for e in t['ev']:
                cur = {'stop': 'stopreq', 'dostop': 'handlers', 'stopped': 'stopped'}.get(e['op'], cur)
                if cur in ph and e['op'] == 'save':
                    ph[cur] += 1
                if cur in wsteps and e['op'] == 'w':
                    wsteps[cur] += 1
        st['saves_by_phase'] = ph
        st['writer_steps_by_phase'] = wsteps
        st['machine_var_saves_in_handlers'] = sum(1 for t in traces for e in t['ev'] if e['op'] == 'save' and e.get('_via'))
        st['handlers_called'] = sum(1 for t in traces for e in t['ev'] if e['op'] == 'h')
        st['stop_requests'] = sorted({e['_how'] for t in traces for e in t['ev'] if e['op'] == 'stop'})
        st['executions'] = len(traces)
        if not (ph['handlers'] and ph['stopreq'] and wsteps['handlers'] and st['handlers_called']):
            raise tlc.TLCError('vacuous: no saves / writer steps inside the stop sequence were executed: %s' % st)
    cov = ctx.coverage
    for key, vals in (('writer_points_seen', {e['pc'] for t in traces for e in t['ev'] if e['op'] == 'w'}),
                      ('crash_points_seen', {p for t in traces for e in t['ev'] if e['op'] == 'crash' for p in e['_at'].values()}),
                      ('fault_points_seen', {'%s@%s' % (e['fault'], e['pc']) for t in traces for e in t['ev']
                                             if e['op'] == 'w' and e['fault'] != 'none'}),
                      ('bad_data_seen', {'%s: %s' % (e['k'], e['_bad']) for t in traces for e in t['ev']
                                         if e['op'] == 'save' and e.get('k', 'ok') != 'ok'})):
        cov[key] = sorted(set(cov.get(key, [])) | vals)
    rej = sorted(v.rejected)
    if not rej:
        return
    best, r2 = explain(wd, traces, rej, 'TraceDev.cfg')
    ctx.add_tlc('DataManagerTrace(all deviations): %d of %d rejected traces explained' % (len(best), len(rej)), r2)
    by = cov.setdefault('rejected_by_design_explained_by', {})
    seen = set()
    for i in rej:                      # hand-made (minimal) schedules come first
        used = best.get(i)
        if not used:
            continue
        key = '+'.join(used)
        by[key] = by.get(key, 0) + 1
        for d in used:
            if d in seen:
                continue
            # report a deviation with the simplest trace that needs it
            seen.add(d)
            ctx.violation('C15:%s:%s' % (PROP_OF[d], d),
                          '%s. Schedule "%s": %s' % (WHAT[d], jobs[i]['label'], show(traces[i]['ev'])[:1500]),
                          {'job': _pub(jobs[i]), 'trace': traces[i], 'needs': list(used)})
    rest = [i for i in rej if not best.get(i)]
    if rest:
        sub = [traces[i] for i in rest]
        v3 = tlc.validate_traces(wd, 'DataManagerTrace', 'TraceDev.cfg', sub, diagnose=True)
        for k, i in enumerate(rest):
            if k not in v3.rejected:
                raise tlc.TLCError('trace %d accepted with all deviations but no USED report' % i)
            info = v3.rejected[k]
            if os.environ.get('C15_DEBUG'):
                ctx.log('unexplained %s %s: %s\n   info=%s' % (jobs[i]['label'], traces[i].get('_notes'), show(traces[i]['ev']), info))
            fe = info.get('failing_event') or {}
            torn = any(-1 in (e.get('disk') or []) or -1 in (e.get('loaded') or []) for e in traces[i]['ev'])
            if torn:
                sig = 'C15:NeverTorn'
            elif info.get('line') is None:
                sig = 'C15:trace:unexplained'
            else:
                sig = 'C15:trace:%s:%s>%s' % (fe.get('op', 'end'), fe.get('pc', ''), fe.get('npc', ''))
            ctx.violation(sig, 'execution of schedule "%s" is not a behaviour of the DataManager model (even with all '
                          'recorded deviations) at line %s: %s (previous: %s)%s. Trace: %s' % (
                              jobs[i]['label'], info.get('line'), fe, info.get('prev_event'),
                              '; a data file was observed TORN (not a complete version that was ever saved)' if torn else '',
                              show(traces[i]['ev'], info.get('line'))[:1500]),
                          {'job': _pub(jobs[i]), 'trace': traces[i], 'info': info})


# ================================================================================== part 4: real `mpf game` processes
EXIT_SCENARIOS = {
    'rate-handler': 'save v1; 0.3 s after v1 is on disk (the writer is in its rate-limit sleep) machine.stop(); a handler '
                    'of the shutdown event saves v2; the process ends',
    'init-handler': 'the data manager is created; 0.3 s later (the writer is in its start-up delay) machine.stop(); a '
                    'handler of the shutdown event saves v1; the process ends',
    'rate-before-stop': 'save v1; 0.3 s after v1 is on disk save v2 and machine.stop() at once (no handler saves); the '
                        'process ends',
    'mv-rate-handler': 'the machine\'s own machine_vars data manager (min_wait_secs 1, the default): a persistent machine '
                       'variable is set (v1); 0.3 s after it is on disk machine.stop(); a handler of the shutdown event sets '
                       'it again (v2); the process ends',
}
EXIT_MIN_WAIT = 2      # min_wait_secs of the data manager: wide enough for a loaded machine (the default is 1)


def start_exit_runs(ctx, only=None):
    """Start one real `mpf game` process per scenario (they run while the model is checked)."""
    runs = []
    for scen in EXIT_SCENARIOS:
        if only and scen != only:
            continue
        d = os.path.join(ctx.scratch, 'exit_%s_%d' % (scen, len(os.listdir(ctx.scratch))))
        shutil.copytree(os.path.join(harness.VERIF, 'machines', MV_MACHINE), d)
        log = os.path.join(d, 'steps.ndjson')
        env = dict(os.environ, PYTHONPATH=harness.REPO, C15_EXIT_SCENARIO=scen, C15_EXIT_LOG=log,
                   C15_EXIT_MIN_WAIT=str(EXIT_MIN_WAIT))
        out = open(os.path.join(d, 'out.txt'), 'w')
        # -x virtual platform, -t no text ui, -b no BCP, -a / -A no config cache
        p = subprocess.Popen([sys.executable, '-m', 'mpf', 'game', d, '-x', '-t', '-b', '-a', '-A', '-c', 'exit.yaml'],
                             cwd=d, env=env, stdout=out, stderr=subprocess.STDOUT, stdin=subprocess.DEVNULL)
        out.close()
        runs.append((scen, d, log, p))
    return runs


def collect_exit_runs(runs):
    """Wait for the processes; one free trace each: the logged steps, then what the data file holds now."""
    import json
    from mpf.core.file_manager import FileManager
    from mpf.file_interfaces.yaml_interface import YamlInterface
    traces = []
    for scen, d, log, p in runs:
        try:
            rc = p.wait(timeout=240)
        except subprocess.TimeoutExpired:
            p.kill()
            rc = 'timeout'
        lines = [json.loads(x) for x in open(log)] if os.path.isfile(log) else []
        out = open(os.path.join(d, 'out.txt'), errors='replace').read()
        tail = out[-1500:]
        ops = [e.get('op') for e in lines]
        # a clean shutdown: requested by the machine's code, the normal branch of _run_loop, exit code 0
        if (rc != 0 or ops[:1] != ['boot'] or 'Shutdown reason: C15' not in out or 'Traceback' in out
                or [o for o in ops if o in ('stop', 'dostop', 'h')] != ['stop', 'dostop', 'h']):
            raise tlc.TLCError('`mpf game` (scenario %s) did not run to a clean exit: rc=%s steps=%s\n%s' % (scen, rc, lines, tail))
        if not os.path.abspath(lines[0]['_mpf']).startswith(os.path.abspath(harness.REPO) + '/'):
            raise tlc.TLCError('`mpf game` imported mpf from %s' % lines[0]['_mpf'])
        path = os.path.join(d, 'data', 'machine_vars.yaml' if scen.startswith('mv-') else 'c15_exit.yaml')
        ver, got = 0, None
        if os.path.isfile(path):
            cache, YamlInterface.cache = YamlInterface.cache, False
            try:
                got = FileManager.load(path, halt_on_error=True)
                ver = next((e['v'] for e in lines if e['op'] == 'save' and strict_eq(e['_val'], got)), -1)
            except Exception:  # pylint: disable=broad-except
                ver = -1
            finally:
                YamlInterface.cache = cache
        # (the values go into a top-level key: JSON null inside an event cannot be read by the TLA+ Json module)
        vals = {str(e['v']): e.pop('_val') for e in lines if e['op'] == 'save'}
        ev = lines[1:] + [{'op': 'stopped'}, {'op': 'exit', 'disk': [ver, 0], '_file': repr(got)[:200], '_rc': rc}]
        traces.append({'ev': ev, 'free': True, '_scenario': scen, '_vals': vals})
        shutil.rmtree(d, ignore_errors=True)
    return traces


def exit_story(tr):
    out = []
    for e in tr['ev']:
        out.append({'save': 'save_all(v%s)' % e.get('v'), 'stop': 'machine.stop()', 'dostop': '_do_stop() begins',
                    'h': 'handler of the shutdown event:', 'stopped': '_do_stop() returns',
                    'exit': 'the process has ended (exit code %s); the data file now holds %s' % (
                        e.get('_rc'), ('version %s' % e['disk'][0]) if e.get('disk', [0])[0] > 0 else
                        'nothing (absent)' if e.get('disk', [0])[0] == 0 else 'NO version that was saved: %s' % e.get('_file'))
                    }.get(e['op'], str(e)))
    return '; '.join(out)


def validate_exit_runs(ctx, wd, traces, sig=None):
    write_trace_cfgs(wd, 2)
    v = tlc.validate_traces(wd, 'DataManagerTrace', 'Trace.cfg', traces, diagnose=False)
    ctx.add_trace_verdict('DataManagerTrace (real `mpf game` processes, until the process has ended)', v, len(traces))
    ctx.coverage.setdefault('stop_sequence', {})['process_exit_scenarios'] = {
        t['_scenario']: exit_story(t) for t in traces}
    rej = sorted(v.rejected)
    if not rej:
        return
    sub = [traces[i] for i in rej]
    v2 = tlc.validate_traces(wd, 'DataManagerTrace', 'TraceDevExit.cfg', sub, diagnose=False)
    explained = [rej[k] for k in sorted(v2.accepted)]
    if explained:
        d = DEVS_EXIT[0]
        ctx.violation(sig or 'C15:%s:%s' % (PROP_OF[d], d),
                      '%s. Observed with real `mpf game` processes (machines/c15_mv, config exit.yaml, min_wait_secs=%s of the '
                      'data manager the machine code creates; nothing patched) in %d of %d scenarios: %s' % (
                          WHAT[d], EXIT_MIN_WAIT, len(explained), len(traces),
                          ' || '.join('[%s: %s] %s' % (traces[i]['_scenario'], EXIT_SCENARIOS[traces[i]['_scenario']],
                                                       exit_story(traces[i])) for i in explained)),
                      {'exit_scenario': traces[explained[0]]['_scenario'], 'trace': traces[explained[0]], 'needs': [d]})
    for i in rej:
        if i in explained:
            continue
        info = v.rejected[i]
        ctx.violation(sig or 'C15:trace:exit:%s' % traces[i]['_scenario'],
                      'a real `mpf game` process (%s) is not a behaviour of the DataManager model, not even one of a '
                      'process that ends without waiting for its writers (%s): %s' % (
                          EXIT_SCENARIOS[traces[i]['_scenario']], info, exit_story(traces[i])),
                      {'exit_scenario': traces[i]['_scenario'], 'trace': traces[i], 'info': info})


# ============================================================================================ machine variables
MV_VALUES = [5, 0, -3, 'abc', '', 'yes', [1, 'a'], {'k': [1, 2]}, 2.5, True, 10 ** 12, 'üñ x: y', 17.25, 'null']
MV_MACHINE = 'c15_mv'
# Variables DECLARED IN THE CONFIG (machine_vars: section of machines/c15_mv/config/config.yaml; master_volume comes from
# mpf/mpfconfig.yaml): persist flag and initial value as configured (after conversion to value_type), then the values
# code sets them to: the FALSY values (value id 2) and other values (ids 3..6).  Within one table all values are
# pairwise unequal (0 == 0.0 == False in Python: one of them per execution, picked by the salt).
MV_DECLARED = {
    'master_volume': {'persist': True, 'init': 0.5, 'falsy': [0.0, 0, False, -0.0], 'other': [0.8, 1.0, 0.25, 17.25, 1e-7, 3]},
    'cv_int': {'persist': True, 'init': 4, 'falsy': [0, False, 0.0], 'other': [17, -3, 10 ** 12, 250, 7, 2.5]},
    'cv_str': {'persist': True, 'pdefault': True, 'init': '5', 'falsy': [''], 'other': ['hello', '0', 'üñ x: y', 'null', 'False', 'no']},
    'cv_zero': {'persist': True, 'init': 0, 'falsy': [], 'other': [7, -1, 12, 10 ** 12, 3, True]},
    'cv_flt': {'persist': True, 'init': 0.0, 'falsy': [], 'other': [0.5, -2.5, 1.0, 1e300, 3, 0.001]},
    'cv_np': {'persist': False, 'init': 3, 'falsy': [0, False], 'other': [17, -3, 10 ** 12, 250, 7, 2.5]},
    'cv_npf': {'persist': False, 'init': 0.25, 'falsy': [0.0, 0], 'other': [0.8, 1.0, 0.5, 17.25, 1e-7, 3]},
}
MV_MAXID = 6


def _pe(persist, expire):
    """Policy of a variable that code creates at run time."""
    return {'persist': persist, 'expire': expire, 'declared': False, 'init': 0, 'pdefault': False}


def _decl(name):
    """Policy of a variable the config declares: value id 1 is its initial value."""
    return {'persist': MV_DECLARED[name]['persist'], 'expire': 0, 'declared': True, 'init': 1,
            'pdefault': bool(MV_DECLARED[name].get('pdefault'))}


MV_POLICIES = [
    {'pa': _pe(True, 0), 'ex': _pe(True, 2), 'np': _pe(False, 0), 'master_volume': _decl('master_volume')},
    {'pa': _pe(True, 3), 'ex': _pe(True, 1), 'np': _pe(False, 2), 'cv_int': _decl('cv_int'), 'cv_np': _decl('cv_np')},
    {'master_volume': _decl('master_volume'), 'cv_str': _decl('cv_str'), 'cv_zero': _decl('cv_zero'), 'cv_np': _decl('cv_np')},
    {'pa': _pe(True, 0), 'cv_int': _decl('cv_int'), 'cv_flt': _decl('cv_flt'), 'cv_npf': _decl('cv_npf')},
]
# the exhaustive check of the model: small policies (names there are only names)
MV_MC_POLICIES = [
    {'pa': _pe(True, 0), 'ex': _pe(True, 2), 'np': _pe(False, 0)},
    {'pa': _pe(True, 3), 'ex': _pe(True, 1), 'np': _pe(False, 2)},
    {'ex': _pe(True, 2), 'cv': {'persist': True, 'expire': 0, 'declared': True, 'init': 1, 'pdefault': False},
     'cn': {'persist': False, 'expire': 0, 'declared': True, 'init': 1, 'pdefault': False}},
]
# persistent by default (no `persist:` in the config), next to a variable created by code
MV_MC_PDEFAULT = [{'pa': _pe(True, 0), 'cd': {'persist': True, 'expire': 0, 'declared': True, 'init': 1, 'pdefault': True}}]
MV_DEVS = ['DefaultPersistLostOnReload']
MV_WHAT = {
    'DefaultPersistLostOnReload':
        'MachineVariables._load_initial_machine_vars (mpf/core/machine_vars.py) ends with `self.configure_machine_var('
        "name=name, persist=element.get('persist', False))`; `element` is the validated config (persist defaults to true) "
        'only when the variable was NOT loaded from disk, otherwise it is the raw config element. A variable declared in '
        'machine_vars: without an explicit `persist:` (documented default: true) is persistent on the first boot, but on '
        'every boot that loads it from the file its persist flag is set to False: later values are not saved any more and '
        'the next write of any other persistent variable drops it from the file, so it does not reload with an equal '
        'value on the next boot although it is marked persistent',
}
MV_UNIT = 10     # seconds per abstract time unit; expiry is 10*E + 5 s so that no comparison is at a boundary
_MV = {}


def mv_value(n, vid, salt):
    """The real value that value id `vid` of variable n stands for in an execution with this salt."""
    d = MV_DECLARED.get(n)
    if d is None:
        return _copy.deepcopy(MV_VALUES[(vid + salt) % len(MV_VALUES)])
    assert 1 <= vid <= MV_MAXID
    if vid == 1:
        return d['init']
    if vid == 2 and d['falsy']:
        return d['falsy'][salt % len(d['falsy'])]
    return d['other'][(salt + vid - 2) % len(d['other'])]


def mv_id(n, value, salt):
    """Translate a real value back to its id (-1: none of the values of this execution).  Equality is Python's ==."""
    for vid in range(1 if n in MV_DECLARED else 0, MV_MAXID + 1):
        try:
            if mv_value(n, vid, salt) == value:
                return vid
        except Exception:  # pylint: disable=broad-except
            pass
    return -1


def _boot_at(start, mock):
    """Boot the machine with the wall clock at `start` seconds and the given persisted machine_vars."""
    h = harness._H()
    h._machine_dir = os.path.join(harness.VERIF, 'machines', MV_MACHINE)
    h._config_file = 'config.yaml'
    h._platform = 'virtual'
    h._mock_data_v = {'machine_vars': mock}
    h._mock_loop = lambda: h.loop.set_time(start)
    h.expected_duration = 1e9
    h.setUp()
    return h


def _yaml_roundtrip(path, data):
    """What a real DataManager would have on disk / load from it."""
    from mpf.core.file_manager import FileManager
    from mpf.file_interfaces.yaml_interface import YamlInterface
    cache, YamlInterface.cache = YamlInterface.cache, False
    try:
        FileManager.save(path, data)
        return FileManager.load(path, halt_on_error=True) or {}
    finally:
        YamlInterface.cache = cache
        FileManager.is_busy = False


def run_mv_job(job):
    try:
        return _run_mv(job)
    except Exception as ex:  # pylint: disable=broad-except
        import traceback
        return {'cfg': job['cfg'], 'ev': [{'op': 'harness-crash', 'what': repr(ex)[:300]}], '_tb': traceback.format_exc()[-2000:]}


def _mv_file(pol, data, salt):
    """The variables of the policy as the data file holds them: present / value id (and the real values, for reports)."""
    out, real = {}, {}
    for n in pol:
        e = data.get(n) if isinstance(data, dict) else None
        ok = isinstance(e, dict) and 'value' in e
        out[n] = {'present': ok, 'v': mv_id(n, e['value'], salt) if ok else 0}
        if ok:
            real[n] = repr(e['value'])
    return out, real


def _run_mv(job):
    pol = job['cfg']
    salt = job['salt']
    d = os.path.join(job['scratch'], 'mv_%d' % os.getpid())
    os.makedirs(d, exist_ok=True)
    path = os.path.join(d, 'machine_vars.yaml')
    wall = 0.0
    store = {}
    h = _boot_at(wall, store)
    ev = []

    def onfile():
        w = h.machine.variables.machine_var_data_manager.written_data
        return _mv_file(pol, store if w is None else w, salt)
    try:
        for n, p in pol.items():        # the config of the machine is the one the policy describes
            raw = h.machine.config['machine_vars'].get(n, {}) if p['declared'] else {}
            if p['declared'] and not (raw.get('persist', True) == p['persist'] and ('persist' not in raw) == p['pdefault']
                                      and h.machine.variables.is_machine_var(n)):
                raise AssertionError('machine config and policy disagree about %s' % n)
        for s in job['sched']:
            op = s['op']
            mvs = h.machine.variables
            if op == 'set':
                n, p = s['n'], pol[s['n']]
                val = mv_value(n, s['v'], salt)
                if not p['declared']:
                    mvs.configure_machine_var(name=n, persist=p['persist'],
                                              expire_secs=(p['expire'] * MV_UNIT + 5) if p['expire'] else None)
                mvs.set_machine_var(name=n, value=val)
                h.advance_time_and_run(0)
                f, fr = onfile()
                ev.append({'op': 'set', 'n': n, 'v': s['v'], 'file': f, '_val': repr(val), '_file': fr})
            elif op == 'adv':
                h.advance_time_and_run(s['d'] * MV_UNIT)
                ev.append({'op': 'adv', 'd': s['d']})
            elif op == 'reboot':
                dmgr = mvs.machine_var_data_manager
                if dmgr.written_data is not None:
                    store = dmgr.written_data
                wall = h.machine.clock.get_time() + s['down'] * MV_UNIT
                harness.shutdown(h)
                h = None
                store = _yaml_roundtrip(path, store)
                h = _boot_at(wall, store)
                mvs = h.machine.variables
                obs, real = {}, {}
                for n, p in pol.items():
                    present = bool(mvs.is_machine_var(n))
                    got = mvs.get_machine_var(n) if present else None
                    obs[n] = {'present': present, 'v': mv_id(n, got, salt) if present else 0,
                              'pers': bool(present and mvs.machine_vars[n]['persist'])}
                    if present:
                        real[n] = repr(got)
                f, fr = onfile()
                ev.append({'op': 'reboot', 'down': s['down'], 'obs': obs, 'file': f, '_vals': real, '_file': fr,
                           '_was_on_disk': {n: repr(e.get('value')) for n, e in store.items()
                                            if n in pol and isinstance(e, dict)}})
    finally:
        if h is not None:
            harness.shutdown(h)
    return {'cfg': pol, 'ev': ev, '_salt': salt}


MV_CFG = """SPECIFICATION Spec
CONSTANTS
  Configs <- MCConfigs
  Deviations = {%s}
  Vals = {%s}
  Advs = {1, 2}
  Downs = {0, 1, 2, 4}
  MaxTime = %d
  MaxOps = %d
%sCHECK_DEADLOCK FALSE
"""
MV_TRACE_CFG = ('SPECIFICATION TSpec\nCONSTANTS\n  Configs <- TConfigs\n  Deviations = {%s}\n  Vals = {}\n  Advs = {}\n'
                '  Downs = {}\n  MaxTime = 100000000\n  MaxOps = 100000000\nINVARIANT Reporter\n%sCHECK_DEADLOCK FALSE\n')
MV_MONITORS = 'INVARIANT StoreInSync\nINVARIANT DeclaredExists\nINVARIANT MarkedPersistent\n'


def mv_handmade():
    """(policy, schedule, salts): reboots in a row after persistent / declared variables were set."""
    P0, P1, P2, P3 = MV_POLICIES
    S = lambda n, v: {'op': 'set', 'n': n, 'v': v}
    RB = lambda d: {'op': 'reboot', 'down': d}
    AD = lambda d: {'op': 'adv', 'd': d}
    every = range(len(MV_VALUES))
    hs = [(P0, [S('pa', 1), S('ex', 2), S('np', 3), RB(0), RB(1), S('ex', 2), AD(2), RB(0), AD(1), RB(4)], every),
          (P0, [S('ex', 1), AD(2), S('ex', 1), AD(1), RB(1), S('ex', 1), RB(2), RB(4)], every),
          (P0, [S('pa', 4), S('pa', 4), S('pa', 5), AD(2), S('ex', 1), RB(4), S('pa', 5), S('ex', 3), RB(2)], every)]
    # declared variables: a falsy value (id 2) persisted and several boots in a row; never set by code; set back to the
    # initial value (id 1); non-persisted ones; together with variables created by code
    few = range(6)
    hs += [(P0, [S('master_volume', 2), RB(0), RB(1), S('pa', 1), RB(0), RB(4)], few),
           (P0, [RB(0), S('pa', 1), RB(1), S('master_volume', 3), RB(0), S('master_volume', 2), RB(0),
                 S('master_volume', 1), RB(0), RB(1)], few),
           (P2, [S('cv_str', 2), S('cv_zero', 2), S('cv_np', 2), RB(0), RB(0), S('master_volume', 2), RB(1), RB(0)], few),
           (P2, [S('cv_zero', 3), RB(0), S('cv_zero', 1), RB(0), S('cv_np', 4), RB(1), S('cv_str', 3), S('cv_str', 2),
                 RB(0), RB(0)], few),
           (P3, [S('cv_int', 2), S('cv_flt', 2), S('cv_npf', 2), RB(0), RB(1), S('pa', 2), RB(0), RB(2)], few),
           (P3, [S('cv_int', 3), RB(0), S('cv_int', 2), RB(0), RB(0), S('cv_int', 1), RB(0), S('cv_flt', 3),
                 S('cv_flt', 1), RB(0), RB(0)], few),
           (P1, [S('cv_int', 2), S('ex', 1), AD(2), RB(0), S('cv_np', 2), RB(1), S('cv_int', 2), RB(0), RB(0)], few)]
    return hs


def mv_story(tr, upto):
    """The execution in real values, for the report."""
    out = []
    for e in tr['ev'][:upto]:
        if e['op'] == 'set':
            out.append('set %s=%s (id %s; file now %s)' % (e['n'], e.get('_val'), e['v'], e.get('_file')))
        elif e['op'] == 'adv':
            out.append('adv %s' % e['d'])
        elif e['op'] == 'reboot':
            out.append('REBOOT(down %s; file fed to the boot %s) -> variables %s, file now %s' % (
                e['down'], e.get('_was_on_disk'), e.get('_vals'), e.get('_file')))
        else:
            out.append(str(e))
    return '; '.join(out)


def run_machinevars(ctx):
    q = ctx.quick
    wd = tlc.prepare(ctx.scratch, 'DataManager', 'machinevars')
    for table in MV_DECLARED.values():      # value tables: pairwise unequal values, falsy ones are falsy
        vals = [table['init']] + table['falsy'][:1] + table['other']
        assert all(a != b for i, a in enumerate(vals) for b in vals[i + 1:]) and not any(table['falsy']), table
        assert all(x != y for x in table['falsy'] for y in [table['init']] + table['other']), table

    def mc_module(pols):
        with open(wd + '/MachineVarsMC.tla', 'w') as f:
            f.write('---- MODULE MachineVarsMC ----\nEXTENDS MachineVars\nMCConfigs == {%s}\n====\n' % ',\n  '.join(
                to_tla(p) for p in pols))
    mc_module(MV_MC_POLICIES + MV_MC_PDEFAULT)
    b = {'MaxTime': 8 if q else 10, 'MaxOps': 6 if q else 7, 'Vals': 2, 'policies': len(MV_MC_POLICIES) + 1}
    props = ('INVARIANT StoreInSync\nINVARIANT DeclaredExists\nINVARIANT MarkedPersistent\nPROPERTY PersistReload\n'
             'PROPERTY DeclaredRestart\n')
    with open(wd + '/MVMC.cfg', 'w') as f:
        f.write(MV_CFG % ('', '1, 2', b['MaxTime'], b['MaxOps'], props))
    r = tlc.expect_ok(tlc.check(wd, 'MachineVarsMC', 'MVMC.cfg', timeout=3000), 'MachineVars design check')
    ctx.add_tlc('MachineVars', r, b)
    ctx.coverage['monitors'] += ['PersistReload', 'DeclaredRestart', 'DeclaredExists', 'MarkedPersistent', 'StoreInSync']
    # the named deviation is a behaviour that breaks the statement: alone it must be caught by TLC
    mc_module(MV_MC_PDEFAULT)
    for d in MV_DEVS:
        with open(wd + '/MVDev.cfg', 'w') as f:
            f.write(MV_CFG % ('"%s"' % d, '1, 2', 4, 4, 'PROPERTY PersistReload\n'))
        r = tlc.check(wd, 'MachineVarsMC', 'MVDev.cfg', timeout=3000)
        if not r.violated and re.search(r'[Pp]ropert\w+ .*violated', r.out):
            r.violated = 'PersistReload'
        if r.violated != 'PersistReload':
            raise tlc.TLCError('deviation %s: expected TLC to report PersistReload, got %s\n%s' % (d, r.violated, r.out[-1500:]))
        ctx.add_tlc('MachineVars with Deviations={%s}: PersistReload violated (as intended)' % d, r)
    mc_module(MV_POLICIES)
    with open(wd + '/MVGen.cfg', 'w') as f:
        f.write(MV_CFG % ('', '1, 2, 3, 4, 5', 40, 14, ''))
    behs, _ = tlc.simulate(wd, 'MachineVarsMC', 'MVGen.cfg', num=160 if q else 1800, depth=15, seed=ctx.seed)
    rnd = random.Random(ctx.seed + 7)
    jobs = [{'cfg': bh[0]['cfg'], 'sched': [s['act'] for s in bh if s['act']['op'] != 'init'], 'salt': rnd.randrange(100),
             'scratch': ctx.scratch, 'label': 'simulated'} for bh in behs]
    for k, (pol, sched, salts) in enumerate(mv_handmade()):
        for salt in salts:
            jobs.append({'cfg': pol, 'sched': sched, 'salt': salt, 'scratch': ctx.scratch, 'label': 'handmade-%d' % k})
    traces = harness.pmap(run_mv_job, jobs, chunk=4)
    with open(wd + '/MVTrace.cfg', 'w') as f:
        f.write(MV_TRACE_CFG % ('', MV_MONITORS))
    with open(wd + '/MVTraceDev.cfg', 'w') as f:
        f.write(MV_TRACE_CFG % (', '.join('"%s"' % d for d in MV_DEVS), ''))
    v = tlc.validate_traces(wd, 'MachineVarsTrace', 'MVTrace.cfg', traces, diagnose=False)
    ctx.add_trace_verdict('MachineVarsTrace', v, len(traces))
    ctx.sample({'kind': 'machine-vars-trace', 'cfg': traces[-1]['cfg'], 'trace': traces[-1]['ev'][:10]})
    cov = ctx.coverage
    sets = [(e['n'], e['_val']) for t in traces for e in t['ev'] if e['op'] == 'set']
    cov['machine_vars'] = {
        'reboots': sum(1 for t in traces for e in t['ev'] if e['op'] == 'reboot'),
        'values_set_on_declared_vars': sorted({'%s=%s' % nv for nv in sets if nv[0] in MV_DECLARED}),
        'declared_vars_reloaded_from_file': sorted({'%s=%s' % (n, x) for t in traces for e in t['ev'] if e['op'] == 'reboot'
                                                    for n, x in e['_was_on_disk'].items() if n in MV_DECLARED})}
    rej = sorted(v.rejected, key=lambda i: (len(traces[i]['ev']), i))       # the simplest executions first
    if not rej:
        return
    # second pass: which of the rejected executions does the model with the named deviation(s) explain exactly?
    sub = [traces[i] for i in rej]
    v2 = tlc.validate_traces(wd, 'MachineVarsTrace', 'MVTraceDev.cfg', sub, diagnose=False)
    ctx.add_trace_verdict('MachineVarsTrace(all deviations): rejected traces', v2, len(sub))
    explained = [rej[k] for k in sorted(v2.accepted)]
    cov['machine_vars']['rejected_by_design_explained_by'] = {'+'.join(MV_DEVS): len(explained)}
    if explained:
        i = explained[0]
        v1 = tlc.validate_traces(wd, 'MachineVarsTrace', 'MVTrace.cfg', [traces[i]])       # where the design rejects it
        info = v1.rejected.get(0, {})
        for d in MV_DEVS:
            ctx.violation('C15:PersistReload:%s' % d,
                          '%s. %d executions are rejected by the MachineVars spec and explained by the spec with this '
                          'deviation; the simplest (schedule "%s", rejected at line %s): %s' % (
                              MV_WHAT[d], len(explained), jobs[i]['label'], info.get('line'),
                              mv_story(traces[i], None)[:2500]),
                          {'mv_job': _pub(jobs[i]), 'trace': traces[i], 'info': info, 'needs': [d]})
    rest = [i for i in rej if i not in set(explained)]
    if not rest:
        return
    sub = [traces[i] for i in rest]
    v3 = tlc.validate_traces(wd, 'MachineVarsTrace', 'MVTrace.cfg', sub)
    tlc.finish_diagnosis(wd, 'MachineVarsTrace', 'MVTrace.cfg', sub, v3)
    for k, i in enumerate(rest):
        info = v3.rejected.get(k) or {}
        if info.get('line') is None:
            continue
        fe = info.get('failing_event') or {}
        pub = {k2: x for k2, x in fe.items() if not k2.startswith('_')}
        ctx.violation('C15:PersistReload:%s' % fe.get('op', '?'),
                      'machine variables: the execution is not a behaviour of the MachineVars spec (a persisted value '
                      'reloads with an equal value on the next boot and the file keeps it, whatever the value; the '
                      'configured initial_value of a declared variable is used only when nothing was persisted; not '
                      'explained by a recorded deviation either) at line %s, in real values: %s. The rejected line: %s '
                      '(schedule "%s", policy %s; tb %s)' % (
                          info.get('line'), mv_story(traces[i], info.get('line'))[:2500], pub, jobs[i]['label'],
                          traces[i]['cfg'], traces[i].get('_tb')),
                      {'mv_job': _pub(jobs[i]), 'trace': traces[i], 'info': info})


def run(ctx):
    run_datamanager(ctx)
    run_machinevars(ctx)
    ctx.assumptions += [
        'writer threads are real threads but are scheduled cooperatively at the wrapped blocking calls; races between '
        'those points are not explored',
        'the crash model is a process crash between scheduler steps (files as they are at that instant); no fsync / '
        'power-loss reordering',
        'write failures: exceptions (6 OSError classes, 11 other Exception classes) raised at the deep copy, the open '
        'of the temp file, its two write halves and os.replace, and values the YAML dumper cannot represent / '
        'copy.deepcopy cannot copy handed to save_all; BaseExceptions that are not Exceptions are not injected',
        'stop sequence (part 3): data is handed over before the stop request, between the stop request and _do_stop(), and '
        'by handlers of the shutdown event (also through a persistent machine variable); saves made after shutdown() has '
        'set the stopper (by device / platform stop code or by tasks that run inside shutdown()) are not modelled; the '
        'handlers are registered by the driver (mpf\'s own shutdown handlers of the booted machine run as well)',
        'process exit (part 4): three timed scenarios with real `mpf game` processes (min_wait_secs=%d): a process that '
        'is stalled for more than about a second between the last save and its exit can hide a missing join; the '
        'writer idle in _dirty.wait() at the last save is a real race and is not judged' % EXIT_MIN_WAIT,
        'two threads are never let into ruamel dump() at the same time (it can crash the interpreter); two writers '
        'inside FileManager.save are reported from the trace before that point',
        'machine variables: every name has a fixed persist/expire policy; variables created by code get it from '
        'configure_machine_var() before each set_machine_var(), as all callers in mpf do; variables declared in the '
        'machine_vars: section of the config (master_volume of mpfconfig.yaml, int/float/str ones of machines/c15_mv, '
        'persist true and false, truthy and falsy initial values) are set with a bare set_machine_var(), also to falsy '
        'values (0, 0.0, -0.0, False, empty string) and back to their initial value; the config is the same for all boots '
        'of one execution; the persisted data passes through the real YAML writer/loader between boots, the '
        'TestDataManager stands in for the writer thread there; values are compared with Python ==',
    ]


def replay(ctx, data):
    d = data['replay']
    if 'mv_job' in d:
        j = dict(d['mv_job'], scratch=ctx.scratch)
        tr = run_mv_job(j)
        print('replay trace:', tr['ev'])
        wd = tlc.prepare(ctx.scratch, 'DataManager', 'machinevars')
        with open(wd + '/MVTrace.cfg', 'w') as f:
            f.write(MV_TRACE_CFG % ('', MV_MONITORS))
        v = tlc.validate_traces(wd, 'MachineVarsTrace', 'MVTrace.cfg', [tr])
        for i, info in v.rejected.items():
            ctx.violation(data['sig'], 'replayed: %s' % info, d)
        return
    if 'exit_scenario' in d:
        trs = collect_exit_runs(start_exit_runs(ctx, only=d['exit_scenario']))
        print('replay:', exit_story(trs[0]))
        validate_exit_runs(ctx, tlc.prepare(ctx.scratch, 'DataManager', 'datamanager'), trs, sig=data['sig'])
        return
    j = dict(d['job'], scratch=ctx.scratch)
    tr = run_job(j)
    print('replay trace:', show(tr['ev']))
    wd = tlc.prepare(ctx.scratch, 'DataManager', 'datamanager')
    write_trace_cfgs(wd, j.get('nm', 2))
    v = tlc.validate_traces(wd, 'DataManagerTrace', 'Trace.cfg', [tr])
    for i, info in v.rejected.items():
        ctx.violation(data['sig'], 'replayed: %s' % info, d)
