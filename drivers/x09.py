"""X09 - event-producing config players and the state machine device in a mode that starts and stops (specs/EventPlayers)."""
import os
import random
import traceback

from lib import tlc, harness
from lib.tlaval import to_tla

LEVEL = 'model_checking'
# 'delaysurvives' (a delayed event_player entry posted after its mode stopped) was repaired in /repo (cc176a7, it broke
# listed property C07); the deviation stays in the spec, disabled, as a regression: a tree that posts such an event is rejected
ALLDEV = ['staletransition', 'zeroweightcrash', 'qeargscrash']
U = 500            # ms per abstract time unit
KEEP = ('foo', 'n', 'src')


def T(src, tgt, evs, tev=False):
    return dict(src=list(src), tgt=tgt, evs=list(evs), tev=tev)


SM = {
    1: dict(start=1, tr=[T([1], 2, [1], True), T([2], 3, [2]), T([2, 3], 1, [1], True)], son=[False, True, True], soff=[True, True, False]),
    # two transitions of the same source on the same event
    2: dict(start=1, tr=[T([1], 2, [1]), T([1], 3, [1], True), T([2, 3], 1, [2])], son=[True, True, True], soff=[True, True, True]),
    # starting_state, a self loop, one transition on two events
    3: dict(start=2, tr=[T([2], 2, [1], True), T([1, 2], 3, [2]), T([3], 1, [1, 2])], son=[True, False, True], soff=[False, True, True]),
    # the second transition is registered for both the old and the new state
    4: dict(start=1, tr=[T([1], 2, [1]), T([1, 2], 3, [1], True), T([3], 1, [2])], son=[False, True, True], soff=[True, False, True]),
}
RND = {
    1: dict(rfa=True, rfd=True, rdr=False, rw=[1, 1, 1]),      # the defaults
    2: dict(rfa=False, rfd=True, rdr=False, rw=[1, 1, 1]),
    3: dict(rfa=True, rfd=False, rdr=False, rw=[2, 1, 1]),
    4: dict(rfa=False, rfd=False, rdr=False, rw=[1, 0, 2]),
    5: dict(rfa=False, rfd=False, rdr=True, rw=[1, 1, 1]),
    6: dict(rfa=False, rfd=True, rdr=False, rw=[1, 0, 0]),
}


def C(i, sm, rnd, qea=False):
    d = dict(id=i, qea=qea)
    d.update(SM[sm])
    d.update(RND[rnd])
    return d


TABLE = [C(1, 1, 1), C(2, 2, 2, True), C(3, 3, 3), C(4, 4, 4, True), C(5, 1, 5), C(6, 2, 6)]
BYID = {c['id']: c for c in TABLE}
CFGKEYS = ('id', 'qea', 'start', 'tr', 'son', 'soff', 'rfa', 'rfd', 'rdr', 'rw')


def cfg_rec(c):
    return {k: c[k] for k in CFGKEYS}


def yn(b):
    return 'true' if b else 'false'


def mode_yaml(c):
    p = 'c%d_' % c['id']
    L = ['#config_version=6', 'mode:', '  start_events: %sstart' % p, '  stop_events: %sstop' % p, '  game_mode: false', '  priority: 200',
         'state_machines:', '  %ssm:' % p, '    starting_state: s%d' % c['start'], '    states:']
    for k in (1, 2, 3):
        L += ['      s%d:' % k, '        label: state %d' % k]
        if c['son'][k - 1]:
            L.append('        events_when_started: %ss%d_started' % (p, k))
        if c['soff'][k - 1]:
            L.append('        events_when_stopped: %ss%d_stopped' % (p, k))
    L.append('    transitions:')
    for j, t in enumerate(c['tr'], 1):
        L += ['      - source: %s' % ', '.join('s%d' % s for s in t['src']), '        target: s%d' % t['tgt'],
              '        events: %s' % ', '.join('%ssm_e%d' % (p, e) for e in t['evs'])]
        if t['tev']:
            L.append('        events_when_transitioning: %st%d_trans' % (p, j))
    L += ['event_player:', '  %strig:' % p,
          '    %sa:' % p, '      foo: bar',
          '    %sb{v==1}: {}' % p,
          '    %sc|%dms: {}' % (p, U),
          '    %sd{v==1}|%dms: {}' % (p, 2 * U),
          '    %se_(tag): {}' % p,
          'random_event_player:', '  %srnd:' % p, '    scope: machine', '    force_all: %s' % yn(c['rfa']),
          '    force_different: %s' % yn(c['rfd']), '    disable_random: %s' % yn(c['rdr']), '    events:']
    L += ['      %sr%d: %d' % (p, k, c['rw'][k - 1]) for k in (1, 2, 3)]
    L += ['queue_event_player:', '  %sqe_go:' % p, '    queue_event: %srelay_q' % p, '    events_when_finished: %sqedone' % p,
          ] + (['    args:', '      src: qe'] if c['qea'] else []) + [
          'queue_relay_player:', '  %srelay_q:' % p, '    post: %sask' % p, '    wait_for: %sanswer' % p, '    pass_args: true', '']
    return '\n'.join(L)


def write_machine(scratch):
    d = os.path.join(scratch, 'machines', 'eventplayers')
    os.makedirs(d + '/config', exist_ok=True)
    for c in TABLE:
        os.makedirs(d + '/modes/m%d/config' % c['id'], exist_ok=True)
        with open(d + '/modes/m%d/config/m%d.yaml' % (c['id'], c['id']), 'w') as f:
            f.write(mode_yaml(c))
    with open(d + '/config/config.yaml', 'w') as f:
        f.write('#config_version=6\nmodes:\n%s\n' % '\n'.join('  - m%d' % c['id'] for c in TABLE))
    return d


def mc_module():
    return """---------------------------- MODULE EventPlayersMC ----------------------------
EXTENDS EventPlayers
MCConfigs == {%s}
MCNoDev == {}
MCAllDev == {%s}
MCGenDev == {%s}
=============================================================================
""" % (',\n   '.join(to_tla(cfg_rec(c)) for c in TABLE), ', '.join('"%s"' % d for d in ALLDEV), ', '.join('"%s"' % d for d in ALLDEV))


CFG = """SPECIFICATION %s
CONSTANTS
  Configs <- %s
  Deviations <- %s
  MaxOps = %d
  MaxT = %d
  MaxQ = %d
%sCHECK_DEADLOCK FALSE
"""
INVS = ['TypeOK', 'OneState', 'PendDue', 'WaitOnlyWhileActive', 'DoneOnce', 'RndState', 'ZeroWeightNever']
INTENT = ['FiredFromSource', 'NoDelayedAfterStop']
PROPS = ['InactiveInert', 'NoMatchNothing', 'TransitionEvents', 'TriggerOncePerEntry', 'DelayExact', 'RndExactlyOne', 'RndDifferent',
         'RndForceAll', 'RndInOrder', 'QueueHeld', 'ReleasedOnce']
INTENT_PROPS = ['AtMostOneTransition']


def props(intent):
    return ''.join('INVARIANT %s\n' % i for i in INVS + (INTENT if intent else [])) + \
        ''.join('PROPERTY %s\n' % p for p in PROPS + (INTENT_PROPS if intent else []))


# ---- execution on real mpf -------------------------------------------------------------------------------------------
_W = {}


def _machine(mdir):
    if _W.get('dirty') and 'h' in _W:
        harness.shutdown(_W.pop('h'))
    _W['dirty'] = False
    if 'h' not in _W:
        h = harness.boot(None, machine_dir=mdir)
        m = h.machine
        _W['h'] = h
        _W['log'] = []
        for c in TABLE:
            p = 'c%d_' % c['id']
            names = ['a', 'b', 'c', 'd', 'e_t0', 'e_t1', 'e_', 'r1', 'r2', 'r3', 'ask', 'qedone', 't1_trans', 't2_trans', 't3_trans']
            names += ['s%d_%s' % (k, w) for k in (1, 2, 3) for w in ('started', 'stopped')]
            for n in names:
                m.events.add_handler(p + n, _mk(c['id'], n), priority=1)
    return _W['h']


def _mk(cid, label):
    def hnd(**kwargs):
        _W['log'].append((cid, label + ''.join(':%s=%s' % (k, kwargs[k]) for k in KEEP if k in kwargs)))
    return hnd


def _done(cid, n):
    def cb(**kwargs):
        _W['log'].append((cid, 'done:%d' % n))
    return cb


def exec_schedule(job):
    mdir, cid, sched, seed = job
    ev = []
    try:
        _exec(mdir, cid, sched, ev, seed)
        return {'cfg': cfg_rec(BYID[cid]), 'ev': ev}
    except Exception as ex:  # pylint: disable=broad-except
        _W['dirty'] = True
        ev.append({'op': 'crash', 'after': 'setup', 'kind': 'other', 'what': repr(ex)[:300]})
        return {'cfg': cfg_rec(BYID[cid]), 'ev': ev, '_tb': traceback.format_exc()[-1500:]}


def _settle(h, n=6):
    for _ in range(n):
        h.advance_time_and_run(0)


def _reset(h, cid):
    """Bring configuration cid of the shared machine back to its initial condition: mode stopped, no delayed event of the
    event player outstanding, no randomizer state, nobody waiting."""
    m = h.machine
    mode = m.modes['m%d' % cid]
    if mode.active or mode.stopping:
        m.events.post('c%d_stop' % cid)
        _settle(h, 8)
    if mode.active:
        raise RuntimeError('mode did not stop')
    h.advance_time_and_run(3 * U / 1000.0)
    _settle(h)
    rp = m.random_event_player
    for k in [k for k in rp._machine_wide_dict if k.startswith('random_m%d.' % cid)]:      # pylint: disable=protected-access
        del rp._machine_wide_dict[k]                                                        # pylint: disable=protected-access


def _exec(mdir, cid, sched, ev, seed):
    h = _machine(mdir)
    try:
        _reset(h, cid)
    except Exception:  # pylint: disable=broad-except
        # the previous schedule of this configuration ended with a held queue whose release raises (qeargscrash): new machine
        _W['dirty'] = True
        h = _machine(mdir)
        _reset(h, cid)
    m = h.machine
    log = _W['log']
    p = 'c%d_' % cid
    mode = m.modes['m%d' % cid]
    sm = m.state_machines[p + 'sm']
    random.seed(seed)
    nq = [0]

    def obs(a):
        rec = dict(a)
        foreign = [x for x in log if x[0] != cid]
        rec['out'] = [x[1] for x in log if x[0] == cid]
        del log[:]
        if foreign:
            raise RuntimeError('events of a configuration that is not under test: %r' % foreign)
        rec['mode'] = bool(mode.active)
        s = sm.state
        rec['st'] = int(s[1:]) if s else 0
        ev.append(rec)

    _settle(h)
    del log[:]
    for a in sched:
        op = a['op']
        if op == 'init':
            continue
        try:
            if op == 'start':
                m.events.post(p + 'start')
            elif op == 'stop':
                m.events.post(p + 'stop')
            elif op == 'sme':
                m.events.post('%ssm_e%d' % (p, a['e']))
            elif op == 'trig':
                m.events.post(p + 'trig', v=a['v'], tag='t%d' % a['v'])
            elif op == 'rnd':
                m.events.post(p + 'rnd')
            elif op == 'qtrig':
                nq[0] += 1
                m.events.post_queue(p + 'relay_q', callback=_done(cid, nq[0]), n=nq[0])
            elif op == 'qego':
                m.events.post(p + 'qe_go')
            elif op == 'answer':
                m.events.post(p + 'answer')
            elif op == 'adv':
                h.advance_time_and_run(U * (1 + 1e-6) / 1000.0)
            else:
                raise ValueError(op)
            _settle(h, 8 if op in ('start', 'stop') else 5)
        except Exception as ex:  # pylint: disable=broad-except
            # an exception of the real code: never swallowed; the line is accepted only where the model names the deviation
            _W['dirty'] = True
            root = ex
            while root.__cause__ is not None or root.__context__ is not None:
                root = root.__cause__ or root.__context__
            ev.append({'op': 'crash', 'after': op, 'what': repr(root)[:300],
                       'kind': ('zero' if isinstance(root, ValueError) and 'empty range' in str(root) else
                                'qeargs' if isinstance(root, TypeError) and 'QueueEventPlayer._callback' in str(root) else 'other'),
                       '_tb': traceback.format_exc()[-1200:]})
            del log[:]
            return
        obs(a)


def A(op, **kw):
    d = {'op': op}
    d.update(kw)
    return d


def handmade():
    S, P, ADV, R, QT, QE, ANS = A('start'), A('stop'), A('adv'), A('rnd'), A('qtrig'), A('qego'), A('answer')
    E1, E2, T0, T1 = A('sme', e=1), A('sme', e=2), A('trig', v=0), A('trig', v=1)
    return [
        # state machine: events outside the mode, not matching the state, a full round, stop and restart from starting_state
        (1, [E1, S, E2, E1, E1, E2, E1, E2, E1, P, E1, E2, S, E1]),
        (3, [S, E1, E1, E2, E1, E2, E1, P, S, E2, E2]),
        # two transitions of one source on one event (staletransition)
        (2, [S, E1, E2, E1, P, S, E2, E1]),
        (4, [S, E1, E2, E1, E1]),
        (6, [S, E2, E1, E2, E1]),
        # event player: conditions, delays of 1 and 2 units, triggers in consecutive units, stop before the delay (delaysurvives)
        (1, [T1, S, T1, ADV, T0, ADV, ADV, ADV, T1, T1, ADV, ADV, ADV]),
        (3, [S, T1, P, ADV, ADV, ADV, S, T0, ADV, P, S, ADV, ADV]),
        (5, [S, T1, ADV, P, S, ADV, ADV, T0, P, T1, ADV, ADV]),
        # random event player: three full cycles, state kept over a restart of the mode
        (1, [R, S, R, R, R, R, R, R, P, R, S, R, R, R, R]),
        (2, [S] + [R] * 10),
        (3, [S, R, R, P, S, R, R, R, R, R, R]),
        (4, [S] + [R] * 10),
        (5, [S, R, R, P, R, S, R, R, R, R, R]),
        (6, [S, R, R]),
        # queue players: held until the answer, released by the mode stop, at once outside the mode, twice the answer
        (1, [QT, QE, ANS, S, QT, QE, QT, ANS, ANS, QT, QE, P, QT, ANS, S, QE, QE, ANS]),
        (3, [S, QT, QT, P, S, ANS, QT, ANS, QE, P]),
        (5, [S, QE, ADV, ANS, QT, ADV, ANS]),
        (2, [S, QT, ANS, QE, ANS]),
        (4, [S, QT, QE, P]),
    ]


def dev_counts(jobs, traces):
    n = dict.fromkeys(ALLDEV + ['delaysurvives'], 0)
    for job, t in zip(jobs, traces):
        c = t['cfg']
        mode = False
        for e in t['ev']:
            if e['op'] == 'crash':
                n['zeroweightcrash'] += 1 if e.get('kind') == 'zero' else 0
                n['qeargscrash'] += 1 if e.get('kind') == 'qeargs' else 0
                continue
            if e['op'] == 'sme' and sum(1 for x in e['out'] if x.endswith('_started') or x.endswith('_stopped')) > 2:
                n['staletransition'] += 1
            elif e['op'] == 'sme' and c['id'] == 4 and e['st'] == 3 and 's2_started' in e['out']:
                n['staletransition'] += 1
            if e['op'] == 'adv' and e['out'] and not mode:
                n['delaysurvives'] += 1
            mode = e['mode']
    return n


def run(ctx):
    mdir = write_machine(ctx.scratch)
    wd = tlc.prepare(ctx.scratch, 'EventPlayers', 'eventplayers')
    with open(wd + '/EventPlayersMC.tla', 'w') as f:
        f.write(mc_module())
    ops, maxt, maxq = (6, 3, 2) if ctx.quick else (8, 4, 2)
    for label, devs, intent in (('intent', 'MCNoDev', True), ('as-coded', 'MCAllDev', False)):
        with open(wd + '/MC_%s.cfg' % label, 'w') as f:
            f.write(CFG % ('Spec', 'MCConfigs', devs, ops, maxt, maxq, props(intent)))
        r = tlc.expect_ok(tlc.check(wd, 'EventPlayersMC', 'MC_%s.cfg' % label, timeout=1500, coverage=(label == 'as-coded')),
                          'EventPlayers design check (%s)' % label)
        ctx.add_tlc('EventPlayersMC/' + label, r, {'configs': len(TABLE), 'MaxOps': ops, 'MaxT': maxt, 'MaxQ': maxq,
                                                  'Deviations': [] if intent else ALLDEV})
        if label == 'as-coded':
            cov = r.coverage()
            missing = [a for a in ('Start', 'Stop', 'Adv', 'QTrig', 'QeGo', 'Answer', 'SmEvent', 'Trig', 'Rnd') if a in cov and cov[a][0] == 0]
            if missing:
                raise tlc.TLCError('actions never taken in the design check: %s' % missing)
            ctx.coverage['action_coverage'] = {k: list(v) for k, v in cov.items()}
    # the intent properties must really separate the code from the intent: with the deviations they have to fail
    with open(wd + '/MC_probe.cfg', 'w') as f:
        f.write(CFG % ('Spec', 'MCConfigs', 'MCAllDev', 4, 2, 1, 'INVARIANT FiredFromSource\n'))
    r = tlc.check(wd, 'EventPlayersMC', 'MC_probe.cfg', timeout=600)
    if r.violated != 'FiredFromSource':
        raise tlc.TLCError('reachability probe: the stale transition is not reachable in the as-coded model\n' + r.out[-1500:])
    ctx.coverage['monitors'] += INVS + PROPS + ['%s (intent model only)' % x for x in INTENT + INTENT_PROPS]
    with open(wd + '/Gen.cfg', 'w') as f:
        f.write(CFG % ('GSpec', 'MCConfigs', 'MCGenDev', 24, 12, 4, ''))
    behs, _ = tlc.simulate(wd, 'EventPlayersGen', 'Gen.cfg', num=240 if ctx.quick else 2000, depth=52, seed=ctx.seed)
    jobs = []
    for k, b in enumerate(behs):
        sched = [s['act'] for j, s in enumerate(b) if j > 0 and s['nops'] != b[j - 1]['nops']]
        jobs.append((mdir, b[0]['cfg']['id'], sched, ctx.seed * 100003 + k))
    jobs += [(mdir, cid, sched, ctx.seed * 7 + k) for k, (cid, sched) in enumerate(handmade())]
    traces = harness.pmap(exec_schedule, jobs, chunk=8)
    with open(wd + '/Trace.cfg', 'w') as f:
        f.write(CFG % ('TSpec', 'TConfigs', 'TAllDev', 1000000, 1000000, 8,
                       'INVARIANT Reporter\n' + ''.join('INVARIANT %s\n' % i for i in INVS if i != 'TypeOK')))
    v = tlc.validate_traces(wd, 'EventPlayersTrace', 'Trace.cfg', traces)
    ctx.add_trace_verdict('EventPlayersTrace', v, len(traces))
    ctx.coverage['configs_exercised'] = sorted({j[1] for j in jobs})
    ctx.coverage['steps'] = sum(len(t['ev']) for t in traces)
    ctx.sample({'kind': 'event-players-trace', 'cfg': traces[-18]['cfg'], 'trace': traces[-18]['ev'][:8]})
    n = dev_counts(jobs, traces)
    ctx.coverage['deviations_used'] = n
    ctx.notes.append('named deviations of mpf from its documentation, steps that showed them: %s' % n)
    tlc.finish_diagnosis(wd, 'EventPlayersTrace', 'Trace.cfg', traces, v)
    for i, info in sorted(v.rejected.items()):
        rp = {'cid': jobs[i][1], 'sched': jobs[i][2], 'seed': jobs[i][3], 'trace': traces[i], 'info': info}
        if info.get('reason') == 'monitor':
            ctx.violation('X09:monitor:%s' % info.get('monitor'), 'monitor %s violated by a real execution at line %s (cfg %s)' % (
                info.get('monitor'), info.get('line'), traces[i]['cfg']['id']), rp)
            continue
        if info.get('line') is None:
            continue
        fe = info.get('failing_event') or {}
        ctx.violation('X09:%s%s' % (fe.get('op', '?'), ':' + str(fe.get('after')) if fe.get('op') == 'crash' else ''),
                      'execution not explained by the EventPlayers spec at line %s: %s (prev %s; cfg %s)' % (
                          info.get('line'), {k: x for k, x in fe.items() if k != '_tb'}, info.get('prev_event'), traces[i]['cfg']['id']), rp)
    ctx.assumptions += ['one non-game mode per configuration in one shared machine (own event names), started / stopped by events; virtual time, '
                        '1 unit = %d ms; random.seed per schedule' % U,
                        'events of a step are compared in order, except for time passing and queue releases (bag)',
                        'random event player with scope machine only (no game); persist_state of state machines not exercised']


def replay(ctx, data):
    d = data['replay']
    mdir = write_machine(ctx.scratch)
    tr = exec_schedule((mdir, d['cid'], d['sched'], d.get('seed', 1)))
    for e in tr['ev']:
        print(e)
