"""X02 - achievements and achievement groups (specs/Achievements): per-player state machine, restore on the next ball,
group selection / rotation / auto_select / start_selected / all_completed / no_more_enabled."""
import os
import random

from lib import tlc, harness
from lib.tlaval import to_tla

LEVEL = 'model_checking'
AKINDS = ['enable', 'disable', 'start', 'stop', 'complete', 'reset', 'select', 'unselect']
GKINDS = ['enable', 'disable', 'start_selected', 'select_random', 'rotate_right', 'rotate_left']
STATES = ['disabled', 'enabled', 'started', 'stopped', 'completed', 'selected']
# behaviour of the code as it is that contradicts the statement (Achievements!Dev): the model-checking runs are made
# without them (the invariants state the intended behaviour), the executions are first validated without them and the
# rejected ones again with them enabled
DEVIATIONS = ['RestoreKeepsSelection', 'RotationFlagStuck', 'RotateSelectsTwo', 'SelectionForgottenAtBallStart']
DEV_WHAT = {
    'SelectionForgottenAtBallStart': 'achievement_group: a member that was selected when the ball ended is restored selected, but the group '
                                     'starts the next ball with _selected_member = None (and gets no notification of the restored states): '
                                     'select_random_achievement / rotate on the still disabled group (allow_selection_change_while_disabled) '
                                     'unselects nothing and selects a second member',
    'RestoreKeepsSelection': 'achievement._restore_state: an achievement that was enabled AND selected when the ball ended and has '
                             'enable_on_next_ball_when_enabled: false comes back disabled but still selected (the flag is not '
                             'cleared, events_when_selected is reposted for a disabled achievement)',
    'RotationFlagStuck': 'achievement_group.rotate_right: with no member that can be started the method returns after setting '
                         '_rotation_in_progress = True and never clears it: from then on _process_current_member_state does nothing '
                         '(no auto_select, no all_completed / no_more_enabled) until a later rotation succeeds - also on later balls '
                         'and for other players',
    'RotateSelectsTwo': 'achievement_group.rotate_right with nothing selected (auto_select: true): _get_current() selects a member '
                        'and the rotation then selects its neighbour as well: two members are selected',
}


def A_(ras=True, ronb=False, eonb=True, se=True):
    return dict(ras=ras, ronb=ronb, eonb=eonb, se=se)


def G_(i, ach, mem=(1, 2, 3), auto=False, norand=False, acwd=False, dwas=True, ewns=True):
    return dict(id=i, ach=list(ach), mem=list(mem), auto=auto, norand=norand, acwd=acwd, dwas=dwas, ewns=ewns)


MIX = [A_(ras=False, ronb=True, eonb=False, se=True), A_(), A_(se=False, ronb=True)]
CONFIGS = [
    G_(1, [A_(), A_(ras=False, eonb=False), A_(se=False, ronb=True)]),                     # defaults of the group
    G_(2, MIX, auto=True, norand=True),
    G_(3, [A_(), A_(eonb=False), A_(ras=False)], auto=True, acwd=True, dwas=False, ewns=False),
    G_(4, MIX, mem=(1, 2), norand=True, acwd=True, ewns=False),
    G_(5, [A_(eonb=False), A_(ronb=True), A_(se=False)], auto=True, dwas=False),
    G_(6, [A_(), A_(), A_(ras=False)], auto=True, norand=True, acwd=True),
    G_(7, [A_(), A_(ronb=True), A_(se=False)], mem=(1, 2), auto=True, norand=True),
]


def cfg_by_id(i):
    return [c for c in CONFIGS if c['id'] == i][0]


# ---- machine under test -----------------------------------------------------------------------------------------------
def write_machine(root, c):
    d = os.path.join(root, 'machines', 'ach_%d' % c['id'])
    if os.path.exists(d + '/modes/am/config/am.yaml'):
        return d
    os.makedirs(d + '/config', exist_ok=True)
    os.makedirs(d + '/modes/am/config', exist_ok=True)
    with open(d + '/config/config.yaml', 'w') as f:
        f.write('#config_version=6\ngame:\n  balls_per_game: 2\n  max_players: 2\nswitches:\n  s_start:\n    number:\n'
                '    tags: start\nmodes:\n  - am\n')
    b = lambda x: 'true' if x else 'false'
    L = ['#config_version=6', 'mode:', '  start_events: ball_starting', '  priority: 100', 'achievements:']
    for n, a in enumerate(c['ach'], 1):
        L.append('  a%d:' % n)
        L += ['    %s_events: a%d_%s' % (k, n, k) for k in AKINDS]
        L += ['    restart_after_stop_possible: ' + b(a['ras']), '    restart_on_next_ball_when_started: ' + b(a['ronb']),
              '    enable_on_next_ball_when_enabled: ' + b(a['eonb']), '    start_enabled: ' + b(a['se'])]
    L += ['achievement_groups:', '  grp:', '    achievements: ' + ', '.join('a%d' % n for n in c['mem']),
          '    enable_events: g_enable', '    disable_events: g_disable', '    start_selected_events: g_start_selected',
          '    select_random_achievement_events: g_select_random', '    rotate_right_events: g_rotate_right',
          '    rotate_left_events: g_rotate_left', '    auto_select: ' + b(c['auto']), '    disable_random: ' + b(c['norand']),
          '    allow_selection_change_while_disabled: ' + b(c['acwd']),
          '    disable_while_achievement_started: ' + b(c['dwas']),
          '    enable_while_no_achievement_started: ' + b(c['ewns']),
          '    events_when_all_completed: g_all_completed', '    events_when_no_more_enabled: g_no_more_enabled',
          '    events_when_enabled: g_enabled']
    with open(d + '/modes/am/config/am.yaml', 'w') as f:
        f.write('\n'.join(L) + '\n')
    return d


# ---- TLC configs ------------------------------------------------------------------------------------------------------
def tla_cfg(c):
    d = dict(c)
    d['mem'] = frozenset(c['mem'])
    return to_tla(d)


def mc_module(configs, name='AchievementsMC'):
    return r"""--------------------------- MODULE %s ---------------------------
EXTENDS Achievements
MCConfigs == {%s}
\* schedule shaping (simulation only): a game is started when none runs, balls end at regular places, group events are
\* not crowded out by the 24 achievement events
GenShape == /\ (Quiet /\ g.ph # "ball" /\ g.games < MaxGames) => act'.op = "newgame"
            /\ (Quiet /\ g.ph = "ball" /\ nops %% 8 = 7) => act'.op = "drain"
            /\ (Quiet /\ g.ph = "ball" /\ nops %% 8 \in {2, 5}) => act'.op = "grp"
            /\ (act'.op = "drain") => (g.ph = "ball" /\ nops %% 8 \in {7, 3})
=============================================================================
""" % (name, ',\n   '.join(tla_cfg(c) for c in configs))


def cfg_text(spec, configs_def, akinds, gkinds, maxops, maxdrains, maxgames, props, dev=()):
    q = lambda xs: ', '.join('"%s"' % x for x in xs)
    return """SPECIFICATION %s
CONSTANTS
  Configs <- %s
  AKinds = {%s}
  GKinds = {%s}
  MaxOps = %d
  MaxDrains = %d
  MaxGames = %d
  Deviations = {%s}
%sCHECK_DEADLOCK FALSE
""" % (spec, configs_def, q(akinds), q(gkinds), maxops, maxdrains, maxgames, q(dev), props)


A_PROPS = ('INVARIANT TypeOK\nINVARIANT SelOnlySelectable\nPROPERTY AchStep\nPROPERTY CompletedTerminal\nPROPERTY PerPlayer\n'
           'PROPERTY DeliverStep\nINVARIANT NotEnabledWhileStarted\n')
G_PROPS = A_PROPS + ('INVARIANT OneSelected\nINVARIANT AutoSelects\nINVARIANT SelmTracks\nINVARIANT RotationFlagClear\n'
                     'PROPERTY GroupStep\nINVARIANT AllCompletedOnce\n')
NOSEL = [k for k in AKINDS if k not in ('select', 'unselect')]
# exhaustive runs: (label, config ids, AKinds, GKinds, MaxOps quick/thorough, MaxDrains, MaxGames, properties)
MC_RUNS = [
    ('achievement state machine + ball ends', [1, 5], AKINDS, [], (4, 6), 2, 1, A_PROPS),
    ('group: selection', [2, 3, 6], ['enable', 'disable', 'start', 'complete'], GKINDS, (4, 6), 1, 1, G_PROPS),
    ('group: all members', [4, 5], NOSEL, ['enable', 'start_selected', 'rotate_right', 'select_random'], (4, 6), 1, 1, G_PROPS),
    ('group: completion', [7, 4, 3], ['start', 'complete', 'stop'], ['enable', 'start_selected', 'rotate_left'], (7, 8), 0, 1, G_PROPS),
]
PROBES = ['ProbeAllCompleted', 'ProbeAllCompletedOnce', 'ProbeNoMoreEnabled', 'ProbeRotated', 'ProbeStartSelected']

# ---- execution on real mpf ----------------------------------------------------------------------------------------------
FRESH = {'st': 'none', 'sel': False}


class Run:
    def __init__(self, mdir, c, seed):
        self.c = c
        self.h = harness.boot(None, machine_dir=mdir, fake_game=True)
        self.m = self.h.machine
        self.log = []
        self.ev = []
        for n in (1, 2, 3):
            for st in STATES:
                self.m.events.add_handler('achievement_a%d_state_%s' % (n, st), self._mk(st, n), priority=1)
        for e in ('all_completed', 'no_more_enabled', 'enabled'):
            self.m.events.add_handler('g_' + e, self._mkg('g_enabled' if e == 'enabled' else e), priority=1)
        self.m.playfield.add_ball = lambda **kwargs: None
        self.m.ball_controller.num_balls_known = 3
        random.seed(seed)       # achievement_group uses random.choice

    def _mk(self, st, n):
        def hnd(**kwargs):
            self.log.append([st, n, bool(kwargs.get('restore'))])
        return hnd

    def _mkg(self, name):
        def hnd(**kwargs):
            self.log.append([name, 0, False])
        return hnd

    def settle(self, n=12):
        for _ in range(n):
            self.h.advance_time_and_run(0)

    def snap(self, a):
        m, g = self.m, self.m.game
        rec = dict(a)
        achs = [m.achievements['a%d' % n] for n in (1, 2, 3)]
        grp = m.achievement_groups['grp']
        playing = bool(g and g.player)
        rec['playing'] = playing
        rec['cur'] = int(g.player.number) if playing else 0
        rec['ball'] = int(g.player.ball) if playing else 0
        rec['np'] = len(g.player_list) if playing else 0
        rec['sa'] = [{'st': x.state or 'none', 'sel': bool(x.selected)} for x in achs]
        pls = []
        for q in range(2):
            d = None
            if g and q < len(g.player_list):
                d = g.player_list[q].vars.get('achievements')
            d = d or {}
            pls.append([{'st': d[x.name][0] or 'none', 'sel': bool(d[x.name][1])} if x.name in d else dict(FRESH) for x in achs])
        rec['pl'] = pls
        rec['en'] = bool(grp.enabled)
        sm = grp._selected_member       # pylint: disable=protected-access
        rec['selm'] = int(sm.name[1:]) if sm else 0
        rec['_rot'] = bool(grp._rotation_in_progress)       # pylint: disable=protected-access
        rec['out'] = self.log[:]
        del self.log[:]
        self.ev.append(rec)

    def do(self, a):
        m, h = self.m, self.h
        op = a['op']
        if op == 'newgame':
            h.hit_and_release_switch('s_start')
            self.settle()
            if a['n'] == 2:
                h.hit_and_release_switch('s_start')
        elif op == 'ach':
            m.events.post('a%d_%s' % (a['a'], a['k']))
        elif op == 'grp':
            m.events.post('g_' + a['k'])
        elif op == 'drain':
            h.post_relay_event_with_params('ball_drain', balls=1)
        else:
            raise ValueError(op)
        self.settle()

    def run(self, sched):
        try:
            self.settle()
            del self.log[:]
            for a in sched:
                if a['op'] in ('init', 'deliver'):
                    continue
                self.do(a)
                self.snap(a)
            self.ev.append({'op': 'end'})
        finally:
            harness.shutdown(self.h)
        return self.ev


def exec_schedule(job):
    root, cid, sched, seed = job
    c = cfg_by_id(cid)
    r = None
    try:
        r = Run(write_machine(root, c), c, seed)
        return {'cfg': c, 'ev': r.run(sched)}
    except BaseException as ex:  # pylint: disable=broad-except
        import traceback
        return {'cfg': c, 'ev': (r.ev if r else []) + [{'op': 'crash', 'what': repr(ex)[:300]}], '_tb': traceback.format_exc()[-2000:]}


# ---- hand-written schedules ---------------------------------------------------------------------------------------------
def handmade():
    a = lambda k, n: {'op': 'ach', 'k': k, 'a': n}
    gr = lambda k: {'op': 'grp', 'k': k}
    NG1, NG2, D = {'op': 'newgame', 'n': 1}, {'op': 'newgame', 'n': 2}, {'op': 'drain'}
    out = []
    # every request twice and in every state; across the ball ends of two players
    out.append((1, [NG2, a('start', 1), a('start', 1), a('enable', 1), a('start', 1), a('stop', 1), a('stop', 1), a('start', 1),
                    a('complete', 1), a('complete', 1), a('enable', 1), a('disable', 1), a('reset', 1), a('reset', 1),
                    a('start', 2), a('stop', 2), a('start', 2), a('disable', 2), a('enable', 3), a('start', 3), D,
                    a('select', 1), a('select', 1), a('select', 2), a('unselect', 1), a('unselect', 1), a('start', 2), D,
                    a('start', 3), a('complete', 3), a('enable', 2), D, a('complete', 2), a('start', 1), D, a('start', 1), D,
                    a('start', 1)]))
    # selected and enabled at the end of the ball, enable_on_next_ball_when_enabled: false
    out.append((1, [NG1, a('select', 2), a('select', 1), D, a('start', 2), a('enable', 2), a('select', 2), D]))
    out.append((2, [NG1, gr('enable'), D, gr('enable'), gr('rotate_right'), gr('start_selected')]))
    # rotation among the members that can be started; nothing left to rotate
    out.append((2, [NG2, gr('enable'), gr('rotate_right'), gr('rotate_right'), gr('rotate_left'), a('enable', 3), gr('rotate_right'),
                    gr('rotate_right'), gr('rotate_right'), gr('start_selected'), a('complete', 3), gr('rotate_left'),
                    gr('start_selected'), a('complete', 2), gr('start_selected'), a('complete', 1), gr('enable'), D,
                    gr('enable'), gr('rotate_right'), gr('start_selected'), a('stop', 1), gr('rotate_right'), D, D]))
    out.append((2, [NG1, gr('enable'), a('disable', 1), a('disable', 2), gr('rotate_right'), a('enable', 1), a('enable', 2),
                    gr('rotate_right'), gr('select_random'), D, gr('enable'), a('enable', 3)]))
    # selection changes while the group is disabled; rotation with nothing selected
    out.append((3, [NG1, gr('rotate_right'), gr('rotate_right'), gr('enable'), gr('rotate_left'), gr('select_random'),
                    gr('start_selected'), gr('select_random'), a('complete', 1), gr('start_selected'), a('complete', 2), a('complete', 2),
                    gr('start_selected'), a('complete', 3), gr('enable')]))
    out.append((6, [NG1, gr('rotate_right'), gr('enable'), gr('rotate_right'), gr('disable'), gr('rotate_left'), gr('start_selected'),
                    gr('enable'), gr('start_selected'), gr('enable'), a('stop', 1), gr('rotate_right')]))
    out.append((4, [NG2, gr('enable'), gr('select_random'), gr('rotate_right'), gr('start_selected'), a('start', 3), a('complete', 1),
                    a('complete', 2), gr('enable'), gr('select_random'), gr('start_selected'), a('complete', 2), D, gr('enable'),
                    gr('select_random'), gr('rotate_left')]))
    # every member completed: enabled group, self-enabling group, group enabled by its event afterwards
    out.append((7, [NG1, a('start', 1), a('complete', 1), a('start', 2), a('complete', 2), gr('enable'), a('reset', 1), gr('enable'),
                    gr('start_selected'), a('complete', 1), D, gr('enable')]))
    out.append((3, [NG1, gr('enable'), a('start', 1), a('complete', 1), a('start', 2), a('complete', 2), a('start', 3), a('complete', 3),
                    gr('enable'), gr('rotate_right')]))
    out.append((1, [NG2, a('enable', 3), a('start', 1), a('complete', 1), a('start', 2), a('complete', 2), a('start', 3),
                    a('complete', 3), gr('enable'), D, gr('enable'), a('start', 1)]))
    out.append((5, [NG2, a('start', 1), a('enable', 3), a('start', 2), gr('rotate_right'), gr('start_selected'), a('complete', 1),
                    a('complete', 2), a('complete', 3), gr('enable'), D, a('start', 1), D, a('reset', 1), gr('rotate_right'), D]))
    return out


def symptoms(traces):
    """How often the executions show the behaviour named by the deviations (counted on the observations)."""
    n = {d: 0 for d in DEVIATIONS}
    for t in traces:
        prev = None
        for e in t['ev']:
            if 'sa' not in e:
                continue
            if e['op'] == 'drain' and any(x['sel'] and x['st'] == 'disabled' for x in e['sa']):
                n['RestoreKeepsSelection'] += 1
            if e['op'] == 'grp' and e['k'] in ('rotate_right', 'rotate_left', 'select_random') and prev is not None \
                    and prev['selm'] == 0 and sum(1 for x in prev['sa'] if x['sel']) == 1 and sum(1 for x in e['sa'] if x['sel']) >= 2:
                n['SelectionForgottenAtBallStart'] += 1
            if e.get('_rot') and not (prev or {}).get('_rot'):
                n['RotationFlagStuck'] += 1
            if e['op'] == 'grp' and e['k'] in ('rotate_right', 'rotate_left', 'select_random') and prev is not None \
                    and sum(1 for x in prev['sa'] if x['sel']) == 0 and sum(1 for x in e['sa'] if x['sel']) == 2:
                n['RotateSelectsTwo'] += 1
            prev = e
    return n


TRACE_MON = 'INVARIANT TypeOK\nINVARIANT Reporter\n'


def run(ctx):
    wd = tlc.prepare(ctx.scratch, 'Achievements', 'achievements')
    q = 0 if ctx.quick else 1
    from concurrent.futures import ThreadPoolExecutor

    def one(task):
        k, probe = task
        label, ids, ak, gk, maxops, maxdr, maxg, props = MC_RUNS[k]
        mod = 'AchievementsMC%d' % k
        if probe is None:
            with open(wd + '/MC%d.cfg' % k, 'w') as f:
                f.write(cfg_text('Spec', 'MCConfigs', ak, gk, maxops[q], maxdr, maxg, props))
            return tlc.check(wd, mod, 'MC%d.cfg' % k, workers=2, timeout=1500)
        # reachability: this configuration must reach what the group invariants talk about
        with open(wd + '/Probe_%s.cfg' % probe, 'w') as f:
            f.write(cfg_text('Spec', 'MCConfigs', ak, gk, maxops[q], maxdr, maxg, 'INVARIANT %s\n' % probe))
        return tlc.check(wd, mod, 'Probe_%s.cfg' % probe, workers=1, timeout=600)
    for k, run_ in enumerate(MC_RUNS):
        with open(wd + '/AchievementsMC%d.tla' % k, 'w') as f:
            f.write(mc_module([cfg_by_id(i) for i in run_[1]], 'AchievementsMC%d' % k))
    tasks = [(k, None) for k in range(len(MC_RUNS))] + [(len(MC_RUNS) - 1, p) for p in PROBES]
    with ThreadPoolExecutor(max_workers=len(tasks)) as ex:
        allres = list(ex.map(one, tasks))
    results = [[r] for r in allres[:len(MC_RUNS)]]
    results[-1] += allres[len(MC_RUNS):]
    for k, (label, ids, ak, gk, maxops, maxdr, maxg, props) in enumerate(MC_RUNS):
        r = tlc.expect_ok(results[k][0], 'Achievements design check (%s)' % label)
        ctx.add_tlc('AchievementsMC ' + label, r, {'configs': ids, 'AKinds': ak, 'GKinds': gk, 'MaxOps': maxops[q],
                                                   'MaxDrains': maxdr, 'MaxGames': maxg})
    for p, r in zip(PROBES, results[-1][1:]):
        if r.violated != p:
            raise tlc.TLCError('reachability probe %s not reached (vacuous model-checking run)\n%s' % (p, r.out[-1500:]))
    ctx.coverage['reachability_probes'] = PROBES
    ctx.coverage['monitors'] += ['SelOnlySelectable', 'AchStep', 'CompletedTerminal', 'PerPlayer', 'DeliverStep',
                                 'NotEnabledWhileStarted', 'OneSelected', 'AutoSelects', 'SelmTracks', 'RotationFlagClear',
                                 'GroupStep', 'AllCompletedOnce']
    # schedules
    with open(wd + '/AchievementsMC.tla', 'w') as f:
        f.write(mc_module(CONFIGS))
    with open(wd + '/Gen.cfg', 'w') as f:
        f.write(cfg_text('Spec', 'MCConfigs', AKINDS, GKINDS, 40, 8, 2, 'ACTION_CONSTRAINT GenShape\n', dev=DEVIATIONS))
    behs, _ = tlc.simulate(wd, 'AchievementsMC', 'Gen.cfg', num=170 if ctx.quick else 2400, depth=70 if ctx.quick else 90,
                           seed=ctx.seed)
    jobs = []
    for cid, sched in handmade():
        jobs.append((ctx.scratch, cid, sched, 7))
        if not cfg_by_id(cid)['norand']:
            jobs.append((ctx.scratch, cid, sched, 8))
    jobs += [(ctx.scratch, b[0]['cfg']['id'], [st['act'] for st in b], ctx.seed * 1000 + i) for i, b in enumerate(behs)]
    for c in CONFIGS:
        write_machine(ctx.scratch, c)
    traces = harness.pmap(exec_schedule, jobs, nproc=12, item_timeout=120)
    with open(wd + '/Trace.cfg', 'w') as f:
        f.write(cfg_text('TSpec', 'TConfigs', AKINDS, GKINDS, 1000000, 1000000, 1000000, TRACE_MON))
    with open(wd + '/TraceDev.cfg', 'w') as f:
        f.write(cfg_text('TSpec', 'TConfigs', AKINDS, GKINDS, 1000000, 1000000, 1000000, TRACE_MON, dev=DEVIATIONS))
    v = tlc.validate_traces(wd, 'AchievementsTrace', 'Trace.cfg', traces, batch=200, diagnose=False)
    ctx.add_trace_verdict('AchievementsTrace', v, len(traces))
    explained = set()
    cand = sorted(v.rejected)
    if cand:
        v2 = tlc.validate_traces(wd, 'AchievementsTrace', 'TraceDev.cfg', [traces[i] for i in cand], batch=200, diagnose=False)
        ctx.add_trace_verdict('AchievementsTrace(Deviations={%s})' % ','.join(DEVIATIONS), v2, 0)
        explained = {cand[k] for k in v2.accepted}
    # which single deviation explains which execution
    alone = {}
    for d in DEVIATIONS if explained and not ctx.quick else []:
        with open(wd + '/TraceDev_%s.cfg' % d, 'w') as f:
            f.write(cfg_text('TSpec', 'TConfigs', AKINDS, GKINDS, 1000000, 1000000, 1000000, TRACE_MON, dev=[d]))
        ex = sorted(explained)
        vd = tlc.validate_traces(wd, 'AchievementsTrace', 'TraceDev_%s.cfg' % d, [traces[i] for i in ex], batch=200, diagnose=False)
        alone[d] = len(vd.accepted)
    ctx.coverage['executions_explained_by_one_deviation_alone'] = alone
    sym = symptoms(traces)
    ctx.coverage['deviations'] = {'executions explained only with the named deviations': len(explained), 'symptoms_observed': sym}
    for d in DEVIATIONS:
        ctx.notes.append('deviation %s (code as it is, candidate defect): symptom observed %d times - %s' % (d, sym[d], DEV_WHAT[d]))
    ctx.notes.append('%d of %d executions are accepted only with the deviations enabled' % (len(explained), len(traces)))
    ops = {}
    for t in traces:
        for e in t['ev']:
            key = e['op'] + (':' + e['k'] if 'k' in e else '')
            ops[key] = ops.get(key, 0) + 1
    ctx.coverage['actions_executed'] = ops
    ctx.coverage['observed'] = {
        'steps with exactly one member selected': sum(1 for t in traces for e in t['ev'] if sum(1 for x in e.get('sa', []) if x['sel']) == 1),
        'all_completed events': sum(1 for t in traces for e in t['ev'] for o in e.get('out', []) if o[0] == 'all_completed'),
        'no_more_enabled events': sum(1 for t in traces for e in t['ev'] for o in e.get('out', []) if o[0] == 'no_more_enabled'),
        'restore events': sum(1 for t in traces for e in t['ev'] for o in e.get('out', []) if o[2]),
        'steps with the group enabled': sum(1 for t in traces for e in t['ev'] if e.get('en')),
        'two-player games': sum(1 for t in traces if any(e.get('np') == 2 for e in t['ev']))}
    ctx.sample({'kind': 'achievement-trace', 'cfg': traces[0]['cfg'], 'trace': traces[0]['ev'][:6]})
    todo = {i: info for i, info in v.rejected.items() if i not in explained}
    if todo:
        v3 = tlc.TraceVerdict()
        v3.rejected = {i: {'reason': 'unexplained', 'line': None} for i in sorted(todo)[:40]}     # the first 40 are located
        tlc.finish_diagnosis(wd, 'AchievementsTrace', 'TraceDev.cfg', traces, v3, limit=40)
        ctx.coverage['executions_not_explained'] = len(todo)
        for i, info in sorted(v3.rejected.items()):
            ln = info.get('line') or 0
            ev = traces[i]['ev']
            fe = info.get('failing_event') or {}
            pe = info.get('prev_event') or {}
            # the observation of line ln-1 is compared when line ln is consumed
            culprit = pe if pe and fe.get('op') != 'crash' else fe
            sig = 'X02:unexplained:%s%s' % (culprit.get('op', '?'), ':' + culprit['k'] if 'k' in culprit else '')
            ctx.violation(sig, 'execution not explained by the Achievements spec: the observation after line %d (%s) or the step of line %d '
                               '(%s) - cfg %s; lines before: %s %s' % (
                                   ln - 1, pe, ln, {k: fe[k] for k in fe if k in ('op', 'k', 'a', 'n', 'what')}, traces[i]['cfg'],
                                   [{k: e[k] for k in e if k in ('op', 'k', 'a', 'n')} for e in ev[max(0, ln - 8):max(0, ln - 2)]],
                                   traces[i].get('_tb', '')),
                          {'job': [None, jobs[i][1], jobs[i][2], jobs[i][3]], 'line': ln})
    ctx.assumptions += [
        'fake game (MpfFakeGameTestCase plumbing, no ball devices): a ball ends by the ball_drain relay event; 2 balls per game, 1-2 '
        'players (the second joins during ball 1); the achievements live in a game mode started by ball_starting',
        'every control event is posted through the real event bus and the queue is run dry before observing',
        'three achievements, one group; six configurations of the options (see CONFIGS); shows are not configured',
        'random.choice of select_random_achievement is seeded per execution; the model leaves the pick free',
        'the achievement_<a>_changed_state events of a mode start reach nobody (no handler registered yet): modelled as the code behaves',
    ]


def replay(ctx, data):
    d = data['replay']
    job = d['job']
    tr = exec_schedule((ctx.scratch, job[1], job[2], job[3]))
    for i, e in enumerate(tr['ev']):
        print(i + 1, {k: e[k] for k in e if k != 'pl'})
        print('      pl', e.get('pl'))
    print(tr.get('_tb', ''))
