"""X01 - shots, shot profiles and shot groups behave as documented (specs/Shots)."""
import os

from lib import tlc, harness
from lib.tlaval import to_tla

LEVEL = 'model_checking'
EPS = 1e-6
UNIT = 100          # ms per abstract time unit
NAMES = ['a', 'b', 'c', 'd']
KEYS = ('id', 'n', 'ns', 'loop', 'aoh', 'block', 'swd', 'shows', 'sw', 'prio', 'en0', 'grp', 'rotev', 'norot', 'pat', 'dly')
DEVIATIONS = []


def S(i, n, ns=3, loop=False, aoh=True, block=False, swd=False, shows=(), sw=None, prio=None, en0=None, grp=True, rotev=False,
      norot=(), pat=('R',), dly=0):
    """One scenario: n shots s<i>_1..n sharing profile pr<i> (ns states a,b,..), shot k on switch w<i>_<sw[k]> with priority
    prio[k] and start_enabled en0[k]; shows: indices of the states that have a show; optional group g<i> over all of them;
    dly > 0: shot 1 has delay switch wd<i> with dly units."""
    return dict(id=i, n=n, ns=ns, loop=loop, aoh=aoh, block=block, swd=swd, shows=list(shows),
                sw=list(sw or range(1, n + 1)), prio=list(prio or [0] * n), en0=list(en0 or [True] * n),
                grp=grp, rotev=rotev, norot=list(norot), pat=list(pat), dly=dly)


TABLE = [
    S(1, 3),                                                            # plain group of three
    S(2, 3, loop=True, pat=('R', 'L', 'L')),                            # looping profile, rotation pattern
    S(3, 3, norot=(0,), en0=[True, False, True]),                       # first state is not rotated, one shot starts disabled
    S(4, 2, ns=2, aoh=False, rotev=True, shows=(1,)),                   # no advance on hit, rotation must be enabled first
    S(5, 3, block=True, sw=[1, 1, 2], prio=[5, 0, 0], shows=(0, 2)),    # blocking profile, two shots on one switch
    S(6, 3, sw=[1, 1, 1], prio=[2, 1, 0], ns=2, loop=True),             # same switch, no blocking
    S(7, 2, dly=2, shows=(0, 1), swd=True),                             # delay switch; shows also when disabled
    S(8, 1, ns=4, grp=False, en0=[False], shows=(1, 2)),                # single shot without a group
    S(9, 3, ns=4, norot=(1, 3), pat=('L', 'R'), loop=True, block=True, sw=[1, 2, 2], prio=[0, 3, 3]),
    S(10, 2, ns=3, dly=1, block=True, sw=[1, 1], prio=[10, 1], en0=[True, True]),    # gap > 5: blocks also in the code; the blocker has the delay switch
]


def cfg_rec(c):
    return {k: c[k] for k in KEYS}


def yn(b):
    return 'true' if b else 'false'


def write_machine(scratch):
    d = os.path.join(scratch, 'machines', 'shots')
    if os.path.exists(d + '/modes/sm/config/sm.yaml'):
        return d
    os.makedirs(d + '/config', exist_ok=True)
    os.makedirs(d + '/modes/sm/config', exist_ok=True)
    sws = ['  s_start:\n    number:\n    tags: start']
    prof, shots, groups = [], [], []
    for c in TABLE:
        i = c['id']
        for k in sorted(set(c['sw'])):
            sws.append('  w%d_%d:\n    number:' % (i, k))
        if c['dly']:
            sws.append('  wd%d:\n    number:' % i)
        prof += ['  pr%d:' % i, '    loop: %s' % yn(c['loop']), '    advance_on_hit: %s' % yn(c['aoh']), '    block: %s' % yn(c['block']),
                 '    show_when_disabled: %s' % yn(c['swd']), '    rotation_pattern: %s' % ', '.join(c['pat'])]
        if c['norot']:
            prof.append('    state_names_to_not_rotate: %s' % ', '.join(NAMES[x] for x in c['norot']))
        prof.append('    states:')
        for x in range(c['ns']):
            prof.append('      - name: %s' % NAMES[x])
            if x in c['shows']:
                prof.append('        show: xshow')
        for k in range(1, c['n'] + 1):
            n = 's%d_%d' % (i, k)
            shots += ['  %s:' % n, '    switch: w%d_%d' % (i, c['sw'][k - 1]), '    profile: pr%d' % i,
                      '    priority: %d' % c['prio'][k - 1], '    start_enabled: %s' % yn(c['en0'][k - 1]),
                      '    enable_events: %s_enable' % n, '    disable_events: %s_disable' % n, '    reset_events: %s_reset' % n,
                      '    restart_events: %s_restart' % n, '    advance_events: %s_advance' % n, '    hit_events: %s_hitev' % n,
                      '    mark_playfield_active: false']
            if c['dly'] and k == 1:
                shots += ['    delay_switch:', '      wd%d: %dms' % (i, c['dly'] * UNIT)]
            shots.append('    control_events:')
            for x in range(c['ns']):
                for f in (True, False):
                    shots += ['      - events: %s_j%d%s' % (n, x, 'f' if f else 'n'), '        state: %d' % x, '        force: %s' % yn(f)]
        if c['grp']:
            g = 'g%d' % i
            groups += ['  %s:' % g, '    shots: %s' % ', '.join('s%d_%d' % (i, k) for k in range(1, c['n'] + 1)),
                       '    rotate_events: %s_rotate' % g, '    rotate_left_events: %s_rotl' % g, '    rotate_right_events: %s_rotr' % g,
                       '    enable_events: %s_enable' % g, '    disable_events: %s_disable' % g, '    reset_events: %s_reset' % g,
                       '    restart_events: %s_restart' % g, '    disable_rotation_events: %s_disrot' % g]
            if c['rotev']:
                groups.append('    enable_rotation_events: %s_enrot' % g)
    with open(d + '/config/config.yaml', 'w') as f:
        f.write('#config_version=6\ngame:\n  balls_per_game: 3\n  max_players: 1\nswitches:\n%s\nmodes:\n  - sm\n'
                'shows:\n  xshow:\n    - duration: -1\n' % '\n'.join(sws))
    with open(d + '/modes/sm/config/sm.yaml', 'w') as f:
        f.write('#config_version=6\nmode:\n  start_events: ball_starting, start_sm\n  stop_events: stop_sm\n  priority: 100\n'
                'shot_profiles:\n%s\nshots:\n%s\nshot_groups:\n%s\n' % ('\n'.join(prof), '\n'.join(shots), '\n'.join(groups)))
    return d


# ---- TLC configs ------------------------------------------------------------------------------------------------------
def mc_module(table, name='ShotsMC', base='Shots'):
    return """----------------------------- MODULE %s -----------------------------
EXTENDS %s
MCConfigs == {%s}
=============================================================================
""" % (name, base, ',\n   '.join(to_tla(cfg_rec(c)) for c in table))


def cfg_text(spec, configs, maxops, maxtime, props, dev=()):
    return """SPECIFICATION %s
CONSTANTS
  Configs <- %s
  MaxOps = %d
  MaxTime = %d
  Deviations = {%s}
%sCHECK_DEADLOCK FALSE
""" % (spec, configs, maxops, maxtime, ', '.join('"%s"' % d for d in dev), props)


INVS = ['TypeOK', 'CommonTracked', 'DelayOnlyEnabled']
ACTPROPS = ['HitExact', 'BlockExact', 'OnlyEnabledOrForced', 'EnableOps', 'GroupReachesAll', 'RotatePermutes', 'CompleteExact',
            'StoppedInert', 'StopKeeps']
PROPS = ''.join('INVARIANT %s\n' % x for x in INVS) + ''.join('PROPERTY %s\n' % x for x in ACTPROPS)
DEV_WHAT = {
    'BlockOffset': 'a shot whose profile says block: true does not block a lower-priority shot on the same switch when the '
                   'priorities differ by 5 or less: Shot._register_switch_handlers registers event_hit with priority '
                   'mode.priority + config priority, EventManager.add_handler adds the relative priority 5 of @event_handler(5), '
                   'while Shot.event_hit puts mode.priority + config priority (without the 5) into _min_priority and '
                   '_run_handlers skips a handler only if that threshold is GREATER than the handler priority',
    'CtlLost': 'control_events (jump) of a shot that had never been enabled when its mode stopped do not work any more after the '
               'mode is started again: Shot._initialize keeps the control-event handler keys in self._handlers, the list '
               '_remove_switch_handlers (called by _disable on device_removed_from_mode) removes from the event manager; a shot '
               'that was enabled once forgot those keys in _register_switch_handlers and keeps its control events',
}

# ---- execution on real mpf ------------------------------------------------------------------------------------------
KIND = {}


def ev_names(c):
    """event name -> (who, kind, state index or None) for everything the statement talks about in scenario c."""
    i = c['id']
    out = {}
    for k in range(1, c['n'] + 1):
        n = 's%d_%d' % (i, k)
        out[n + '_hit'] = (k, 'hit', None)
        out['%s_pr%d_hit' % (n, i)] = (k, 'phit', None)
        for x in range(c['ns']):
            out['%s_pr%d_%s_hit' % (n, i, NAMES[x])] = (k, 'pshit', x)
            out['%s_%s_hit' % (n, NAMES[x])] = (k, 'shit', x)
    if c['grp']:
        g = 'g%d' % i
        out[g + '_hit'] = (0, 'ghit', None)
        out[g + '_complete'] = (0, 'c', None)
        for x in list(range(c['ns'])):
            out['%s_%s_hit' % (g, NAMES[x])] = (0, 'gshit', x)
            out['%s_%s_complete' % (g, NAMES[x])] = (0, 'sc', x)
        out['%s_None_hit' % g] = (0, 'gshit', -9)
        out['%s_None_complete' % g] = (0, 'sc', -9)
    return out


def sidx(name):
    return NAMES.index(name) if name in NAMES else -9


class Run:
    def __init__(self, mdir, c, sched):
        self.c = c
        self.sched = sched
        self.h = harness.boot(None, machine_dir=mdir, fake_game=True)
        self.m = self.h.machine
        self.log = []
        self.ev = []
        i = c['id']
        self.shots = [self.m.shots['s%d_%d' % (i, k)] for k in range(1, c['n'] + 1)]
        self.grp = self.m.shot_groups['g%d' % i] if c['grp'] else None
        self.names = ev_names(c)
        for e in self.names:
            self.m.events.add_handler(e, self._mk(e), priority=1000000)
        self.m.playfield.add_ball = lambda **kwargs: None

    def _mk(self, e):
        def hnd(**kwargs):
            self.log.append((e, kwargs.get('state'), kwargs.get('profile'), kwargs.get('advancing')))
        return hnd

    def settle(self, n=6):
        for _ in range(n):
            self.h.advance_time_and_run(0)

    def snap(self, a):
        c, m = self.c, self.m
        rec = dict(a)
        active = bool(m.modes['sm'].active)
        pv = m.game.player.vars
        rec['st'] = [int(s.state) if active else int(pv.get('shot_' + s.name, 0)) for s in self.shots]
        rec['en'] = [bool(s.enabled) for s in self.shots]
        rec['show'] = [bool(s.running_show) for s in self.shots]
        hs = [[] for _ in self.shots]
        ghn, ghs, gc = 0, [0] * c['ns'], []
        for e, state, profile, advancing in self.log:
            who, kind, x = self.names[e]
            if who:
                s = sidx(state)
                if (x is not None and x != s) or profile != 'pr%d' % c['id'] or not isinstance(advancing, bool):
                    s = -9
                hs[who - 1].append([kind, s, bool(advancing)])
            elif kind == 'ghit':
                ghn += 1
            elif kind == 'gshit':
                if 0 <= x < c['ns']:
                    ghs[x] += 1
                else:
                    ghn += 100
            elif kind == 'c':
                gc.append(['c', sidx(state)])
            else:
                gc.append(['sc', x])
        del self.log[:]
        rec.update({'h': hs, 'ghn': ghn, 'ghs': ghs, 'gc': gc})
        if self.grp is not None:
            cs = self.grp.common_state
            rec['common'] = -1 if cs is None else sidx(cs)
            rec['rot'] = bool(self.grp.rotation_enabled)
        else:
            rec['common'] = -1
            rec['rot'] = True
        self.ev.append(rec)

    def do(self, a):
        m, h, c = self.m, self.h, self.c
        i = c['id']
        op = a['op']
        sn = 's%d_%d' % (i, a['i']) if 'i' in a else None
        g = 'g%d' % i
        if op == 'sw':
            h.hit_and_release_switch('w%d_%d' % (i, a['k']))
        elif op == 'dsw':
            h.hit_and_release_switch('wd%d' % i)
        elif op == 'hitev':
            m.events.post(sn + '_hitev')
        elif op == 'advance':
            if a['f']:
                m.events.post(sn + '_advance', force=True)
            else:
                m.events.post(sn + '_advance')
        elif op == 'jump':
            m.events.post('%s_j%d%s' % (sn, a['x'], 'f' if a['f'] else 'n'))
        elif op in ('reset', 'restart', 'enable', 'disable'):
            m.events.post('%s_%s' % (sn, op))
        elif op in ('greset', 'grestart', 'genable', 'gdisable'):
            m.events.post('%s_%s' % (g, op[1:]))
        elif op == 'grot':
            m.events.post('%s_%s' % (g, {'P': 'rotate', 'L': 'rotl', 'R': 'rotr'}[a['d']]))
        elif op == 'genrot':
            if c['rotev']:
                m.events.post(g + '_enrot')
            elif m.modes['sm'].active:      # no enable_rotation_events configured: the device's method, as a running mode's code would
                self.grp.enable_rotation()
        elif op == 'gdisrot':
            m.events.post(g + '_disrot')
        elif op == 'modestop':
            m.events.post('stop_sm')
        elif op == 'modestart':
            m.events.post('start_sm')
        elif op == 'adv':
            h.advance_time_and_run(UNIT * (1 + EPS) / 1000.0)
        else:
            raise ValueError(op)
        self.settle()

    def run(self):
        try:
            self.settle()
            self.h.hit_and_release_switch('s_start')
            self.settle(12)
            if not self.m.game or not self.m.game.player or not self.m.modes['sm'].active:
                raise RuntimeError('game / mode sm did not start')
            del self.log[:]
            self.snap({'op': 'obs'})
            for a in self.sched:
                if a['op'] == 'init':
                    continue
                self.do(a)
                self.snap(a)
        finally:
            harness.shutdown(self.h)
        return self.ev


def exec_schedule(job):
    mdir, cid, sched = job
    c = [x for x in TABLE if x['id'] == cid][0]
    r = None
    try:
        r = Run(mdir, c, sched)
        return {'cfg': cfg_rec(c), 'ev': r.run()}
    except BaseException as ex:  # pylint: disable=broad-except
        import traceback
        return {'cfg': cfg_rec(c), 'ev': (r.ev if r else []) + [{'op': 'crash', 'what': repr(ex)[:300]}],
                '_tb': traceback.format_exc()[-1500:]}


# ---- hand-written schedules -------------------------------------------------------------------------------------------
def A(op, **kw):
    d = {'op': op}
    d.update(kw)
    return d


def handmade():
    sw = lambda k: A('sw', k=k)
    jump = lambda i, x, f=True: A('jump', i=i, x=x, f=f)
    rot = lambda d: A('grot', d=d)
    ADV, STOP, START = A('adv'), A('modestop'), A('modestart')
    out = []
    # complete: all to b, all to c (last state, no loop), further hits stay and do not complete again; reset completes at a
    out.append((1, [sw(1), sw(2), sw(3), sw(1), sw(2), sw(3), sw(3), sw(1), A('greset'), A('greset'), sw(1), jump(1, 0), jump(2, 1),
                    jump(3, 1), jump(1, 1), rot('R'), rot('L'), A('gdisable'), sw(1), A('hitev', i=1), A('advance', i=1, f=False),
                    A('advance', i=1, f=True), jump(2, 2, False), jump(2, 2, True), jump(3, 2), A('grestart'), sw(2)]))
    # rotation pattern R, L, L with a looping profile; rotation disabled in between (the pattern does not move then)
    out.append((2, [sw(1), sw(2), sw(2), rot('P'), rot('P'), rot('P'), rot('P'), A('gdisrot'), rot('P'), rot('R'), A('genrot'), rot('P'),
                    sw(3), sw(3), sw(3), sw(1), sw(1), rot('L'), rot('R')]))
    # states excluded from rotation; a disabled member rotates too
    out.append((3, [sw(1), rot('R'), sw(1), sw(3), rot('R'), rot('L'), jump(2, 2), rot('R'), rot('R'), rot('P'), A('enable', i=2), sw(2),
                    rot('L'), A('greset')]))
    out.append((9, [sw(1), sw(2), rot('P'), sw(2), rot('P'), sw(1), sw(1), rot('L'), rot('R'), sw(2), sw(2), rot('P')]))
    # no advance on hit; rotation must be enabled by its event; stop / start resets that
    out.append((4, [sw(1), sw(1), rot('R'), A('genrot'), jump(1, 1), rot('R'), rot('P'), STOP, rot('R'), sw(1), jump(1, 0), START, rot('R'),
                    A('genrot'), rot('R'), A('advance', i=2, f=False), sw(2)]))
    # blocking: priorities 5 / 0 on one switch (the gap the handler priority swallows), 10 / 1 with a delay switch on the blocker
    out.append((5, [sw(1), sw(1), sw(2), A('disable', i=1), sw(1), A('enable', i=1), sw(1), sw(1), A('greset'), sw(1)]))
    out.append((10, [sw(1), A('dsw'), sw(1), ADV, sw(1), A('dsw'), A('disable', i=1), A('enable', i=1), sw(1), sw(1), sw(1)]))
    out.append((9, [sw(2), sw(2), A('disable', i=2), sw(2), sw(2), sw(2), sw(2)]))
    out.append((6, [sw(1), A('disable', i=2), sw(1), sw(1), A('genable'), sw(1)]))
    # delay switch: restarted by a second activation, forgotten by disable and by the mode stop, ignored while disabled
    out.append((7, [A('dsw'), sw(1), A('hitev', i=1), ADV, A('dsw'), ADV, sw(1), ADV, sw(1), A('dsw'), A('disable', i=1), A('enable', i=1), sw(1),
                    A('disable', i=1), A('dsw'), A('enable', i=1), sw(1), A('dsw'), STOP, START, sw(1), A('dsw'), A('advance', i=1, f=False),
                    sw(2), ADV, ADV, sw(1)]))
    # a shot never enabled when its mode stops, then jumps; the same after it was enabled once
    out.append((8, [jump(1, 1), sw(1), STOP, jump(1, 2), START, jump(1, 2), jump(1, 3, False), A('enable', i=1), sw(1), jump(1, 0, False)]))
    out.append((8, [A('enable', i=1), A('disable', i=1), STOP, START, jump(1, 2), sw(1), A('restart', i=1), sw(1), sw(1), sw(1), sw(1), sw(1)]))
    out.append((3, [STOP, START, jump(2, 1), jump(1, 1), jump(3, 1), STOP, START, A('greset'), sw(2)]))
    return out


def run(ctx):
    mdir = write_machine(ctx.scratch)
    wd = tlc.prepare(ctx.scratch, 'Shots', 'shots')
    # exhaustive design check: all scenarios; in the thorough tier also one more operation for the scenarios with <= 2 shots
    mcs = [('ShotsMC', TABLE, 3, 2)] if ctx.quick else [('ShotsMC', TABLE, 3, 3), ('ShotsMC small', [c for c in TABLE if c['id'] in (4, 8, 10)], 4, 2)]
    for label, table, mo, mt in mcs:
        with open(wd + '/ShotsMC.tla', 'w') as f:
            f.write(mc_module(table))
        with open(wd + '/MC.cfg', 'w') as f:
            f.write(cfg_text('Spec', 'MCConfigs', mo, mt, PROPS))
        cov = bool(os.environ.get('X01_COVERAGE'))
        r = tlc.expect_ok(tlc.check(wd, 'ShotsMC', 'MC.cfg', workers=8, timeout=1500, coverage=cov), 'Shots design check')
        if cov:
            ctx.log('coverage: %s' % sorted(r.coverage().items()))
        ctx.add_tlc(label, r, {'configs': [c['id'] for c in table], 'MaxOps': mo, 'MaxTime': mt})
    ctx.coverage['monitors'] += INVS + ACTPROPS
    # schedules
    with open(wd + '/ShotsGenMC.tla', 'w') as f:
        f.write(mc_module(TABLE, 'ShotsGenMC', 'ShotsGen'))
    with open(wd + '/Gen.cfg', 'w') as f:
        f.write(cfg_text('GSpec', 'MCConfigs', 40, 8, ''))
    behs, _ = tlc.simulate(wd, 'ShotsGenMC', 'Gen.cfg', num=200 if ctx.quick else 1500, depth=50 if ctx.quick else 80, seed=ctx.seed)
    jobs = []
    for b in behs:
        sched = [s['act'] for k, s in enumerate(b) if k and s['pick'] == 0]
        jobs.append((mdir, b[0]['cfg']['id'], sched))
    jobs += [(mdir, cid, sched) for cid, sched in handmade()]
    traces = harness.pmap(exec_schedule, jobs, nproc=8 if ctx.quick else 12, item_timeout=120)
    big = 1000000
    with open(wd + '/Trace.cfg', 'w') as f:
        f.write(cfg_text('TSpec', 'TConfigs', big, big, 'INVARIANT Reporter\n'))
    v = tlc.validate_traces(wd, 'ShotsTrace', 'Trace.cfg', traces, diagnose=False)
    ctx.add_trace_verdict('ShotsTrace', v, len(traces))
    # rejected executions: explained by the named deviations of the code?
    explained = {}
    for dev in (['BlockOffset'], ['CtlLost'], ['BlockOffset', 'CtlLost']):
        cand = [i for i in sorted(v.rejected) if i not in explained]
        if not cand:
            break
        name = 'TraceDev_%s.cfg' % '_'.join(dev)
        with open(wd + '/' + name, 'w') as f:
            f.write(cfg_text('TSpec', 'TConfigs', big, big, 'INVARIANT Reporter\n', dev=dev))
        v2 = tlc.validate_traces(wd, 'ShotsTrace', name, [traces[i] for i in cand], diagnose=False)
        ctx.add_trace_verdict('ShotsTrace(Deviations={%s})' % ','.join(dev), v2, 0)
        for a in v2.accepted:
            explained[cand[a]] = '+'.join(dev)
    for dev in sorted(set(explained.values())):
        n = sum(1 for x in explained.values() if x == dev)
        ctx.notes.append('named deviation %s: needed to explain %d of %d executions - %s' % (
            dev, n, len(traces), '; '.join(DEV_WHAT[d] for d in dev.split('+'))))
        ctx.log('deviation %s explains %d executions' % (dev, n))
    ops = {}
    for t in traces:
        for e in t['ev']:
            ops[e['op']] = ops.get(e['op'], 0) + 1
    ctx.coverage['actions_executed'] = ops
    ctx.coverage['observed'] = {
        'accepted hits': sum(1 for t in traces for e in t['ev'] for x in e.get('h', []) if x),
        'group completions': sum(1 for t in traces for e in t['ev'] if e.get('gc')),
        'rotations that moved something': sum(1 for t in traces for k, e in enumerate(t['ev'])
                                              if k and e['op'] == 'grot' and e.get('st') != t['ev'][k - 1].get('st')),
        'hits ignored (delay / disabled / blocked / stopped)': sum(1 for t in traces for e in t['ev']
                                                                    if e['op'] in ('sw', 'hitev') and not any(e.get('h', []))),
        'executions per scenario': {str(c['id']): sum(1 for j in jobs if j[1] == c['id']) for c in TABLE}}
    ctx.sample({'kind': 'shots-trace', 'cfg': traces[0]['cfg'], 'trace': traces[0]['ev'][:6]})
    tlc.finish_diagnosis(wd, 'ShotsTrace', 'Trace.cfg', traces, v, skip=set(explained))
    for i, info in sorted(v.rejected.items()):
        if i in explained or info.get('line') is None:
            continue
        fe = info.get('failing_event') or {}
        pe = info.get('prev_event') or {}
        ctx.violation('X01:%s' % fe.get('op', 'end'),
                      'shot execution not explained by the Shots spec at line %s: %s (previous line %s; scenario %s) %s' % (
                          info.get('line'), fe, pe, traces[i]['cfg'], traces[i].get('_tb', '')),
                      {'cid': jobs[i][1], 'sched': jobs[i][2], 'line': info.get('line')})
    ctx.assumptions += [
        'one-player fake game (MpfFakeGameTestCase, no ball devices); the shots, their profile and group live in game mode sm '
        '(priority 100) which is stopped / started by events within the ball; every execution boots a fresh machine',
        'all shots of a scenario share one profile; events are posted through the real event bus, switches through the switch '
        'controller; virtual time, delay switch times in units of %d ms' % UNIT,
        'mark_playfield_active is off (the fake game has no balls on the playfield); show contents are not compared, only '
        'whether the shot has a running show',
        'forced advance = advance event posted with force=True',
    ]


def replay(ctx, data):
    d = data['replay']
    mdir = write_machine(ctx.scratch)
    tr = exec_schedule((mdir, d['cid'], d['sched']))
    for k, e in enumerate(tr['ev']):
        print(k + 1, e)
    print(tr.get('_tb', ''))
