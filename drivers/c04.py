"""C04 / C05 — ball counts agree with the physical machine; ball requests make progress (specs/BallWorld).

One driver serves both properties: the same executions are validated, C04 owns the count monitors
(Bounded, NoFireAtFullTarget = guard of Fire, agreement at rest), C05 the progress monitors (idle at rest,
requests served, nothing pending, every fired eject resolved).
"""
import random

from lib import tlc, harness

LEVEL = 'model_checking'
DEVS = ['bd_trough', 'bd_plunger', 'bd_lock']
COIL = {'c_trough': 'bd_trough', 'c_plunger': 'bd_plunger', 'c_lock': 'bd_lock'}
TOPO = {
    'balls': dict(switches={'bd_trough': ['s_t1', 's_t2', 's_t3'], 'bd_plunger': ['s_plunger'], 'bd_lock': ['s_lock1', 's_lock2']},
                  target={'bd_trough': 'bd_plunger', 'bd_plunger': 'pf', 'bd_lock': 'pf'}, cap='MCCap', tgt='MCTarget',
                  launch='vb_launch_button'),
    'balls2': dict(switches={'bd_trough': ['s_t1', 's_t2', 's_t3'], 'bd_plunger': ['s_plunger', 's_plunger2'],
                             'bd_lock': ['s_lock1', 's_lock2']},
                   target={'bd_trough': 'bd_plunger', 'bd_plunger': 'pf', 'bd_lock': 'bd_plunger'}, cap='MCCap2', tgt='MCTarget2'),
    'balls3': dict(switches={'bd_trough': ['s_t1', 's_t2', 's_t3'], 'bd_plunger': ['s_plunger'], 'bd_lock': ['s_lock1', 's_lock2']},
                   target={'bd_trough': 'bd_plunger', 'bd_plunger': 'pf', 'bd_lock': 'bd_plunger'}, cap='MCCap3', tgt='MCTarget3',
                   confirm={'bd_lock': 's_lock_confirm'}, att='MCAtt3'),
    # the lock counts by an entrance switch and holds what it gets (ball_hold); released on request
    'balls4': dict(switches={'bd_trough': ['s_t1', 's_t2', 's_t3'], 'bd_plunger': ['s_plunger'], 'bd_lock': []},
                   target={'bd_trough': 'bd_plunger', 'bd_plunger': 'pf', 'bd_lock': 'pf'}, cap='MCCap4', tgt='MCTarget4',
                   entrance={'bd_lock': 's_lock_entrance'}, holding=['bd_lock'], jam={'bd_trough': 's_tjam'}),
    # the first topology inside a running game: ball save without limit (every drain is saved, re-ejected after 2 s),
    # further balls are requested by a multiball device
    'balls5': dict(switches={'bd_trough': ['s_t1', 's_t2', 's_t3'], 'bd_plunger': ['s_plunger'], 'bd_lock': ['s_lock1', 's_lock2']},
                   target={'bd_trough': 'bd_plunger', 'bd_plunger': 'pf', 'bd_lock': 'pf'}, cap='MCCap5', tgt='MCTarget5', game=True),
    # trough and a holding lock both feed the one-slot launcher: a request with the trough empty is served from the hold
    'balls6': dict(switches={'bd_trough': ['s_t1', 's_t2', 's_t3'], 'bd_plunger': ['s_plunger'], 'bd_lock': ['s_lock1', 's_lock2']},
                   target={'bd_trough': 'bd_plunger', 'bd_plunger': 'pf', 'bd_lock': 'bd_plunger'}, cap='MCCap6', tgt='MCTarget6',
                   holding=['bd_lock'], sourcing=['bd_lock']),
}
_H = {}


class World:
    """The physical machine: balls roll, switches follow, coils kick."""

    def __init__(self, h, outcomes, ev, topo):
        self.SW = TOPO[topo]['switches']
        self.TG = TOPO[topo]['target']
        self.CONFIRM = TOPO[topo].get('confirm', {})
        self.ENTRANCE = TOPO[topo].get('entrance', {})
        self.JAM = TOPO[topo].get('jam', {})
        self.SHOOTABLE = TOPO[topo].get('shootable', ['bd_lock'])
        self.jammed = {}               # device -> ball resting on its jam switch (in the eject chute) instead of a ball switch
        self.CAP = CAPS[topo]
        self.h = h
        self.m = h.machine
        self.loop = self.m.clock.loop
        self.loc = {1: 'bd_trough', 2: 'bd_trough', 3: 'bd_trough'}     # or ('transit', src, dst, kind)
        self.outcomes = outcomes       # per device: list of 'ok' | 'back' | 'late' | 'noleave'
        self.ev = ev
        self.pending = 0               # world moves scheduled and not done yet
        self.fired = set()             # devices whose coil was pulsed and whose ball has not reacted yet
        self.HOLDING = TOPO[topo].get('holding', [])
        self.GAME = bool(TOPO[topo].get('game'))
        self.LAUNCH = TOPO[topo].get('launch')
        self.nreq = 0
        self.released = {}             # holding device -> released balls that have not left yet
        self.since = {}                # ball -> time it came to rest where it is
        self.lateballs = set()         # balls on a slow trip (arrive after the eject timeout)
        self.want = 0
        if self.LAUNCH:
            self._press()

    def _press(self):
        # a player who keeps pressing the launch button (every 1.7 s): player-controlled ejects wait for it
        self.m.events.post(self.LAUNCH)
        self.loop.call_later(1.7, self._press)

    def mpf(self):
        d = {n: int(self.m.ball_devices[n].balls) for n in DEVS}
        d['pf'] = int(self.m.playfield.balls)
        return d

    def log(self, **kw):
        kw['m'] = self.mpf()
        self.ev.append(kw)

    def at(self, place):
        return sorted(b for b, p in self.loc.items() if p == place)

    def sync_switches(self, dev):
        if dev in self.ENTRANCE:
            return      # no ball switches: balls are counted as they pass the entrance
        n = len(self.at(dev))
        if dev in self.JAM:
            j = self.jammed.get(dev) in self.at(dev)
            if int(self.m.switches[self.JAM[dev]].state) != int(j):
                self.m.switch_controller.process_switch(self.JAM[dev], int(j), logical=True)
            n -= int(j)
        for i, s in enumerate(self.SW[dev]):
            want = 1 if i < n else 0
            if int(self.m.switches[s].state) != want:
                self.m.switch_controller.process_switch(s, want, logical=True)

    def later(self, secs, fn, *a):
        self.pending += 1

        def run():
            self.pending -= 1
            fn(*a)
        self.loop.call_later(secs, run)

    # ---- coil fired by MPF
    def coil_pulsed(self, dev):
        # context for the signature of a refused fire: balls already rolling towards the same target, and other
        # sources whose coil was pulsed in this very instant (their ball has not moved yet)
        tgt = self.TG[dev]
        rolling = len([1 for p in self.loc.values() if isinstance(p, tuple) and p[0] == 'transit' and p[3] == 'ok' and p[2] == tgt
                       and p[1] != 'pf'])
        same = len([1 for d2 in self.fired if d2 != dev and self.TG[d2] == tgt])
        back = len([1 for p in self.loc.values() if isinstance(p, tuple) and p[0] == 'transit' and p[3] == 'back' and p[1] == tgt])
        sitting = len(self.at(tgt)) if tgt != 'pf' else 0
        # was the request this fire serves made after the rolling ball had left its source (MPF then knew about the ball when
        # it decided), or was it pending before (the decision raced with the other eject)?
        last_req = max([i for i, e in enumerate(self.ev) if e['op'] == 'request'] or [-1])
        last_leave = max([i for i, e in enumerate(self.ev) if e['op'] == 'leave' and e['d'] != dev and self.TG[e['d']] == tgt] or [-1])
        late_req = int(rolling > 0 and last_req > last_leave)
        slow = len([1 for b2, p in self.loc.items() if b2 in self.lateballs and isinstance(p, tuple) and p[2] == tgt])
        self.log(op='fire', d=dev, _rolling=rolling, _same=same, _back=back, _sitting=sitting, _tfired=int(tgt in self.fired), _latereq=late_req, _slow=slow)
        self.fired.add(dev)
        q = self.outcomes.get(dev) or []
        kind = q.pop(0) if q else 'ok'
        if dev in self.ENTRANCE:
            kind = 'ok'     # failed ejects of an entrance-counted device cannot be sensed by anybody: not driven
        self.later(0.1, self.react, dev, kind)

    def react(self, dev, kind):
        self.fired.discard(dev)
        balls = self.at(dev)
        if not balls or kind == 'noleave':
            self.log(op='noleave', d=dev)
            return
        b = self.jammed.pop(dev) if self.jammed.get(dev) in balls else balls[-1]     # a ball in the chute leaves first
        late = kind == 'late'       # arrives after every eject timeout (3-4 s) has expired, well before a ball is given up
        if late:
            self.lateballs.add(b)
        self.loc[b] = ('transit', dev, self.TG[dev], 'ok' if late else kind)
        self.sync_switches(dev)
        if kind != 'back' and self.released.get(dev):
            self.released[dev] -= 1
        self.log(op='leave', d=dev, b=b, kind=kind)
        if late:
            if dev in self.CONFIRM:
                self.later(6.85, self.pulse_switch, self.CONFIRM[dev])
            self.later(7.0, self.arrive, b)
            return
        if dev in self.CONFIRM and kind == 'ok':
            # the ball passes the eject-confirm switch shortly before it reaches the target
            self.later(0.45, self.pulse_switch, self.CONFIRM[dev])
        self.later(0.6 if kind == 'ok' else 0.9, self.arrive, b)

    def pulse_switch(self, name):
        self.m.switch_controller.process_switch(name, 1, logical=True)
        self.m.switch_controller.process_switch(name, 0, logical=True)

    def arrive(self, b):
        _, src, dst, kind = self.loc[b]
        place = dst if kind == 'ok' else src
        self.loc[b] = place
        self.lateballs.discard(b)
        if place in self.JAM and len(self.at(place)) == 1 and len(self.ev) % 2 == 0:
            self.jammed[place] = b      # the only ball of the device comes to rest on the jam switch alone
        self.since[b] = self.loop.time()
        if place == 'pf':
            self.m.switch_controller.process_switch('s_pf', 1, logical=True)
            self.m.switch_controller.process_switch('s_pf', 0, logical=True)
        elif place in self.ENTRANCE and src != place:
            self.pulse_switch(self.ENTRANCE[place])
        else:
            self.sync_switches(place)
        self.log(op='arrive', b=b, at=place)

    # ---- the player / the game
    def drain(self):
        balls = self.at('pf')
        if not balls:
            return
        b = balls[0]
        self.loc[b] = ('transit', 'pf', 'bd_trough', 'ok')
        if not self.GAME:       # (in the game topology every drain is saved: the ball is owed back)
            self.want = max(0, self.want - 1)
        self.log(op='drain', b=b)
        self.later(1.0, self.arrive, b)

    def shot(self, dev):
        if dev not in self.SHOOTABLE:
            return
        balls = self.at('pf')
        room = self.CAP[dev] - len(self.at(dev)) - len([1 for p in self.loc.values() if isinstance(p, tuple) and
                                                            ((p[3] == 'ok' and p[2] == dev) or (p[3] == 'back' and p[1] == dev))])
        if not balls or room <= 0:
            return
        b = balls[0]
        self.loc[b] = ('transit', 'pf', dev, 'ok')
        if dev in self.HOLDING:
            self.want = max(0, self.want - 1)
        self.log(op='shot', b=b, d=dev)
        self.later(0.7, self.arrive, b)

    def escape(self, dev):
        balls = self.at(dev)
        if not balls or dev in self.fired:
            return
        if dev == 'bd_trough':
            self.want += 1
        b = balls[-1]
        self.loc[b] = ('transit', dev, 'pf', 'ok')
        self.sync_switches(dev)
        self.log(op='escape', b=b, d=dev)
        self.later(0.5, self.arrive, b)

    def room(self, dev):
        return self.CAP[dev] - len(self.at(dev)) - len([1 for p in self.loc.values() if isinstance(p, tuple) and
                                                         ((p[3] == 'ok' and p[2] == dev) or (p[3] == 'back' and p[1] == dev))])

    def bounce(self, dev):
        balls = self.at('pf')
        if not balls or dev not in self.ENTRANCE or self.room(dev) != 0 or dev in self.fired or self.released.get(dev):
            return
        self.log(op='bounce', b=balls[0], d=dev)
        self.pulse_switch(self.ENTRANCE[dev])

    def release(self, dev):
        if dev not in self.HOLDING or dev in self.fired or self.released.get(dev) or not self.at(dev) or self.room(dev) != self.CAP[dev] - len(self.at(dev)):
            return
        if any(self.loop.time() - self.since.get(b, 0) < 3.0 for b in self.at(dev)):
            return      # a ball that has only just arrived is not held yet (count stabilisation): nothing to release
        self.released[dev] = len(self.at(dev))
        self.want += len(self.at(dev))
        self.log(op='release', d=dev)
        self.m.events.post('hold_release')

    def request(self):
        if self.GAME:
            if self.m.game is None:
                self.want += 1
                self.log(op='request')
                self.m.switch_controller.process_switch('s_start', 1, logical=True)      # game start: ball 1 is requested
                self.m.switch_controller.process_switch('s_start', 0, logical=True)
                return
            if self.want >= 3:
                return
            self.want += 1
            self.log(op='request')
            # multiball (ball_count_type: add, 1 ball): one more ball in play; while it counts its balls down a further
            # ball is an add-a-ball
            self.m.events.post('mb_add' if self.m.multiballs['mb'].balls_live_target > 0 else 'mb_start')
            return
        self.want += 1
        self.nreq += 1
        self.log(op='request')
        # with a launch button every third request is player controlled (the ball waits in the launcher for the button)
        self.m.playfield.add_ball(1, player_controlled=bool(self.LAUNCH and self.nreq % 3 == 0))

    def quiet(self):
        return self.pending == 0 and not any(isinstance(p, tuple) for p in self.loc.values())


def _boot(topo):
    h = harness.boot(topo)
    m = h.machine
    for s in TOPO[topo]['switches']['bd_trough']:
        m.switch_controller.process_switch(s, 1, logical=True)
    h.advance_time_and_run(10)
    if 'holding' in TOPO[topo]:
        m.events.post('hold_on')
        h.advance_time_and_run(1)
    if m.ball_devices['bd_trough'].balls != 3 or m.ball_controller.num_balls_known != 3:
        raise RuntimeError('machine did not find its three balls at boot')
    return h


def exec_schedule(job):
    sched, seed, topo = job
    try:
        return _exec(sched, seed, topo)
    except BaseException as ex:  # pylint: disable=broad-except
        import traceback
        return {'ev': [{'op': 'crash', 'what': repr(ex)[:300], 'm': {'bd_trough': 0, 'bd_plunger': 0, 'bd_lock': 0, 'pf': 0}}],
                '_tb': traceback.format_exc()[-2000:]}


def _mk_broken(w, dname):
    def hnd(**kwargs):
        w.log(op='broken', d=dname)
    return hnd


def _exec(sched, seed, topo):
    rnd = random.Random(seed)
    h = _boot(topo)
    try:
        m = h.machine
        ev = []
        outcomes = {d: [] for d in DEVS}
        for s in sched:
            if s['op'] == 'leave':
                outcomes[s['d']].append(s['kind'])
            elif s['op'] == 'noleave':
                outcomes[s['d']].append('noleave')
        w = World(h, outcomes, ev, topo)
        for dname in DEVS:
            # a device reporting itself broken is a step of the trace
            m.events.add_handler('balldevice_%s_broken' % dname, _mk_broken(w, dname))
        for cname, dev in COIL.items():
            drv = m.coils[cname].hw_driver
            orig = drv.pulse

            def pulse(ps, _o=orig, _d=dev):
                w.coil_pulsed(_d)
                return _o(ps)
            drv.pulse = pulse

        def rest(secs):
            for _ in range(40):
                h.advance_time_and_run(secs)
                if w.quiet():
                    break
            h.advance_time_and_run(secs)
            pending = int(m.playfield.num_balls_requested)
            idle = all(m.ball_devices[d].state == 'idle' for d in DEVS)
            held = sum(len(w.at(d)) for d in w.HOLDING if d not in TOPO[topo].get('sourcing', []))
            w.log(op='rest', known=int(m.ball_controller.num_balls_known), idle=bool(idle), pending=pending,
                  states=[str(m.ball_devices[d].state) for d in DEVS], devs=list(DEVS), _over=len(w.at('pf')) - min(w.want, 3 - held),
                  _phys=dict({d: len(w.at(d)) for d in DEVS}, pf=len(w.at('pf'))),
                  _late=len([1 for e in ev if e['op'] == 'leave' and e.get('kind') == 'late']))

        for si, s in enumerate(sched):
            op = s['op']
            if 'after' in s and op in ('request', 'drain', 'shot', 'escape', 'bounce', 'release'):
                # hand-written timing: this operation comes right after the named world event (op, device/place)
                n0 = len(ev)
                for _ in range(400):
                    if any(e['op'] == s['after'][0] and e.get('d', e.get('at')) == s['after'][1] for e in ev[n0:]):
                        break
                    h.advance_time_and_run(0.05)
            if op == 'request':
                w.request()
            elif op == 'drain':
                w.drain()
            elif op == 'shot':
                w.shot(s['d'])
            elif op == 'escape':
                w.escape(s['d'])
            elif op == 'bounce':
                w.bounce(s['d'])
            elif op == 'release':
                w.release(s['d'])
            else:
                continue
            if any('after' in s2 for s2 in sched[si + 1:si + 2]):
                h.advance_time_and_run(0)       # the next operation brings its own timing
                continue
            if rnd.random() < 0.5:
                h.advance_time_and_run(rnd.choice([0.05, 0.3, 1.0, 2.5, 6.0, 15.0]))
            else:
                # event-aligned timing: the next operation comes shortly after the next thing that happens in the world
                # (a coil fires, a ball leaves / arrives), which is where the races between devices are
                n0 = len([e for e in ev if e['op'] in ('fire', 'leave', 'arrive', 'noleave')])
                k = rnd.choice([1, 1, 2, 3, 4])
                for _ in range(200):
                    h.advance_time_and_run(0.05)
                    if len([e for e in ev if e['op'] in ('fire', 'leave', 'arrive', 'noleave')]) >= n0 + k:
                        break
                h.advance_time_and_run(rnd.choice([0.0, 0.05, 0.2, 0.4]))
            if rnd.random() < 0.25 and w.quiet():
                rest(40)
        rest(60)
        return {'ev': ev, '_seed': seed, '_topo': topo}
    finally:
        try:
            harness.shutdown(h)
        except BaseException:  # pylint: disable=broad-except
            pass


def cfg_text(spec, topo, maxops, extra):
    t = TOPO[topo]
    return """SPECIFICATION %s
CONSTANTS
  Balls = {1, 2, 3}
  Devs <- MCDevs
  Cap <- %s
  Target <- %s
  Shootable = {%s}
  Escapable = {}
  Holding = {%s}
  Sourcing = {%s}
  EntranceCounted = {%s}
  Saved = %s
  MaxAtt <- %s
  MaxOps = %d
%sCHECK_DEADLOCK FALSE
""" % (spec, t['cap'], t['tgt'], ', '.join('"%s"' % d for d in t.get('shootable', ['bd_lock'])), ', '.join('"%s"' % d for d in t.get('holding', [])), ', '.join('"%s"' % d for d in t.get('sourcing', [])),
       ', '.join('"%s"' % d for d in t.get('entrance', {})), 'TRUE' if t.get('game') else 'FALSE', t.get('att', 'MCNoAtt'), maxops, extra)


def handmade():
    R = {'op': 'request'}
    D = {'op': 'drain'}
    S = {'op': 'shot', 'd': 'bd_lock'}
    X = {'op': 'escape', 'd': 'bd_lock'}
    B = {'op': 'bounce', 'd': 'bd_lock'}
    REL = {'op': 'release', 'd': 'bd_lock'}
    L = lambda d, k: {'op': 'leave', 'd': d, 'kind': k}
    N = lambda d: {'op': 'noleave', 'd': d}
    AF = lambda s, op, where: dict(s, after=(op, where))
    return [
        # a second ball is requested while the lock's ball is between the lock and its eject-confirm switch / still in
        # the lock with the coil fired / just arrived in the launcher (only meaningful where the lock feeds the launcher)
        [R, AF(S, 'arrive', 'pf'), AF(R, 'leave', 'bd_lock'), D, D],
        [R, AF(S, 'arrive', 'pf'), AF(R, 'fire', 'bd_lock'), D, D],
        [R, AF(S, 'arrive', 'pf'), AF(R, 'arrive', 'bd_lock'), AF(R, 'leave', 'bd_lock'), D, D, D],
        [R, R, AF(S, 'arrive', 'pf'), AF(D, 'leave', 'bd_lock'), AF(R, 'arrive', 'bd_plunger'), D],
        # an entrance-counted holding lock is filled, a further ball rolls over its entrance and bounces back, then
        # the held balls are released (no effect in the topologies without such a lock)
        [R, AF(S, 'arrive', 'pf'), R, AF(S, 'arrive', 'pf'), R, AF(B, 'arrive', 'pf'), B, D, REL, D, D],
        [R, AF(S, 'arrive', 'pf'), R, AF(S, 'arrive', 'pf'), AF(B, 'arrive', 'bd_lock'), REL, R, D, D, D],
        [R, AF(S, 'arrive', 'pf'), REL, AF(S, 'arrive', 'pf'), R, D, REL, D],
        # (game topology) two balls in play drain within the ball save's eject delay; a third is added meanwhile
        [R, AF(R, 'arrive', 'pf'), AF(D, 'arrive', 'pf'), D, R, D],
        [R, AF(R, 'arrive', 'pf'), AF(R, 'arrive', 'pf'), AF(D, 'arrive', 'pf'), D, D, S, D],
        # (holding lock feeding the launcher) all balls out, two get held, a further request can only come from the hold
        [R, R, R, AF(S, 'arrive', 'pf'), S, R, D, D],
        [R, R, R, AF(S, 'arrive', 'pf'), D, S, R, R, D],
        # the trough runs out of attempts (where max_eject_attempts is configured): three failures in a row
        [R, N('bd_trough'), N('bd_trough'), N('bd_trough'), R, D],
        [R, L('bd_trough', 'back'), N('bd_trough'), L('bd_trough', 'back'), R],
        [R, L('bd_trough', 'ok'), L('bd_plunger', 'ok'), R, N('bd_trough'), L('bd_trough', 'back'), N('bd_trough'), D],
        # late arrivals: the ball reaches its target only after the eject timeout
        [R, L('bd_trough', 'late'), R, D, D],
        [R, L('bd_trough', 'ok'), L('bd_plunger', 'late'), R, L('bd_trough', 'late'), D, D],
        [R, AF(S, 'arrive', 'pf'), L('bd_lock', 'late'), R, D, D],
        [R, D, R, R, D, D],
        [R, L('bd_trough', 'back'), L('bd_plunger', 'back'), R, D],
        [R, N('bd_trough'), N('bd_trough'), R, S, S, D],
        [R, R, R, R, D, D, D, D],
        [R, S, R, S, L('bd_lock', 'back'), D, D],
        # the launcher's first try fails while the trough is already asked for the next ball
        [R, R, L('bd_trough', 'ok'), L('bd_plunger', 'back'), L('bd_trough', 'ok'), L('bd_plunger', 'ok'), R],
        [R, R, R, L('bd_trough', 'ok'), N('bd_plunger'), L('bd_trough', 'ok'), L('bd_plunger', 'ok'), D, D],
    ]


def run_world(ctx):
    wd = tlc.prepare(ctx.scratch, 'BallWorld', 'ballworld')
    alljobs, alltraces, rejected = [], [], {}
    for topo in ('balls', 'balls2', 'balls3', 'balls4', 'balls5', 'balls6'):
        with open(wd + '/MC.cfg', 'w') as f:
            f.write(cfg_text('Spec', topo, 4 if ctx.quick else 6, 'INVARIANT TypeOK\nINVARIANT NeverOverfull\n'))
        r = tlc.expect_ok(tlc.check(wd, 'BallWorldMC', 'MC.cfg', workers=8, timeout=2000), 'BallWorld design check')
        ctx.add_tlc('BallWorldMC(%s)' % topo, r, {'Balls': 3, 'Devs': 3, 'MaxOps': 4 if ctx.quick else 6})
        with open(wd + '/Gen.cfg', 'w') as f:
            f.write(cfg_text('Spec', topo, 9, ''))
        behs, _ = tlc.simulate(wd, 'BallWorldMC', 'Gen.cfg', num=60 if ctx.quick else 1500, depth=40, seed=ctx.seed)
        jobs = [([s['act'] for s in b], ctx.seed * 1000 + i, topo) for i, b in enumerate(behs)]
        jobs += [(s, ctx.seed * 77 + i, topo) for i, s in enumerate(handmade())]
        traces = harness.pmap(exec_schedule, jobs, chunk=2, item_timeout=180)
        with open(wd + '/Trace.cfg', 'w') as f:
            f.write(cfg_text('TSpec', topo, 1000000, 'INVARIANT TypeOK\nINVARIANT Reporter\n'))
        with open(wd + '/BallWorldTraceT.tla', 'w') as f:
            f.write('---- MODULE BallWorldTraceT ----\nEXTENDS BallWorldTrace, BallWorldMCDefs\n====\n')
        v = tlc.validate_traces(wd, 'BallWorldTraceT', 'Trace.cfg', traces)
        tlc.finish_diagnosis(wd, "BallWorldTraceT", "Trace.cfg", traces, v)
        ctx.add_trace_verdict('BallWorldTrace(%s)' % topo, v, len(traces))
        over = [i for i, t in enumerate(traces) if any(e.get('op') == 'rest' and e.get('_over', 0) > 0 for e in t['ev'])]
        if over:
            # outside both statements (every request was served, counts agree): noted, not judged
            ctx.log('observation (%s): %d executions end with more balls on the playfield than were requested' % (topo, len(over)))
            ctx.coverage.setdefault('observations', []).append('%s: %d of %d executions over-deliver (a drained ball is ejected '
                                                               'again without a request)' % (topo, len(over), len(traces)))
        if topo == 'balls':
            ctx.sample({'kind': 'ball-world-trace', 'topology': topo, 'trace': traces[0]['ev'][:12]})
        base = len(alljobs)
        alljobs += jobs
        alltraces += traces
        for i, info in v.rejected.items():
            rejected[base + i] = info
    return alljobs, alltraces, rejected


CAPS = {'balls': {'bd_trough': 3, 'bd_plunger': 1, 'bd_lock': 2}, 'balls2': {'bd_trough': 3, 'bd_plunger': 2, 'bd_lock': 2},
        'balls3': {'bd_trough': 3, 'bd_plunger': 1, 'bd_lock': 2}, 'balls4': {'bd_trough': 3, 'bd_plunger': 1, 'bd_lock': 2},
        'balls5': {'bd_trough': 3, 'bd_plunger': 1, 'bd_lock': 2}, 'balls6': {'bd_trough': 3, 'bd_plunger': 1, 'bd_lock': 2}}


def classify(fe, topo):
    """Stable signature for a rejected line: which clause of the statement it breaks."""
    m = fe.get('m', {})
    for d, v in sorted(m.items()):
        if v < 0:
            # one signature per topology: which count dips below zero depends on the interleaving only
            return 'negative-count'
        if d in CAPS[topo] and v > CAPS[topo][d]:
            return 'over-capacity:%s' % d
    if fe.get('op') == 'rest':
        if not fe.get('idle', True):
            return 'rest:not-idle:%s' % '+'.join(st for st in fe.get('states', []) if st != 'idle')
        if '_phys' in fe and any(m.get(d) != n for d, n in fe['_phys'].items()):
            if fe.get('_late', 0) > 0:
                # a ball that arrived after its eject had timed out was booked twice or attributed to the wrong eject
                return 'rest:count-mismatch:after-late-arrival'
            return 'rest:count-mismatch:%s' % '+'.join(sorted(d for d, n in fe['_phys'].items() if m.get(d) != n))
        if fe.get('_over', 0) < 0:
            return 'rest:under-delivered'
        return 'rest:counts-or-delivery'
    if fe.get('op') == 'fire':
        # why the target has no room: a ball that left another source earlier is still rolling towards it; the target's own
        # failed eject is falling back into it; another source was fired in this same instant; the target's coil was
        # just fired (MPF counts on that eject to succeed); or balls are simply sitting in it
        if fe.get('_slow', 0) > 0 and fe.get('_rolling', 0) == fe.get('_slow', 0):
            # the only ball on its way is one whose eject already timed out for MPF (late arrival)
            return 'fire-at-full-target:late-ball'
        why = [n for n, k in (('ball-rolling:requested-after-it-left' if fe.get('_latereq') else 'ball-rolling', '_rolling'), ('ball-falling-back', '_back'), ('same-instant', '_same'),
                              ('target-ejecting', '_tfired')) if fe.get(k, 0) > 0]
        return 'fire-at-full-target:' + ('+'.join(why) if why else 'ball-sitting')
    return 'step:%s' % fe.get('op', '?')


C05_KINDS = ('rest:not-idle', 'rest:under-delivered', 'step:noleave', 'step:leave', 'step:arrive')


def report(ctx, pid, jobs, traces, rejected):
    for i, info in sorted(rejected.items()):
        if info.get('line') is None:
            continue
        fe = info.get('failing_event') or {}
        pe = info.get('prev_event') or {}
        kind = classify(fe, jobs[i][2])
        # progress clauses belong to C05, count clauses to C04; delivery at rest is judged by both
        mine = kind.startswith(C05_KINDS) if pid == 'C05' else not kind.startswith(('rest:not-idle', 'rest:under-delivered'))
        if kind == 'rest:counts-or-delivery' or kind.startswith('step:crash'):
            mine = True
        if not mine:
            continue
        what = '%s: line %s not explained by BallWorld spec: %s (prev %s)' % (kind, info.get('line'), fe, pe)
        # (the late-ball class does not depend on the topology: one signature for all)
        ctx.violation('%s:%s:%s' % (pid, 'any' if kind.endswith((':late-ball', ':after-late-arrival')) else jobs[i][2], kind), what, {'job': list(jobs[i]), 'trace': traces[i], 'info': info})


def run(ctx):
    jobs, traces, v = run_world(ctx)
    ctx.coverage['monitors'] += ['Bounded', 'NoFireAtFullTarget (guard of Fire)', 'AtRestAgreement', 'SumEqualsKnown']
    report(ctx, 'C04', jobs, traces, v)
    ctx.assumptions += ['the world double is trusted; topology trough(3) -> plunger(1) -> playfield, lock(2) -> playfield',
                        'eject outcomes: success, ball falls back, ball does not move; no game running (requests are direct)']


def replay(ctx, data):
    d = data['replay']
    tr = exec_schedule(tuple(d['job']))
    print('replay trace:')
    for e in tr['ev']:
        print('  ', e)
    print(tr.get('_tb', ''))
